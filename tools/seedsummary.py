#!/usr/bin/env python3
"""Summarise /verif/seeded/*/meta.json into seeded/README.md and the table of DESIGN.md section 8."""
import glob
import json
import os
import re

VERIF = os.path.dirname(os.path.dirname(os.path.abspath(__file__)))


def verdict(r):
    if r["exit"] == 0 and not r["violation_lines"]:
        return "missed"
    if any("no-failing-input-found" not in l for l in r["violation_lines"]):
        return "caught, concrete replay"
    if r["violation_lines"]:
        return "noticed (model ≠ implementation, no failing input found)"
    return "exit %d" % r["exit"]


def main():
    rows = []
    for p in sorted(glob.glob(os.path.join(VERIF, "seeded", "*", "meta.json"))):
        m = json.load(open(p))
        what = m.get("what", "")
        res = "; ".join("%s: %s" % (c, verdict(r)) for c, r in sorted(m.get("checks", {}).items()))
        conf = "suite %s, demo with/without: %s/%s" % (m.get("suite_with_change", "?"), m.get("demo_with_change", "?"), m.get("demo_without_change", "?"))
        if m.get("status"):
            res = "[%s: %s] " % (m["status"], m.get("status_note", "")) + res
        rows.append((m["name"], m["property"], what, res, conf))
    lines = ["| change | what it breaks | checks | confirmed |", "|---|---|---|---|"]
    for n, prop, what, res, conf in rows:
        lines.append("| %s | %s | %s | %s |" % (n, what.replace("|", "\\|"), res, conf))
    table = "\n".join(lines)
    special = sum(1 for r in rows if r[3].startswith("["))
    caught = sum(1 for r in rows if "caught" in r[3] and not r[3].startswith("["))
    noticed = sum(1 for r in rows if "caught" not in r[3] and "noticed" in r[3] and not r[3].startswith("["))
    missed = len(rows) - caught - noticed - special
    head = ("%d seeded changes: %d caught with a concrete failing input, %d noticed without one, %d missed, %d retired / not reachable in the harness's configuration (marked in the table).\n\n" % (len(rows), caught, noticed, missed, special))
    open(os.path.join(VERIF, "seeded", "README.md"), "w").write(
        "# Seeded changes\n\nEach directory: `patch.diff` (the change to /repo), the demonstration test that fails with it and passes "
        "without it, `report.md` (the explanation of whoever planted it, where kept; a report of rounds 1 and 2 covers two changes), `meta.json` (confirmation in a scratch worktree and the results of the checks run against /repo with the change "
        "applied; `tools/seedtest.py` produces it).\n\n" + head + table + "\n")
    dp = os.path.join(VERIF, "DESIGN.md")
    s = open(dp).read()
    start = "<!-- SEEDED-TABLE-START -->"
    end = "<!-- SEEDED-TABLE-END -->"
    block = start + "\n" + head + table + "\n" + end
    if start in s:
        s = re.sub(re.escape(start) + r".*?" + re.escape(end), lambda _: block, s, flags=re.S)
    else:
        s = s.replace("SEEDED_TABLE_PLACEHOLDER", block)
    open(dp, "w").write(s)
    print(head)


if __name__ == "__main__":
    main()
