#!/usr/bin/env python3
"""Confirm a seeded change and run checks against it.

usage: seedtest.py <name> <patch.diff> <demo_test.go> <property> [check ids...]

1. in a scratch worktree of /repo (outside /repo and /verif): the change applies, the tree builds,
   the pinned suite passes, the demonstration fails with the change and passes without it;
2. the change is applied to /repo, the listed checks (default: the property's own) run, and the
   change is undone straight afterwards;
3. everything is stored under /verif/seeded/<name>/ (patch.diff, demo, meta.json).
"""
import json, os, re, shutil, subprocess, sys, time

ENV = dict(os.environ, GOFLAGS="-mod=mod", GOPROXY="off", GOSUMDB="off", GOTOOLCHAIN="local")
REPO = "/repo"
VERIF = "/verif"


def sh(cmd, cwd=None, timeout=3600):
    p = subprocess.run(cmd, shell=True, cwd=cwd, env=ENV, stdout=subprocess.PIPE, stderr=subprocess.STDOUT, text=True, timeout=timeout)
    return p.returncode, p.stdout


def main():
    name, patch, demo, prop = sys.argv[1:5]
    checks = sys.argv[5:] or [prop]
    skip_confirm = os.environ.get("SEED_SKIP_CONFIRM") == "1"
    out = os.path.join(VERIF, "seeded", name)
    os.makedirs(out, exist_ok=True)
    keep = os.environ.get("SEED_KEEP_PATCH") == "1"   # use the given patch file as it is (a variant kept beside patch.diff)
    if not keep and os.path.abspath(patch) != os.path.join(out, "patch.diff"):
        shutil.copy(patch, os.path.join(out, "patch.diff"))
    demo_name = os.path.basename(demo)
    if os.path.abspath(demo) != os.path.join(out, demo_name):
        shutil.copy(demo, os.path.join(out, demo_name))
    if not keep:
        patch = os.path.join(out, "patch.diff")
    else:
        patch = os.path.abspath(patch)
    demo = os.path.join(out, demo_name)
    src = open(demo).read()
    tests = re.findall(r"^func (Test\w+)\(", src, re.M)
    pkg = re.search(r"^package (\w+)", src, re.M).group(1)
    pkgdir = os.environ.get("SEED_PKGDIR", ".")
    meta_path = os.path.join(out, "meta.json")
    meta = json.load(open(meta_path)) if os.path.exists(meta_path) else {}
    meta.update({"name": name, "property": prop, "demo_tests": tests, "demo_file": demo_name, "demo_dir": pkgdir})
    head = sh("git rev-parse --short HEAD", REPO)[1].strip()
    meta["repo_head"] = head

    if not skip_confirm:
        wt = "/tmp/seedwt-" + name
        sh(f"git worktree remove --force {wt}", REPO)
        rc, o = sh(f"git worktree add --detach {wt} HEAD", REPO)
        assert rc == 0, o
        try:
            dst = os.path.join(wt, pkgdir, "zzseed_" + demo_name)
            shutil.copy(demo, dst)
            run = "go test -count=1 -run '^(" + "|".join(tests) + ")$' ./" + pkgdir
            rc0, o0 = sh(run, wt)
            meta["demo_without_change"] = "pass" if rc0 == 0 else "FAIL"
            rc, o = sh(f"git apply {patch}", wt)
            assert rc == 0, o
            rcb, ob = sh("go build ./... && go vet ./... 2>&1 | tail -5", wt)
            meta["builds"] = rcb == 0
            rc1, o1 = sh(run, wt)
            meta["demo_with_change"] = "pass" if rc1 == 0 else "fail"
            open(os.path.join(out, "demo_with_change.log"), "w").write(o1[-6000:])
            os.remove(dst)
            rcs, os_ = sh("go test -count=1 ./... 2>&1 | tail -15", wt, timeout=1800)
            meta["suite_with_change"] = "pass" if (rcs == 0 and "FAIL" not in os_) else "FAIL"
            meta["suite_tail"] = os_[-600:]
        finally:
            sh(f"git worktree remove --force {wt}", REPO)
            sh("git worktree prune", REPO)
        print(f"[{name}] confirm: builds={meta['builds']} suite={meta['suite_with_change']} demo with={meta['demo_with_change']} without={meta['demo_without_change']}")

    if os.environ.get("SEED_NO_CHECKS") == "1":   # confirmation only (several can run side by side)
        json.dump(meta, open(meta_path, "w"), indent=1)
        return
    # run the checks against /repo with the change applied
    rc, o = sh("git status --porcelain", REPO)
    assert o.strip() == "", "/repo not clean: " + o
    rc, o = sh(f"git apply {patch}", REPO)
    assert rc == 0, o
    results = meta.get("checks", {})
    try:
        for cid in checks:
            t0 = time.time()
            rc, o = sh(f"./check {cid} " + os.environ.get("SEED_CHECK_ARGS", ""), VERIF, timeout=7200)
            vio = [l for l in o.splitlines() if l.startswith("VIOLATION")]
            results[cid] = {"exit": rc, "violation_lines": vio, "seconds": int(time.time() - t0), "tail": o.splitlines()[-6:]}
            print(f"[{name}] check {cid}: exit {rc} {vio[:2]}")
            # keep the replay the check produced
            for l in vio:
                m = re.search(r"replay=(\S+)", l)
                if m and os.path.exists(m.group(1)):
                    shutil.copy(m.group(1), os.path.join(out, f"replay_{cid}.json"))
    finally:
        sh("git checkout -- .", REPO)
        rc, o = sh("git status --porcelain", REPO)
        assert o.strip() == "", "/repo not clean after undo: " + o
    meta["checks"] = results
    meta["caught_by"] = sorted(c for c, r in results.items() if r["exit"] == 1 and r["violation_lines"])
    json.dump(meta, open(meta_path, "w"), indent=1)
    # the evidence files were rewritten by the runs against the changed tree: restore them
    sh("git checkout -- evidence", VERIF)


if __name__ == "__main__":
    main()
