#!/usr/bin/env python3
"""Regenerates /verif/MANIFEST.json from props/*.json (one descriptor per claimed property)
and tools/not_applicable.json."""
import glob, json, os
V = os.path.dirname(os.path.dirname(os.path.abspath(__file__)))
checks = []
for f in sorted(glob.glob(os.path.join(V, "props", "C*.json"))):
    d = json.load(open(f))
    if d.get("disabled"):
        continue
    m = d["manifest"]
    checks.append({
        "property_id": d["id"],
        "quick_cmd": "./check %s --tier quick" % d["id"],
        "thorough_cmd": "./check %s --tier thorough" % d["id"],
        "evidence_file": "/verif/evidence/%s.json" % d["id"],
        "replay_cmd_template": "./check %s --replay {path}" % d["id"],
        "engine": "coq-model+correspondence",
        "level_claimed": {"category": "proof", "text": m["level_text"], "design_ref": m.get("design_ref", "")},
        "level_note": m["level_note"],
        "technique": m["technique"],
    })
na = []
p = os.path.join(V, "tools", "not_applicable.json")
if os.path.exists(p):
    na = json.load(open(p))
claimed = {c["property_id"] for c in checks}
na = [x for x in na if x["property_id"] not in claimed]
man = {
    "version": 1,
    "setup_cmd": "./setup.sh",
    "hooks": {
        "guard": "verif",
        "enable": "go test -c -tags verif -overlay /verif/build/overlay_<pkg>.json (harness files /verif/harness/<pkg>/*_verif_test.go are added to the package at build time; nothing is committed to /repo)",
        "baseline_off_cmd": "for m in $(cat /w/out/gomods.txt); do MF=$(cd /repo/$m && . /w/out/goenv.sh && gomodflag); (cd /repo/$m && go test $MF -json -vet=off -count=1 -timeout 25m ./...); done",
        "source_commits": [],
        "add_only": True,
    },
    "engines": [{
        "name": "coq-model+correspondence",
        "path": "/verif/check",
        "serves_properties": sorted(claimed),
        "kind_free_text": "Coq 8.16.1 development (coq/: generated fragments, executable models, proofs, property theorems) + Go correspondence harness injected via -overlay + python driver",
    }],
    "checks": checks,
    "not_applicable": na,
    "notes": "Every check is `./check <ID>`: regenerate coq/gen from /repo, rebuild the Coq files the property needs, build the harness from /repo's working tree, run the property's scenario on the real implementation, let Coq compare model and implementation and evaluate the property's trace predicate on the implementation's traces, audit Print Assumptions. See DESIGN.md.",
}
json.dump(man, open(os.path.join(V, "MANIFEST.json"), "w"), indent=1)
print("MANIFEST.json: %d checks, %d not applicable" % (len(checks), len(na)))
