#!/usr/bin/env python3
"""Write the table of theorem and case counts (from the evidence files of the last runs) into DESIGN.md section 5."""
import json, os, re, glob
VERIF = os.path.dirname(os.path.dirname(os.path.abspath(__file__)))
rows = []
for p in sorted(glob.glob(os.path.join(VERIF, "evidence", "C*.json"))):
    e = json.load(open(p))
    c = e.get("coverage", {})
    pid = os.path.basename(p)[:-5]
    cases = c.get("evaluations", "")
    if not cases:
        for k, v in c.items():
            if isinstance(v, dict) and "cases" in v:
                cases = v["cases"]
    rows.append("| %s | %s / %s | %s | %s s |" % (pid, c.get("discharged", "?"), c.get("obligations", "?"), cases, e.get("wall_s", "?")))
block = ("<!-- COUNTS-START -->\nTheorems exported by the property file (closed under the global context / all) and cases of the last quick run, "
         "from `evidence/*.json` (`tools/designcounts.py`; C09J, C14H, C16P are the second scenarios of C09, C14, C16; the numbers "
         "in the prose below are those of the time of writing):\n\n| check | theorems closed / all | cases | wall |\n|---|---|---|---|\n"
         + "\n".join(rows) + "\n<!-- COUNTS-END -->")
dp = os.path.join(VERIF, "DESIGN.md")
s = open(dp).read()
if "<!-- COUNTS-START -->" in s:
    s = re.sub(r"<!-- COUNTS-START -->.*?<!-- COUNTS-END -->", lambda _: block, s, flags=re.S)
else:
    anchor = "### C01 — no session without valid credentials"
    s = s.replace(anchor, block + "\n\n" + anchor, 1)
open(dp, "w").write(s)
print("\n".join(rows))
