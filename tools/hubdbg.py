#!/usr/bin/env python3
"""hubdbg.py <prop dir under build> <case id> <step>: show implementation observation and model output of one step"""
import json, os, re, subprocess, sys
V = os.path.dirname(os.path.dirname(os.path.abspath(__file__)))
d, cid, step = sys.argv[1], int(sys.argv[2]), int(sys.argv[3])
bd = os.path.join(V, "build", d)
term = None
for f in sorted(os.listdir(bd)):
    if f.startswith("cases_") and f.endswith(".v"):
        txt = open(os.path.join(bd, f)).read()
        m = re.search(r"^mkcase %d (\d+) (\[[^\]]*\]) (true|false) (\[.*?\])(?=;\nmkcase|\n\]\.)" % cid, txt, re.S | re.M)
        if m:
            term = m
            break
if not term:
    sys.exit("case not found")
mode, limits, gated, trace = term.group(1), term.group(2), term.group(3), term.group(4)
v = """From Coq Require Import List NArith Bool.
From Verif Require Import corr.Run_Hub.
Import ListNotations. Open Scope N_scope.
Definition tr : trace := %s.
Definition ops := map (fun e => fst (fst e)) tr.
Definition run := model_run %s (init %s %s) ops.
Definition st := %d%%nat.
Eval vm_compute in (nth_error ops st).
Eval vm_compute in (option_map (fun e => snd (fst e)) (nth_error tr st)).
Eval vm_compute in (option_map fst (nth_error run st)).
Eval vm_compute in (option_map snd (nth_error tr st)).
Eval vm_compute in (option_map snd (nth_error run st)).
""" % (trace, mode, limits, gated, step)
p = os.path.join(bd, "dbg.v")
open(p, "w").write(v)
out = subprocess.run(["coqc", "-R", os.path.join(V, "coq"), "Verif", p], cwd=bd, capture_output=True, text=True)
txt = out.stdout + out.stderr
labels = ["OP", "IMPL OBS", "MODEL OUTS", "IMPL DIGEST", "MODEL DIGEST"]
parts = re.split(r"\n\s*= ", "\n" + txt)
for lab, part in zip(labels, parts[1:]):
    print("==== " + lab)
    print(re.sub(r"\s+", " ", part)[:3000])
