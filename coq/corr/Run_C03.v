(* C03: model = implementation, and the property's trace predicate on the implementation's trace *)
From Coq Require Import List NArith Bool.
From Verif Require Export corr.Hub_preds.
Import ListNotations.
Open Scope N_scope.
Definition case := hcase.
Definition P_C03 (c : hcase) : bool := match P_hub 3 c with None => true | Some _ => false end.
Definition judge_all (cs : list case) : list (N * N * N) := judge_hub 3 cs.
