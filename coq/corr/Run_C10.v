(* Trace predicate P_C10 (the property itself, written from the property text and
   the message formats of docs/standalone-signaling-api-v1.md, not from the
   model) and the judge used by the generated cases files.  No proofs. *)
From Coq Require Import List ZArith NArith String Bool Ascii.
From Verif Require Export lib.Json lib.Decode model.ClientMsg.
Import ListNotations.
Open Scope string_scope.
Open Scope list_scope.

(* ---- the documented message format -----------------------------------------------------
   Kinds of the members the protocol defines (client -> server).  "null" counts
   as "member absent" everywhere.  Written by hand from the documentation; the
   generated schema is NOT used here. *)
Inductive dk :=
| DStr | DInt | DAny
| DStrs                               (* list of strings *)
| DObj (ms : list (string * dk)).

Definition d_recipient : dk := DObj [("type", DStr); ("sessionid", DStr); ("userid", DStr)].
Definition d_message : dk := DObj [("recipient", d_recipient); ("data", DAny)].
Definition d_common : list (string * dk) := [("sessionid", DStr); ("roomid", DStr)].

Definition doc_client : dk := DObj [
  ("id", DStr); ("type", DStr);
  ("hello", DObj [("version", DStr); ("resumeid", DStr); ("features", DStrs);
                  ("auth", DObj [("type", DStr); ("params", DAny); ("url", DStr)])]);
  ("bye", DObj []);
  ("room", DObj [("roomid", DStr); ("sessionid", DStr);
                 ("federation", DObj [("signaling", DStr); ("url", DStr); ("roomid", DStr); ("token", DStr)])]);
  ("message", d_message);
  ("control", d_message);
  ("internal", DObj [
     ("type", DStr);
     ("addsession", DObj (d_common ++ [("userid", DStr); ("user", DAny); ("flags", DInt); ("incall", DInt);
                                       ("options", DObj [("actorId", DStr); ("actorType", DStr)])]));
     ("updatesession", DObj (d_common ++ [("flags", DInt); ("incall", DInt)]));
     ("removesession", DObj (d_common ++ [("userid", DStr)]));
     ("incall", DObj [("incall", DInt)]);
     ("dialout", DObj [("type", DStr); ("roomid", DStr);
                       ("error", DObj [("code", DStr); ("message", DStr); ("details", DAny)]);
                       ("status", DObj [("callid", DStr); ("status", DStr); ("cause", DStr); ("code", DInt); ("message", DStr)])])]);
  ("transient", DObj [("type", DStr); ("key", DStr); ("value", DAny); ("ttl", DInt)])
].

(* every occurrence of a defined member has the documented kind *)
Fixpoint conforms (d : dk) (j : json) {struct j} : bool :=
  match j with
  | JNull => true
  | JBool _ | JFloat _ _ => match d with DAny => true | _ => false end
  | JNum _ => match d with DAny | DInt => true | _ => false end
  | JStr _ => match d with DAny | DStr => true | _ => false end
  | JArr l => match d with DAny => true | DStrs => forallb is_string l | _ => false end
  | JObj mem =>
      match d with
      | DAny => true
      | DObj ms =>
          (fix go (mem : list (string * json)) : bool :=
             match mem with
             | [] => true
             | (k, v) :: r => match assoc k ms with Some d' => conforms d' v | None => true end && go r
             end) mem
      | _ => false
      end
  end.

Definition eff_str (k : string) (ms : members) : option string :=
  match last_nonnull k ms with Some (JStr s) => Some s | _ => None end.
Definition str_or_empty (k : string) (ms : members) : string :=
  match eff_str k ms with Some s => s | None => "" end.
Definition absent (k : string) (ms : members) : bool :=
  match nonnull_occurrences k ms with [] => true | _ => false end.
(* the sub-object under k when the member occurs exactly once (repeated members
   are merged by the decoder; such documents are not judged at this level) *)
Definition single_obj (k : string) (ms : members) : option members :=
  match nonnull_occurrences k ms with [JObj sub] => Some sub | _ => None end.
Definition in_list (s : string) (l : list string) : bool := existsb (String.eqb s) l.

(* required members, per message type (documentation: "Establish connection",
   "Resuming sessions", "Join room", "Join federated room", "Sending messages between clients",
   "Control messages", "Transient data", "Internal clients") *)
Definition bad_recipient (m : members) : bool :=
  match nonnull_occurrences "recipient" m with
  | [] => true
  | [JObj rc] =>
      let ty := str_or_empty "type" rc in
      negb (in_list ty ["session"; "user"; "room"; "call"]) ||
      (String.eqb ty "session" && String.eqb (str_or_empty "sessionid" rc) "") ||
      (String.eqb ty "user" && String.eqb (str_or_empty "userid" rc) "")
  | _ => false
  end.

Definition bad_common (s : members) : bool :=
  String.eqb (str_or_empty "sessionid" s) "" || String.eqb (str_or_empty "roomid" s) "".

Definition bad_sub (ty : string) (sub : members) : bool :=
  if String.eqb ty "hello" then
    negb (in_list (str_or_empty "version" sub) ["1.0"; "2.0"]) ||
    (String.eqb (str_or_empty "resumeid" sub) "" &&
     (absent "auth" sub ||
      match single_obj "auth" sub with
      | Some a =>
          absent "params" a ||
          (let aty := str_or_empty "type" a in
           negb (in_list aty [""; "client"; "federation"; "internal"]) ||
           (in_list aty [""; "client"; "federation"] && String.eqb (str_or_empty "url" a) ""))
      | None => false
      end))
  else if String.eqb ty "room" then
    match single_obj "federation" sub with
    | Some f => String.eqb (str_or_empty "signaling" f) "" || String.eqb (str_or_empty "url" f) "" ||
                String.eqb (str_or_empty "token" f) ""
    | None => false
    end
  else if String.eqb ty "message" || String.eqb ty "control" then
    absent "data" sub || bad_recipient sub
  else if String.eqb ty "internal" then
    let ity := str_or_empty "type" sub in
    String.eqb ity "" ||
    (in_list ity ["addsession"; "updatesession"; "removesession"; "incall"; "dialout"] && absent ity sub) ||
    (in_list ity ["addsession"; "updatesession"; "removesession"] &&
     match single_obj ity sub with Some s => bad_common s | None => false end) ||
    (String.eqb ity "dialout" &&
     match single_obj "dialout" sub with
     | Some d =>
         let dty := str_or_empty "type" d in
         String.eqb dty "" || (String.eqb dty "error" && absent "error" d) || (String.eqb dty "status" && absent "status" d)
     | None => false
     end)
  else if String.eqb ty "transient" then
    in_list (str_or_empty "type" sub) ["set"; "remove"] && String.eqb (str_or_empty "key" sub) ""
  else false.

Definition typed_messages : list string := ["hello"; "room"; "message"; "control"; "internal"; "transient"].

(* "the message fails validation", as a reader of the documentation would say it.
   One direction only is claimed: spec_invalid => exactly one error, no effect. *)
Definition spec_invalid_doc (j : json) : bool :=
  match j with
  | JObj ms =>
      negb (conforms doc_client j) ||
      match eff_str "type" ms with
      | None => true
      | Some ty =>
          String.eqb ty "" ||
          (in_list ty typed_messages && absent ty ms) ||
          match single_obj ty ms with
          | Some sub => in_list ty typed_messages && bad_sub ty sub
          | None => false
          end
      end
  | _ => true
  end.

Definition eff_type (j : json) : string :=
  match j with JObj ms => str_or_empty "type" ms | _ => "" end.

(* ---- signalling data for the media server ("Media publishing" / "Receive media" in the
   documentation): {"type", "sid", "roomType": audio|video|screen, "payload": {...}, "bitrate",
   codecs}; an offer / answer carries the SDP as string "sdp" of the payload.  When the server
   has a media server it validates such data in messages to a session and - for a sender that
   is in a room - to the room / the call, and answers invalid data with an error (no_sdp,
   invalid_sdp, invalid_format); nobody else sees anything.  As above one direction only:
   data that has the documented shape (every defined member of the documented kind) but breaks
   one of these rules.  [sdp_ok]: the text parses as a session description (oracle). *)
Definition stream_types : list string := ["audio"; "video"; "screen"].
Definition all_strings (k : string) (ms : members) : bool := forallb is_string (nonnull_occurrences k ms).
Definition small_int (j : json) : bool :=
  match j with JNum z => (Z.abs z <? 2 ^ 31)%Z | _ => false end.
Definition media_string_members : list string :=
  ["type"; "sid"; "roomType"; "audiocodec"; "videocodec"; "vp9profile"; "h264profile"].

Definition media_data_shaped (dms : members) : bool :=
  forallb (fun k => all_strings k dms) media_string_members &&
  forallb small_int (nonnull_occurrences "bitrate" dms) &&
  match nonnull_occurrences "payload" dms with
  | [] => true
  | [JObj pms] => forallb (fun kv => iface_ok (snd kv)) pms
  | _ => false
  end.

Definition media_data_invalid (sdp_ok : string -> bool) (dms : members) : bool :=
  let rt := str_or_empty "roomType" dms in
  (negb (String.eqb rt "") && negb (in_list rt stream_types)) ||
  (in_list (str_or_empty "type" dms) ["offer"; "answer"] &&
   match nonnull_occurrences "payload" dms with
   | [JObj pms] =>
       match lookup_last "sdp" pms with
       | Some (JStr s) => negb (sdp_ok s)
       | _ => true                                        (* no "sdp", null, not a string *)
       end
   | _ => true
   end).

(* the document is a "message" to a recipient for which the media data is validated
   ([inroom]: the sender is in a room) and its data is shaped, but invalid, media data *)
Definition media_invalid_doc (sdp_ok : string -> bool) (inroom : bool) (j : json) : bool :=
  match j with
  | JObj ms =>
      String.eqb (str_or_empty "type" ms) "message" &&
      match single_obj "message" ms with
      | Some m =>
          match single_obj "recipient" m, nonnull_occurrences "data" m with
          | Some rc, [JObj dms] =>
              let rty := str_or_empty "type" rc in
              (String.eqb rty "session" || (in_list rty ["room"; "call"] && inroom)) &&
              Nat.leb (json_depth (JObj dms)) 1000 &&
              media_data_shaped dms && media_data_invalid sdp_ok dms
          | _, _ => false
          end
      | None => false
      end
  | _ => false
  end.

(* ---- observations of the implementation ---------------------------------------------------- *)
(* a message the sender received, projected *)
Inductive reply :=
| RError (code id : string)
| RHello (id : string)
| RBye (id : string)
| RRoom (id : string)
| RMessage | RControl | REvent | RTransient | RInternal | RDialout | RWelcome
| RBad.                              (* not a well-formed server message *)

(* a message the bystander received; for message/control: does it name the true sender? *)
Inductive bmsg :=
| BMessage (true_sender : bool) | BControl (true_sender : bool)
| BJoin | BLeave | BUpdate            (* room/join, room/leave, room/change or participants update / flags *)
| BTransient | BDialout
| BOther.                            (* anything else (bye, room, error, ...) *)

Record obs := {
  o_alive : bool;                    (* the server process survived the frame *)
  o_replies : list reply;            (* everything the sender received because of it *)
  o_closed : bool;                   (* the server closed the sender's connection *)
  o_by : list bmsg;                  (* everything the bystander session received *)
  o_by_ok : bool;                    (* the bystander is still connected, in its room, and gets an answer *)
  o_dsame : bool;                    (* the digest of all hub tables is the same before and after *)
  o_api : Z;                         (* the room API request waiting for a dialout response: 0 still waiting / none,
                                        HTTP status when it completed, -1 connection closed without reply *)
  o_off : Z;                         (* how many messages the frame added to the queue of the session without connection
                                        (that queue is not part of the digest compared in o_dsame) *)
  o_live : bool                      (* after the frame the server still serves: a request of the bystander that needs the
                                        session table was processed, a new connection got its welcome message, its first
                                        message was answered and it was let go again, and the hub's tables could be read -
                                        each within a bound (10 s; cut short when a new connection is not
                                        greeted for a second and the hub's lock cannot be taken at any of 100 attempts in the next
                                        half second).  Observed directly, like o_alive: false = the process
                                        is there but somebody holds a lock of the hub for ever.  When false the other
                                        observations after the bystander's messages could not be made any more. *)
}.
Definition mkobs (alive : bool) (replies : list reply) (closed : bool) (by_ : list bmsg) (by_ok dsame : bool) (api off : Z) (live : bool) : obs :=
  {| o_alive := alive; o_replies := replies; o_closed := closed; o_by := by_; o_by_ok := by_ok; o_dsame := dsame; o_api := api;
     o_off := off; o_live := live |}.

(* ---- session states of the harness ----------------------------------------------------------
   0 no hello yet; 1 authenticated client, not in a room; 2 client in the room of the
   bystander; 3 internal client in that room; 4 internal client (dialout feature, not
   in a room) with a pending dialout whose message id is written "@PID@"; 5 a client
   in the room whose session was resumed on a new connection; 6 a client whose session
   joined a federated room; 8 a client in the room whose permissions do not include "control"
   (the model does not know permissions: same state as 2).  The senders' own public session id
   is written "@SID@"; the clients among them are sessions of user "user1".  The hub has a media server in all of them, and in all of them
   the room of the bystander has a second member, of user "user9", whose connection was
   interrupted (the session "@OID@" is kept to be resumed; it is in the call, the bystander
   and the senders are not). *)
Definition pending_id : string := "@PID@".
Definition offline_id : string := "@OID@".
Definition offline_user : string := "user9".
Definition self_id : string := "@SID@".        (* the sender's own public session id, as the cases files write it *)
Definition self_user : string := "user1".      (* the user of the senders that are clients *)
Definition state_of (tag : N) : session_state :=
  let mk k fed pend inroom :=
    {| ss_kind := k; ss_federated := fed; ss_pending := pend; ss_mcu := true; ss_inroom := inroom;
       ss_self := match k with SNone => "" | _ => self_id end;
       ss_self_user := match k with SClient => self_user | _ => "" end;
       ss_offline := [offline_id]; ss_offline_users := [offline_user]; ss_offline_room := inroom; ss_offline_call := inroom |} in
  match tag with
  | 0%N => mk SNone false [] false
  | 1%N => mk SClient false [] false
  | 2%N | 5%N | 8%N => mk SClient false [] true
  | 3%N => mk SInternal false [] true
  | 4%N => mk SInternal false [pending_id] false
  | _ => mk SClient true [] false
  end.

(* ---- the property ----------------------------------------------------------------------------- *)
(* "a well-formed reply or error": a server message of a known type with the member its type
   names (anything else, e.g. {"id":..,"type":"error"} without the error member, is projected to
   RBad: the server's own ServerMessage.CheckValid refuses such a message); an error carries a
   code (documented format: "error": {"code": ..., "message": ...}) - an error with an empty code
   tells the client nothing about what failed *)
Definition reply_wf (r : reply) : bool :=
  match r with
  | RBad => false
  | RError code _ => negb (String.eqb code "")
  | _ => true
  end.
Definition is_error (r : reply) : bool := match r with RError _ _ => true | _ => false end.

(* input that must have no effect: it fails validation, or it is anything but a
   hello on a connection without session *)
Definition tag_inroom (tag : N) : bool := N.eqb tag 2 || N.eqb tag 3 || N.eqb tag 5 || N.eqb tag 8.
Definition tag_local_session (tag : N) : bool := negb (N.eqb tag 0) && (N.leb tag 5 || N.eqb tag 8).   (* a session, not federated *)
Definition must_be_inert (sdp_ok : string -> bool) (tag : N) (i : input) : bool :=
  match i with
  | IOversize => false
  | IBinary | IBad => true
  | IDoc j => spec_invalid_doc j || (N.eqb tag 0 && negb (String.eqb (eff_type j) "hello")) ||
              (tag_local_session tag && media_invalid_doc sdp_ok (tag_inroom tag) j)
  end.

(* ---- protocol 2.0 hellos: the lifetime of the token ---------------------------------------------
   ("Establish connection", protocol version 2.0: the token is a JWT with the claims iss, iat, exp, sub
   (and userdata); the property text of C01 - which this layer hands its hellos to -: the token must be
   currently time-valid.)  In the cases files a token is written as the descriptor the harness makes the
   real token from when the frame is sent (c10_tok_verif_test.go):

       @TOK:<backend>:<alg>:<signer>:<iat>:<nbf>:<exp>:<garble>@

   iat / nbf / exp in seconds relative to the moment of sending, "_" = the claim is absent.  A token is
   certainly NOT time-valid when it has no iat, no exp, an exp before its iat, or when exp / iat / nbf are
   on the wrong side of now by more than twice the server's leeway (one minute; the factor two keeps the
   clause independent of how long the frame is on its way).  Such a hello - whatever its auth type: client
   and federation hellos alike - must be refused: exactly one error with a code, no session (the hub's tables
   as before), nobody else told.  One direction only: nothing is said here about the other tokens. *)
Fixpoint split_on (sep : ascii) (s : string) : list string :=
  match s with
  | EmptyString => [EmptyString]
  | String c r =>
      let l := split_on sep r in
      if Ascii.eqb c sep then EmptyString :: l
      else match l with h :: t => String c h :: t | [] => [String c EmptyString] end
  end.
Fixpoint digits_val (s : string) (acc : Z) : option Z :=
  match s with
  | EmptyString => Some acc
  | String c r =>
      let n := nat_of_ascii c in
      if Nat.leb 48 n && Nat.leb n 57 then digits_val r (acc * 10 + Z.of_nat (n - 48))%Z else None
  end.
(* "_" absent, "-12" / "12" seconds relative to now; anything else: not a descriptor *)
Definition rel_time (s : string) : option (option Z) :=
  match s with
  | EmptyString => None
  | String c r =>
      if Ascii.eqb c "_" then match r with EmptyString => Some None | _ => None end
      else if Ascii.eqb c "-" then
        match r with EmptyString => None | _ => option_map (fun z => Some (- z)%Z) (digits_val r 0) end
      else option_map Some (digits_val s 0)
  end.
Fixpoint ends_with_at (s : string) : bool :=
  match s with
  | EmptyString => false
  | String c EmptyString => Ascii.eqb c "@"
  | String _ r => ends_with_at r
  end.
(* (iat, nbf, exp) of a token descriptor *)
Definition token_times (s : string) : option (option Z * option Z * option Z) :=
  match split_on ":" s with
  | [h; _; _; _; i; n; e; g] =>
      if String.eqb h "@TOK" && ends_with_at g then
        match rel_time i, rel_time n, rel_time e with
        | Some i, Some n, Some e => Some (i, n, e)
        | _, _, _ => None
        end
      else None
  | _ => None
  end.
Definition token_leeway : Z := 60.
Definition token_untimely (t : option Z * option Z * option Z) : bool :=
  let '(i, n, e) := t in
  match i with None => true | Some i => (2 * token_leeway <=? i)%Z end ||
  match e with
  | None => true
  | Some e => (e <=? - (2 * token_leeway))%Z || match i with Some i => (e <? i)%Z | None => false end
  end ||
  match n with Some n => (2 * token_leeway <=? n)%Z | None => false end.

(* the token of a protocol 2.0 hello that authenticates (no resume id) as client or for a federated room *)
Definition hello_v2_token (j : json) : option string :=
  match j with
  | JObj ms =>
      if String.eqb (str_or_empty "type" ms) "hello" then
        match single_obj "hello" ms with
        | Some h =>
            if String.eqb (str_or_empty "version" h) "2.0" && String.eqb (str_or_empty "resumeid" h) "" then
              match single_obj "auth" h with
              | Some a =>
                  if in_list (str_or_empty "type" a) [""; "client"; "federation"] then
                    match single_obj "params" a with
                    | Some p => eff_str "token" p
                    | None => None
                    end
                  else None
              | None => None
              end
            else None
        | None => None
        end
      else None
  | _ => None
  end.

Definition hello_token_untimely (j : json) : bool :=
  match hello_v2_token j with
  | Some t => match token_times t with Some ts => token_untimely ts | None => false end
  | None => false
  end.

(* on a connection without session: a 2.0 hello whose token is certainly not time-valid *)
Definition must_refuse_hello (tag : N) (i : input) : bool :=
  match i with
  | IDoc j => N.eqb tag 0 && hello_token_untimely j
  | _ => false
  end.
Definition refused (o : obs) : bool :=
  match o_replies o with [RError code _] => negb (String.eqb code "") | _ => false end &&
  match o_by o with [] => true | _ => false end && o_dsame o && negb (o_closed o) && Z.eqb (o_off o) 0.

(* only these messages can make the server send something to the members of a room or to
   another session - so only they can add to the queue of a session without connection *)
Definition off_allowed (tag : N) (i : input) : bool :=
  match i with
  | IDoc j => negb (N.eqb tag 0) && in_list (eff_type j) ["message"; "control"; "room"; "bye"; "internal"; "transient"]
  | _ => false
  end.

(* what a bystander may legitimately receive because of a message of that type *)
Definition by_allowed (tag : N) (i : input) (b : bmsg) : bool :=
  match i with
  | IDoc j =>
      let ty := eff_type j in
      negb (N.eqb tag 0) &&
      match b with
      | BMessage s => String.eqb ty "message" && s
      | BControl s => String.eqb ty "control" && s
      | BJoin | BLeave => in_list ty ["room"; "bye"; "internal"]
      | BUpdate => in_list ty ["room"; "bye"; "internal"]
      | BTransient => in_list ty ["transient"; "internal"]
      | BDialout => String.eqb ty "internal"
      | BOther => false
      end
  | _ => false
  end.

(* a frame the judge has no reading of (text that is not JSON for encoding/json but
   is accepted by the lenient lexer of the decoder): the bystander may get what any
   message could legitimately cause, from the true sender *)
Definition by_allowed_opaque (tag : N) (b : bmsg) : bool :=
  negb (N.eqb tag 0) &&
  match b with BMessage s | BControl s => s | BOther => false | _ => true end.

Definition P_opaque (tag : N) (o : obs) : bool :=
  o_alive o && o_live o && forallb reply_wf (o_replies o) && o_by_ok o &&
  forallb (by_allowed_opaque tag) (o_by o) && negb (Z.eqb (o_api o) (-1)) &&
  (Z.eqb (o_off o) 0 || negb (N.eqb tag 0)).

(* "the server process keeps running ... and other sessions keep working": whatever the frame was,
   the process is alive AND still serves (o_live) *)
Definition P_one (sdp_ok : string -> bool) (tag : N) (i : input) (o : obs) : bool :=
  o_alive o && o_live o && forallb reply_wf (o_replies o) && o_by_ok o &&
  forallb (by_allowed tag i) (o_by o) &&
  negb (Z.eqb (o_api o) (-1)) &&
  (Z.eqb (o_off o) 0 || off_allowed tag i) &&
  (negb (must_be_inert sdp_ok tag i) ||
   (match o_replies o with [r] => is_error r | _ => false end &&
    match o_by o with [] => true | _ => false end && o_dsame o && negb (o_closed o) && Z.eqb (o_api o) 0 &&
    Z.eqb (o_off o) 0)) &&
  (negb (must_refuse_hello tag i) || refused o).

Definition step := (N * option input * obs)%type.
Definition mkstep (tag : N) (i : input) (o : obs) : step := (tag, Some i, o).
Definition mkopaque (tag : N) (o : obs) : step := (tag, None, o).
Definition trace := list step.
Definition P_step (sdp_ok : string -> bool) (s : step) : bool :=
  let '(tag, i, o) := s in
  match i with Some i => P_one sdp_ok tag i o | None => P_opaque tag o end.
(* [sdp_ok]: which strings the SDP parser accepts (tabulated from the real library for the strings of the case) *)
Definition P_C10 (sdp_ok : string -> bool) (tr : trace) : bool := forallb (P_step sdp_ok) tr.

(* ---- comparison with the model ------------------------------------------------------------------ *)
(* A string as it leaves the server: the JSON writer replaces every byte that does
   not start a valid UTF-8 sequence by U+FFFD (EF BF BD) and goes on with the next
   byte (unicode/utf8.DecodeRuneInString). *)
Definition seq_len (s : string) : nat :=
  let b c := nat_of_ascii c in
  let cont lo hi c := btw lo hi (b c) in
  match s with
  | EmptyString => 0
  | String c0 r0 =>
      let n := b c0 in
      if Nat.ltb n 128 then 1
      else
        let two := match r0 with String c1 _ => cont 128 191 c1 | _ => false end in
        let three lo hi := match r0 with String c1 (String c2 _) => cont lo hi c1 && cont 128 191 c2 | _ => false end in
        let four lo hi := match r0 with String c1 (String c2 (String c3 _)) => cont lo hi c1 && cont 128 191 c2 && cont 128 191 c3 | _ => false end in
        if btw 194 223 n then (if two then 2 else 0)
        else if Nat.eqb n 224 then (if three 160 191 then 3 else 0)
        else if btw 225 236 n || btw 238 239 n then (if three 128 191 then 3 else 0)
        else if Nat.eqb n 237 then (if three 128 159 then 3 else 0)
        else if Nat.eqb n 240 then (if four 144 191 then 4 else 0)
        else if btw 241 243 n then (if four 128 191 then 4 else 0)
        else if Nat.eqb n 244 then (if four 128 143 then 4 else 0)
        else 0
  end%nat.
Fixpoint sanitize_go (s : string) (skip : nat) : string :=
  match s with
  | EmptyString => EmptyString
  | String c r =>
      match skip with
      | S k => String c (sanitize_go r k)
      | O =>
          match seq_len s with
          | O => String (ascii_of_nat 239) (String (ascii_of_nat 191) (String (ascii_of_nat 189) (sanitize_go r 0)))
          | S k => String c (sanitize_go r k)
          end
      end
  end.
Definition wire (s : string) : string := sanitize_go s 0.

Definition reply_eqb (a b : reply) : bool :=
  match a, b with
  | RError c i, RError c' i' => String.eqb c c' && String.eqb i i'
  | RHello i, RHello i' | RBye i, RBye i' | RRoom i, RRoom i' => String.eqb i i'
  | RMessage, RMessage | RControl, RControl | REvent, REvent | RTransient, RTransient
  | RInternal, RInternal | RDialout, RDialout | RWelcome, RWelcome | RBad, RBad => true
  | _, _ => false
  end.
Fixpoint replies_eqb (a b : list reply) : bool :=
  match a, b with
  | [], [] => true
  | x :: r, y :: r' => reply_eqb x y && replies_eqb r r'
  | _, _ => false
  end.

(* what the sender may receive once handler c has the message (the handlers
   themselves are model/Hub.v; here only the kind of answer is bounded) *)
Definition reply_allowed (id : string) (c : call) (r : reply) : bool :=
  match c, r with
  | CHello _ _ _, RHello i => String.eqb i id
  | CHello _ _ _, RError code i => String.eqb i id && negb (String.eqb code "")   (* a refused hello is told why *)
  | CRoom _ _ _, RRoom i => String.eqb i id
  | CRoom _ _ _, RError _ i => String.eqb i id
  | CRoom _ _ _, REvent => true
  | CRoom _ _ _, RTransient => true            (* the transient data of the room just joined *)
  | CMessage _ _ _ _ _, RError _ i => String.eqb i id
  | CMessage _ _ _ _ (Some _), RMessage => true
  | CInternal _ _, RError _ i => String.eqb i id
  | CInternal _ _, REvent => true
  | CInternal _ _, RTransient => true          (* dialout status for the room the internal client itself is in *)
  | CInternal _ _, RDialout => true
  | CTransient _ _ _ _, RError _ i => String.eqb i id
  | CTransient _ _ _ _, RTransient => true
  | CBye, RBye i => String.eqb i id
  | _, _ => false
  end.

Definition has_bye (cs : list call) : bool := existsb (fun c => match c with CBye => true | _ => false end) cs.
Definition expected_api (cs : list call) : Z :=
  match cs with
  | CResponse _ d :: _ => match api_outcome d with AStatus c => c | ANoReply => (-1)%Z end
  | _ => 0%Z
  end.

Definition oracle := (string * (bool * bool * bool))%type.
Definition orc_lookup (which : nat) (tbl : list oracle) (s : string) : bool :=
  match assoc s tbl with
  | Some (a, b, c) => match which with 0%nat => a | 1%nat => b | _ => c end
  | None => match which with 0%nat => true | _ => false end   (* url.Parse accepts nearly everything; a random string is neither a request URI nor an SDP *)
  end.

Definition model (fixed : fixes) (tbl : list oracle) (tag : N) (i : input) : verdict :=
  classify (orc_lookup 0 tbl) (orc_lookup 1 tbl) (orc_lookup 2 tbl) fixed (state_of tag) i.

Definition doc_id (i : input) : string :=
  match i with
  | IDoc j => match decode ty_client (zero ty_client) j with Ok m => msg_id m | Err _ => "" end
  | _ => ""
  end.

Definition silent (o : obs) : bool :=
  match o_by o with [] => true | _ => false end && o_dsame o && negb (o_closed o) && Z.eqb (o_api o) 0 &&
  Z.eqb (o_off o) 0.

(* what the frame adds to the queue of the session without connection: a forwarded message
   exactly one entry (a chat-refresh notice none when one is queued already: that flag is the
   hub model's, here both are accepted); a control message one, or none when the sender may not
   send control messages (the permission is the hub model's); a message that is not forwarded
   none; what the other handlers send to room members is not bounded here *)
Definition is_store (c : call) : bool := match c with CStore _ => true | _ => false end.
Definition off_expected (cs : list call) (n : Z) : bool :=
  match cs with
  | CMessage _ _ _ _ _ :: r =>
      match r with
      | [CStore false] => Z.eqb n 1
      | [CStore true] => Z.eqb n 0 || Z.eqb n 1
      | _ => Z.eqb n 0 ||
             (* "sendoffer": the offer the media server answers with is sent to the recipient *)
             match cs with
             | [CMessage _ _ _ _ (Some d)] => String.eqb (sfld "Type" d) "sendoffer" && Z.eqb n 1
             | _ => false
             end
      end
  | CControl _ _ _ _ :: r =>
      match r with
      | [CStore _] => Z.eqb n 0 || Z.eqb n 1
      | _ => Z.eqb n 0
      end
  | _ => negb (existsb is_store cs)
  end.

Definition agrees (v : verdict) (i : input) (o : obs) : bool :=
  (* no outcome of the model leaves the hub blocked: every handler returns with the locks it took released *)
  (match v with VPanic => true | _ => o_live o end) &&
  match v with
  | VTooLarge => o_alive o && o_closed o && match o_replies o with [] => true | _ => false end
  | VDecodeError => o_alive o && replies_eqb (o_replies o) [RError "invalid_format" ""] && silent o
  | VError c id => o_alive o && replies_eqb (o_replies o) [RError (code_text c) (wire id)] && silent o
  | VIgnored => o_alive o && match o_replies o with [] => true | _ => false end && silent o
  | VPanic => negb (o_alive o)
  | VDispatch cs =>
      o_alive o &&
      forallb (fun r => existsb (fun c => reply_allowed (wire (doc_id i)) c r) cs) (o_replies o) &&
      Bool.eqb (has_bye cs) (o_closed o) &&
      Z.eqb (expected_api cs) (o_api o) &&
      off_expected cs (o_off o)
  end.

Definition inert_verdict (v : verdict) : bool :=
  match v with VDecodeError | VError _ _ => true | _ => false end.

(* id, does the tree under test contain fixes/C10/01 and fixes/C10/02, mode (0: compare with the model
   and judge; 1: judge only - input the model is not given, e.g. text that is not
   JSON for encoding/json but may be for the lenient lexer), oracle table, steps *)
Definition case := (N * fixes * N * list oracle * trace)%type.
Definition mkcase (id : N) (fix_dialout fix_label : bool) (mode : N) (tbl : list oracle) (tr : trace) : case :=
  (id, {| fx_dialout := fix_dialout; fx_label := fix_label |}, mode, tbl, tr).

Fixpoint first_where (f : step -> bool) (i : N) (tr : trace) : option N :=
  match tr with
  | [] => None
  | s :: r => if f s then Some i else first_where f (N.succ i) r
  end.

(* verdict codes: 1 the model predicts something else than the implementation did;
   2 the implementation's trace violates P_C10; 3 spec_invalid (documentation) but
   the model does not reject (the two readings of "invalid" disagree) *)
Definition judge (c : case) : list (N * N * N) :=
  let '(id, fixed, mode, tbl, tr) := c in
  (if N.eqb mode 0 then
     match first_where (fun s => let '(tag, i, o) := s in
                          match i with Some i => negb (agrees (model fixed tbl tag i) i o) | None => false end) 0 tr with
     | Some k => [(id, 1%N, k)] | None => [] end
   else []) ++
  (match first_where (fun s => negb (P_step (orc_lookup 2 tbl) s)) 0 tr with
   | Some k => [(id, 2%N, k)] | None => [] end) ++
  (if N.eqb mode 0 then
     match first_where (fun s => let '(tag, i, o) := s in
                          match i with
                          | Some (IDoc j) => spec_invalid_doc j && negb (inert_verdict (model fixed tbl tag (IDoc j)))
                          | _ => false
                          end) 0 tr with
     | Some k => [(id, 3%N, k)] | None => [] end
   else []).

Definition judge_all (cs : list case) : list (N * N * N) := flat_map judge cs.

(* ---- compact constructors for big documents in cases files ------------------------------------ *)
Definition jrep (n : nat) (x : json) : list json := List.repeat x n.
Definition jnest (n : nat) (x : json) : json := Nat.iter n (fun j => JArr [j]) x.
(* strings with bytes that cannot be written in a cases file *)
Definition jpad (n : nat) : json := JStr (fold_right (fun _ acc => String "a"%char acc) EmptyString (List.repeat tt n)).
Definition sb (l : list nat) : string :=
  fold_right (fun n acc => String (Ascii.ascii_of_nat n) acc) EmptyString l.

(* ---- translator self-test: the schema read by reflection from the running package
        must be the generated one (code 4) ------------------------------------------------------------ *)
Definition field_eqb (a b : string * string * string * bool) : bool :=
  let '(a1, a2, a3, a4) := a in let '(b1, b2, b3, b4) := b in
  String.eqb a1 b1 && String.eqb a2 b2 && String.eqb a3 b3 && Bool.eqb a4 b4.
Fixpoint schema_eqb (a b : list (string * string * string * bool)) : bool :=
  match a, b with
  | [], [] => true
  | x :: r, y :: r' => field_eqb x y && schema_eqb r r'
  | _, _ => false
  end.
Definition not_embedded (f : string * string * string * bool) : bool :=
  let '(g, _, _, _) := f in negb (String.eqb g "<embedded>").
Definition schema_mismatches (l : list (N * list (string * string * string * bool) * list (string * string * string * bool)))
  : list (N * N * N) :=
  flat_map (fun e => let '(i, a, b) := e in if schema_eqb (filter not_embedded a) b then [] else [(i, 4%N, 0%N)]) l.
