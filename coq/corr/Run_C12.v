(* Trace predicate P_C12 (the property itself) and the judge used by generated
   cases files.  No proofs. *)
From Coq Require Import List ZArith NArith Bool.
From Verif Require Export model.Federation.
Import ListNotations.
Open Scope Z_scope.

(* What the harness records after every operation on the real server:
   - is the server process still running,
   - did the federation client answer (the read pump returned a pong for the
     ping sent after the message / its state could be read / it reconnected):
     false = it blocks,
   - did the bystander sessions on the same hub exchange their message and is
     the bystander's view of the hub unchanged,
   - what the federated client received, what the remote received, whether the
     local side closed the federation connection,
   - the state of the real FederationClient (read through its own locks). *)
Record obs := mkO {
  o_alive : bool;
  o_responsive : bool;
  o_bystander : bool;
  o_client : list cmsg;
  o_remote : list rmsg;
  o_connclosed : bool;
  o_state : fstate }.

Definition trace := list (op * obs).

(* C12: "the local server keeps running; at worst the one federated session gets
   an error or is disconnected from the remote room. Other sessions are
   unaffected."  Whatever was sent (every op of the alphabet), the process is
   alive, nothing blocks, the bystanders are served. What the federated session
   itself receives is unconstrained. *)
Definition P_C12 (tr : trace) : bool :=
  forallb (fun e => o_alive (snd e) && o_responsive (snd e) && o_bystander (snd e)) tr.

(* ---- decidable equalities of the observed types ---------------------------- *)
Definition mtag_n (t : mtag) : N :=
  match t with TWelcome => 0 | THello => 1 | TError => 2 | TBye => 3 | TRoom => 4 | TMessage => 5
             | TControl => 6 | TEvent => 7 | TTransient => 8 | TInternal => 9 | TDialout => 10 | TOther => 11 end%N.
Definition errcode_n (c : errcode) : N := match c with ENoSuchSession => 0 | EAlreadyJoined => 1 | EOtherCode => 2 end%N.
Definition ecode_n (c : ecode) : N :=
  match c with CFedUnsupported => 0 | CNotConnected => 1 | CNoError => 2 | CRemote c => 3 + errcode_n c end%N.
Fixpoint listN_eqb (a b : list N) : bool :=
  match a, b with
  | [], [] => true
  | x :: a', y :: b' => N.eqb x y && listN_eqb a' b'
  | _, _ => false
  end.
Definition cmsg_eqb (a b : cmsg) : bool :=
  match a, b with
  | CErr x, CErr y => N.eqb (ecode_n x) (ecode_n y)
  | CInterrupted, CInterrupted => true
  | CResumed x, CResumed y => Bool.eqb x y
  | CJoin x, CJoin y => listN_eqb x y
  | CFwd x, CFwd y => N.eqb (mtag_n x) (mtag_n y)
  | _, _ => false
  end.
Definition rmsg_eqb (a b : rmsg) : bool :=
  match a, b with
  | RHello x, RHello y => Bool.eqb x y
  | RRoom, RRoom | RLeave, RLeave | RBye, RBye | RProxied, RProxied => true
  | _, _ => false
  end.
Fixpoint list_eqb {A} (f : A -> A -> bool) (a b : list A) : bool :=
  match a, b with
  | [], [] => true
  | x :: a', y :: b' => f x y && list_eqb f a' b'
  | _, _ => false
  end.
Definition subsetN (a b : list N) : bool := forallb (fun x => memN x b) a.
Definition state_eqb (a b : fstate) : bool :=
  Bool.eqb (connected a) (connected b) && Bool.eqb (closed a) (closed b) &&
  Bool.eqb (hello_done a) (hello_done b) && Bool.eqb (hello_pending a) (hello_pending b) &&
  Bool.eqb (resume a) (resume b) && Bool.eqb (reconnecting a) (reconnecting b) &&
  N.eqb (pending a) (pending b) && Z.eqb (delay a) (delay b) &&
  Bool.eqb (has_msg a) (has_msg b) && Bool.eqb (change_room a) (change_room b) &&
  Bool.eqb (remote_sid a) (remote_sid b) && Bool.eqb (close_on_leave a) (close_on_leave b) &&
  subsetN (seen a) (seen b) && subsetN (seen b) (seen a).

Definition to_session (l : list action) : list cmsg :=
  flat_map (fun a => match a with ToSession m => [m] | _ => [] end) l.
Definition to_remote (l : list action) : list rmsg :=
  flat_map (fun a => match a with ToRemote m => [m] | _ => [] end) l.
Definition closes (l : list action) : bool :=
  existsb (fun a => match a with CloseConn => true | _ => false end) l.

(* the remote can see that the local side closed the connection only while its
   own end is open *)
Definition remote_sees_close (o : op) : bool :=
  match o with ODrop | OAccept | ORefuse => false | _ => true end.

(* does the repaired model, from state s, explain the observation of op o? *)
Definition explains (s : fstate) (o : op) (ob : obs) : option fstate :=
  match step repaired s o with
  | (s', acts, Ok) =>
      if o_alive ob && o_responsive ob &&
         list_eqb cmsg_eqb (to_session acts) (o_client ob) &&
         list_eqb rmsg_eqb (to_remote acts) (o_remote ob) &&
         (negb (remote_sees_close o) || Bool.eqb (closes acts) (o_connclosed ob)) &&
         state_eqb s' (o_state ob)
      then Some s' else None
  | _ => None
  end.

Fixpoint first_diff (i : N) (s : fstate) (tr : trace) : option N :=
  match tr with
  | [] => None
  | (o, ob) :: r =>
      match explains s o ob with
      | Some s' => first_diff (N.succ i) s' r
      | None => Some i
      end
  end.

(* coarse mode: the writes of the local side race with the reset of the
   connection.  A reset is explained either by ORecvFail (the writes fail, then
   the reader fails) or by ORecv followed by ODrop (the writes got through);
   the set of model states that explain the observed client states so far is
   carried along, and must never become empty. *)
Definition alts (o : op) : list (list op) :=
  match o with ORecvFail m => [[ORecvFail m]; [ORecv m; ODrop]] | _ => [[o]] end.
Definition run_state (s : fstate) (ops : list op) : list fstate :=
  match run repaired s ops with (s', _, Ok) => [s'] | _ => [] end.
Fixpoint coarse (i : N) (cands : list fstate) (tr : trace) : option N :=
  match tr with
  | [] => None
  | (o, ob) :: r =>
      let next := flat_map (fun s => flat_map (run_state s) (alts o)) cands in
      let keep := if o_alive ob && o_responsive ob
                  then filter (fun s' => state_eqb s' (o_state ob)) next else next in
      match keep with
      | [] => Some i
      | _ => coarse (N.succ i) keep r
      end
  end.

Fixpoint first_bad (i : N) (tr : trace) : N :=
  match tr with
  | [] => i
  | (_, ob) :: r => if o_alive ob && o_responsive ob && o_bystander ob then first_bad (N.succ i) r else i
  end.

(* id, mode (0: compare every step with the model; 1: coarse; 2: property only), changeRoomId of
   the client, trace.  Verdict codes: 1 = model and implementation differ at
   that step, 2 = the implementation's trace violates P_C12. *)
Definition case := (N * N * bool * trace)%type.
Definition mkcase (id mode : N) (chg : bool) (tr : trace) : case := (id, mode, chg, tr).

Definition judge (c : case) : list (N * N * N) :=
  let '(id, mode, chg, tr) := c in
  (match mode with
   | 0%N => match first_diff 0 (init chg) tr with Some i => [(id, 1%N, i)] | None => [] end
   | 1%N => match coarse 0 [init chg] tr with Some i => [(id, 1%N, i)] | None => [] end
   | _ => []                        (* stress: property only *)
   end) ++
  (if P_C12 tr then [] else [(id, 2%N, first_bad 0 tr)]).

Definition judge_all (cs : list case) : list (N * N * N) := flat_map judge cs.
