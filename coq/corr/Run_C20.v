(* Trace predicate P_C20 (the property itself, written from the property text,
   as a checker over logged histories whose order is the order of one atomic
   log) and the judge used by generated cases files.  No proofs. *)
From Coq Require Import List Arith NArith Bool String Ascii.
From Verif Require Export model.Bus.
Import ListNotations.

(* ---- what the harness logs ---------------------------------------------------
   ti : index into the case's table of targets (a target = what the property
        calls a subject: kind + id + backend, by *intended* identity)
   l  : listener object,  m : message id,  pl : payload written / read
   Sequential scripts log whole calls (E...), concurrent runs log call start
   and call end (H...).  Callbacks are logged at entry. *)
Inductive ev :=
| EPub (ti : nat) (m pl : N) (ok : bool)
| EReg (ti : nat) (l : N) (ok : bool)
| EUnreg (ti : nat) (l : N)
| ERelease (l : N)                                   (* harness: blocked callbacks of l may return *)
| EDigest (open_subs : list (nat * nat * nat))       (* (ti, #listeners, len(receiver)) per entry of the four maps *)
          (loopback : list (nat * nat))              (* (ti, #subscriptions) per subject of the loopback client *)
| ERecv (l : N) (k : N) (m pl : N) (gated : bool)    (* callback of kind k entered; gated: it will block *)
| HPubStart (m : N) (ti : nat) (pl : N) | HPubEnd (m : N) (ok : bool)
| HRegStart (l : N) (ti : nat) | HRegEnd (l : N) (ti : nat) (ok : bool)
| HUnregStart (l : N) (ti : nat) | HUnregEnd (l : N) (ti : nat).

Definition kind_code (k : kind) : N :=
  match k with KBackendRoom => 0 | KRoom => 1 | KUser => 2 | KSession => 3 end%N.

(* ======================================================================== *)
(* P_C20                                                                      *)
(* ======================================================================== *)
(* a history: H-events and ERecv only; time = position *)
Definition hist := list (nat * ev).

Definition index (evs : list ev) : hist := combine (seq 0 (List.length evs)) evs.

(* a sequential script as a history: every call is atomic in time *)
Fixpoint seq_history (evs : list ev) : list ev :=
  match evs with
  | [] => []
  | EPub ti m pl ok :: r => HPubStart m ti pl :: HPubEnd m ok :: seq_history r
  | EReg ti l ok :: r => HRegStart l ti :: HRegEnd l ti ok :: seq_history r
  | EUnreg ti l :: r => HUnregStart l ti :: HUnregEnd l ti :: seq_history r
  | ERecv l k m pl g :: r => ERecv l k m pl g :: seq_history r
  | ERelease l :: r => ERelease l :: seq_history r     (* looked at by clause (e) only *)
  | _ :: r => seq_history r
  end.

(* publication of m: (subject, payload, start) *)
Fixpoint pub_start (h : hist) (m : N) : option (nat * N * nat) :=
  match h with
  | [] => None
  | (t, HPubStart m' ti pl) :: r => if N.eqb m m' then Some (ti, pl, t) else pub_start r m
  | _ :: r => pub_start r m
  end.
(* end of the publication of m: (time, ok) *)
Fixpoint pub_end (h : hist) (m : N) : option (nat * bool) :=
  match h with
  | [] => None
  | (t, HPubEnd m' ok) :: r => if N.eqb m m' then Some (t, ok) else pub_end r m
  | _ :: r => pub_end r m
  end.
Definition published (h : hist) : list N :=
  flat_map (fun e => match snd e with HPubStart m _ _ => [m] | _ => [] end) h.

(* registration intervals of (l, ti):
   (RegStart, RegEnd if the registration succeeded, UnregStart, UnregEnd) *)
Definition interval := (nat * option nat * option nat * option nat)%type.

Fixpoint intervals_from (h : hist) (l : N) (ti : nat) (cur : option interval) : list interval :=
  match h with
  | [] => match cur with Some c => [c] | None => [] end
  | (t, e) :: r =>
      match e, cur with
      | HRegStart l' ti', None =>
          if N.eqb l l' && Nat.eqb ti ti' then intervals_from r l ti (Some (t, None, None, None))
          else intervals_from r l ti cur
      | HRegEnd l' ti' ok, Some (rs, None, None, None) =>
          if N.eqb l l' && Nat.eqb ti ti'
          then (if ok then intervals_from r l ti (Some (rs, Some t, None, None))
                else intervals_from r l ti None)          (* failed registration: no interval *)
          else intervals_from r l ti cur
      | HUnregStart l' ti', Some (rs, Some re, None, None) =>
          if N.eqb l l' && Nat.eqb ti ti' then intervals_from r l ti (Some (rs, Some re, Some t, None))
          else intervals_from r l ti cur
      | HUnregEnd l' ti', Some (rs, Some re, Some us, None) =>
          if N.eqb l l' && Nat.eqb ti ti' then (rs, Some re, Some us, Some t) :: intervals_from r l ti None
          else intervals_from r l ti cur
      | _, _ => intervals_from r l ti cur
      end
  end.
Definition intervals (h : hist) (l : N) (ti : nat) : list interval := intervals_from h l ti None.

(* the calls on one (l, ti) do not overlap: RegStart RegEnd UnregStart UnregEnd in
   turn, where a call that changes nothing is a call like any other:
     - Unregister for a listener that is not registered on that subject (never
       was, was unregistered already, its registration failed): phase 0 -> 4 -> 0
     - Register for a listener that is registered already: phase 2 -> 5 -> 2
   Neither opens nor closes a registration interval ([intervals_from] skips
   them), so clauses (a)-(d) speak about the other calls exactly as before; in
   particular every listener that stays registered on the subject must still
   receive everything (a). *)
Fixpoint alternates (h : hist) (l : N) (ti : nat) (phase : nat) : bool :=
  match h with
  | [] => true
  | (_, e) :: r =>
      match e with
      | HRegStart l' ti' =>
          if N.eqb l l' && Nat.eqb ti ti'
          then match phase with
               | 0 => alternates r l ti 1
               | 2 => alternates r l ti 5
               | _ => false
               end
          else alternates r l ti phase
      | HRegEnd l' ti' ok =>
          if N.eqb l l' && Nat.eqb ti ti'
          then match phase with
               | 1 => alternates r l ti (if ok then 2 else 0)
               | 5 => alternates r l ti 2            (* stays registered whatever the call returned *)
               | _ => false
               end
          else alternates r l ti phase
      | HUnregStart l' ti' =>
          if N.eqb l l' && Nat.eqb ti ti'
          then match phase with
               | 2 => alternates r l ti 3
               | 0 => alternates r l ti 4
               | _ => false
               end
          else alternates r l ti phase
      | HUnregEnd l' ti' =>
          if N.eqb l l' && Nat.eqb ti ti'
          then match phase with
               | 3 | 4 => alternates r l ti 0
               | _ => false
               end
          else alternates r l ti phase
      | _ => alternates r l ti phase
      end
  end.

Definition recvs_of (h : hist) (l : N) : list (nat * N) :=
  flat_map (fun e => match snd e with
                     | ERecv l' _ m _ _ => if N.eqb l l' then [(fst e, m)] else []
                     | _ => [] end) h.
Definition count_recv (h : hist) (l m : N) : nat :=
  List.length (filter (fun p => N.eqb (snd p) m) (recvs_of h l)).

Fixpoint dedup_N (l : list N) : list N :=
  match l with [] => [] | a :: r => a :: filter (fun b => negb (N.eqb a b)) (dedup_N r) end.
Fixpoint dedup_nat (l : list nat) : list nat :=
  match l with [] => [] | a :: r => a :: filter (fun b => negb (Nat.eqb a b)) (dedup_nat r) end.

Definition listeners_of (h : hist) : list N :=
  dedup_N (flat_map (fun e => match snd e with
                              | HRegStart l _ | HUnregStart l _ | ERecv l _ _ _ _ => [l]
                              | _ => [] end) h).
Definition subjects_of (h : hist) : list nat :=
  dedup_nat (flat_map (fun e => match snd e with
                                | HRegStart _ ti | HPubStart _ ti _ => [ti]
                                | _ => [] end) h).

Definition ltb_opt (a : nat) (b : option nat) : bool :=   (* a < b, None = never *)
  match b with Some b' => a <? b' | None => true end.

(* (a) every message published to the subject after registration completed and
       before unregistration began is received exactly once; no message is
       received twice *)
Definition P_a (h : hist) : bool :=
  forallb (fun l =>
    forallb (fun m => count_recv h l m <=? 1) (published h) &&
    forallb (fun ti =>
      forallb (fun iv =>
        match iv with
        | (_, Some re, us, _) =>
            forallb (fun m =>
              match pub_start h m, pub_end h m with
              | Some (ti', _, ps), Some (pe, true) =>
                  if Nat.eqb ti ti' && (re <? ps) && ltb_opt pe us
                  then Nat.eqb (count_recv h l m) 1 else true
              | _, _ => true
              end) (published h)
        | _ => true
        end) (intervals h l ti)) (subjects_of h)) (listeners_of h).

(* (b) per listener and subject: receive order never contradicts publication
       order (m2 received after m1 although m2's publication had returned before
       m1's began) *)
Fixpoint order_ok (h : hist) (rs : list (nat * N)) : bool :=
  match rs with
  | [] => true
  | (_, m1) :: r =>
      forallb (fun p =>
        let m2 := snd p in
        match pub_start h m1, pub_start h m2, pub_end h m2 with
        | Some (s1, _, ps1), Some (s2, _, _), Some (pe2, _) =>
            negb (Nat.eqb s1 s2) || negb (pe2 <? ps1)
        | _, _, _ => true
        end) r && order_ok h r
  end.
Definition P_b (h : hist) : bool := forallb (fun l => order_ok h (recvs_of h l)) (listeners_of h).

(* (c) nothing published to other subjects (or through the wrong kind of
       callback), nothing published after unregistration returned *)
Definition P_c (kinds : nat -> N) (h : hist) : bool :=
  forallb (fun e =>
    match snd e with
    | ERecv l k m _ _ =>
        match pub_start h m with
        | Some (ti, _, ps) =>
            N.eqb k (kinds ti) &&
            existsb (fun iv => match iv with
                               | (rs, _, _, ue) => (rs <? fst e) && ltb_opt ps ue
                               end) (intervals h l ti)
        | None => false
        end
    | _ => true
    end) h.

(* (d) unmodified *)
Definition P_d (h : hist) : bool :=
  forallb (fun e =>
    match snd e with
    | ERecv _ _ m pl _ => match pub_start h m with Some (_, pl', _) => N.eqb pl pl' | None => false end
    | _ => true
    end) h.

(* (e) "to exactly the registered listeners" / "receives nothing ... after
       unregistration returned", on the callbacks themselves: a listener whose
       unregistration has returned (and which has not begun to register on the
       subject again) is not called any more -- except for the one callback the
       dispatch had already decided when the unregistration came (listener
       chosen, mutex released: C20_nothing_after_unregister).  What a history
       shows of "already decided": callbacks of one message are made one after
       the other by one goroutine, which decides on the next listener after the
       previous callback returned.  A callback that the harness holds (gated;
       it returns after the next ERelease of its listener) and that was running
       when the unregistration returned therefore rules the exception out: the
       decision came after its return, hence after the unregistration.
       Histories without held callbacks (the concurrent runs) satisfy (e)
       trivially; (c) bounds them by the publication time. *)
Fixpoint release_after (h : hist) (l : N) (t : nat) : option nat :=
  match h with
  | [] => None
  | (t', ERelease l') :: r => if N.eqb l l' && (t <? t') then Some t' else release_after r l t
  | _ :: r => release_after r l t
  end.

(* the dispatch of m was inside a callback it could not leave at time u *)
Definition dispatch_held (h : hist) (m : N) (u : nat) : bool :=
  existsb (fun e => match snd e with
                    | ERecv l' _ m' _ true =>
                        N.eqb m m' && (fst e <? u) &&
                        match release_after h l' (fst e) with Some tr => u <? tr | None => true end
                    | _ => false
                    end) h.

Fixpoint last_opt {A} (l : list A) : option A :=
  match l with [] => None | [a] => Some a | _ :: r => last_opt r end.

Definition P_e (h : hist) : bool :=
  forallb (fun e =>
    match snd e with
    | ERecv l _ m _ _ =>
        match pub_start h m with
        | Some (ti, _, _) =>
            (* the last registration of l on the subject that began before the callback *)
            match last_opt (filter (fun iv => match iv with (rs, _, _, _) => rs <? fst e end) (intervals h l ti)) with
            | Some (_, _, _, Some ue) =>
                (* still unregistering at the time of the callback, or: the unregistration did
                   not return while the dispatch of m was held in a callback *)
                (fst e <? ue) || negb (dispatch_held h m ue)
            | _ => true         (* registered or registering; never registered: (c) *)
            end
        | None => true          (* (c) *)
        end
    | _ => true
    end) h.

(* "no message is received twice" alone (the first half of (a)) *)
Definition P_once (h : hist) : bool :=
  forallb (fun l => forallb (fun m => count_recv h l m <=? 1) (published h)) (listeners_of h).

(* the history is one the checker is meant for *)
Definition hist_wf (h : hist) : bool :=
  forallb (fun l => forallb (fun ti => alternates h l ti 0) (subjects_of h)) (listeners_of h).

Definition P_C20 (kinds : nat -> N) (h : hist) : bool := P_a h && P_b h && P_c kinds h && P_d h && P_e h.

(* which clause fails first: 0 = none *)
Definition P_C20_clause (kinds : nat -> N) (h : hist) : N :=
  if negb (P_a h) then 1 else if negb (P_b h) then 2 else if negb (P_c kinds h) then 3
  else if negb (P_d h) then 4 else if negb (P_e h) then 5 else 0.

(* P_C20 without "receives every message" (the second half of (a)): what holds of
   EVERY history, also of those that unregister a listener while messages for it
   are on their way (known finding C20/unregister/pending-lost: those are lost) *)
Definition P_C20_safety (kinds : nat -> N) (h : hist) : bool :=
  P_once h && P_b h && P_c kinds h && P_d h && P_e h.
Definition P_C20_safety_clause (kinds : nat -> N) (h : hist) : N :=
  if negb (P_once h) then 1 else if negb (P_b h) then 2 else if negb (P_c kinds h) then 3
  else if negb (P_d h) then 4 else if negb (P_e h) then 5 else 0.

(* ======================================================================== *)
(* replaying a sequential script on the model                                 *)
(* ======================================================================== *)
(* The model is non-deterministic where the code is (order in which the
   listeners of one subscriber are called); the implementation's choices are
   read off the logged callbacks, everything else runs eagerly, exactly as the
   quiescent implementation does. *)

Definition tgt_table := list (target * string).
Definition tgt (tb : tgt_table) (ti : nat) : target :=
  match nth_error tb ti with Some (t, _) => t | None => T KSession "" None end.

Record rstate := mkR {
  r_st : st;
  r_blocked : list (nat * N);        (* subscriber goroutine blocked in a callback of that listener *)
  r_pl : list (N * N)                (* payload of each published message *)
}.

Definition is_blocked (b : list (nat * N)) (j : nat) : bool := existsb (fun p => Nat.eqb (fst p) j) b.

Fixpoint first_some {A} (f : nat -> option A) (js : list nat) : option A :=
  match js with [] => None | j :: r => match f j with Some a => Some a | None => first_some f r end end.

(* What the replay may look at: the callbacks the log still holds, as (listener,
   message).  The one place where the model's choice cannot be read off the past
   of the log is a snapshot entry that is not a member of the listeners any more
   (unregistered since the snapshot was taken): the real loop visits the snapshot
   in an order of its own; it has dropped such an entry silently if it came to
   it already, and has not if the entry is still ahead -- in which case a
   registration of the same listener that comes in time makes it a member again,
   and it is called ([Pick j l] with l a member: allowed by Bus.v at any time
   while l is in the snapshot).  Nothing observable distinguishes the two until
   that callback is logged.  The replay resolves the choice by that callback:
     - the log still holds a callback (l, m): the entry stays (the skip, if any,
       is a later [Pick] of the same run);
     - it does not: the entry is dropped now ([Pick j l] with l not a member).
   Either way the replay only ever applies [step] with an op that is [enabled]:
   every accepted log is a run of the model (replay_ops below returns the op
   list; props/C20.v: C20_replay_is_run).  Completeness: an entry that is never
   called for m again is dropped by every run of the model that ends the
   dispatch of m, and dropping it earlier changes nothing any other op looks at;
   an entry that is called again must have stayed. *)
Definition fut := list (N * N).

Fixpoint future_recvs (evs : list ev) : fut :=
  match evs with
  | [] => []
  | ERecv l _ m _ _ :: r => (l, m) :: future_recvs r
  | _ :: r => future_recvs r
  end.

Definition in_fut (f : fut) (l m : N) : bool :=
  existsb (fun p => N.eqb (fst p) l && N.eqb (snd p) m) f.

(* one eager internal step, if any *)
Definition eager (f : fut) (t : st) (b : list (nat * N)) : option op :=
  if enabled t Dispatch then Some Dispatch else
  match disp t with
  | Some (_, _, j :: _) => Some (Send j)
  | _ =>
      first_some (fun j =>
        if is_blocked b j then None else
        if enabled t (Exit j) then Some (Exit j) else
        if enabled t (Begin j) then Some (Begin j) else
        if enabled t (End_ j) then Some (End_ j) else
        match nth_error (subs t) j with
        | Some x =>
            match infl x, cur x with
            | Some (m, vis), None =>
                (* snapshot entries that were unregistered meanwhile are skipped silently,
                   unless the log shows that they were still ahead when they came back *)
                match filter (fun l => negb (memb l (ls x)) && negb (in_fut f l m)) vis with
                | l :: _ => Some (Pick j l)
                | [] => None
                end
            | _, _ => None
            end
        | None => None
        end) (seq 0 (List.length (subs t)))
  end.

(* the eager steps, and the state they lead to *)
Fixpoint settle_ops (fuel : nat) (f : fut) (t : st) (b : list (nat * N)) : list op * st :=
  match fuel with
  | O => ([], t)
  | S n => match eager f t b with
           | Some o => let '(os, t') := settle_ops n f (step t o) b in (o :: os, t')
           | None => ([], t)
           end
  end.

Definition settle (fuel : nat) (f : fut) (t : st) (b : list (nat * N)) : st := snd (settle_ops fuel f t b).

Definition settle_fuel (t : st) : nat :=
  20 + 4 * List.length (q t) * (1 + List.length (subs t)) +
  fold_right (fun x acc => acc + 4 + 3 * List.length (chan x) +
                           match infl x with Some (_, vis) => 2 * List.length vis | None => 0 end)
             0 (subs t) * 2 + 4 * List.length (subs t).

(* a generous bound; the judge also checks that nothing is left to do *)
Definition settled_ops (f : fut) (t : st) (b : list (nat * N)) : list op * st :=
  settle_ops (200 + 8 * settle_fuel t) f t b.
Definition settled (f : fut) (t : st) (b : list (nat * N)) : st := snd (settled_ops f t b).

(* quiescence of the implementation = nothing left to do in the model *)
Definition quiescent (f : fut) (t : st) (b : list (nat * N)) : bool :=
  match eager f t b with Some _ => false | None => true end &&
  forallb (fun j => is_blocked b j ||
                    match nth_error (subs t) j with
                    | Some x => match infl x with None => true | Some _ => false end
                    | None => true
                    end) (seq 0 (List.length (subs t))).

Definition res_ok (r : res) : bool := match r with ROk => true | _ => false end.

(* digest of the model state in the shape the harness reads it off the implementation *)
Definition digest_ok (tb : tgt_table) (t : st) (d : list (nat * nat * nat)) (lb : list (nat * nat)) : bool :=
  let opens := filter opened (subs t) in
  Nat.eqb (List.length opens) (List.length d) &&
  forallb (fun e => match e with
    | (ti, nl, cl) =>
        let tg := tgt tb ti in
        let key := subject_of tg in      (* computed once per entry *)
        existsb (fun x => kind_eqb (skind x) (tkind tg) && String.eqb (skey x) key &&
                          Nat.eqb (List.length (ls x)) nl && Nat.eqb (List.length (chan x)) cl) opens
    end) d &&
  let lives := filter live (subs t) in
  Nat.eqb (List.length lives) (fold_right (fun e acc => snd e + acc) 0 lb) &&
  forallb (fun e => let key := subject_of (tgt tb (fst e)) in
                    Nat.eqb (List.length (filter (fun x => String.eqb (skey x) key) lives)) (snd e)) lb.

Definition find_pick (t : st) (b : list (nat * N)) (k l m : N) : option nat :=
  first_some (fun j =>
    if is_blocked b j then None else
    match nth_error (subs t) j with
    | Some x =>
        match infl x, cur x with
        | Some (m', vis), None =>
            if N.eqb (kind_code (skind x)) k && N.eqb m m' && memb l vis && memb l (ls x) then Some j else None
        | _, _ => None
        end
    | None => None
    end) (seq 0 (List.length (subs t))).

(* one logged event, the events after it (only their callbacks are looked at);
   None = the model cannot follow the implementation.  Besides the new state: the
   ops of the model that were applied, in order. *)
Definition replay_ev_ops (tb : tgt_table) (r : rstate) (e : ev) (rest : list ev) : option (list op * rstate) :=
  let b := r_blocked r in
  (* the callbacks still to come, this event included *)
  let f := future_recvs (e :: rest) in
  let '(os, t) := settled_ops f (r_st r) b in
  match e with
  | ERecv l k m pl gated =>
      match find_pick t b k l m with
      | Some j =>
          let t' := step (step t (Pick j l)) (Call j) in
          if existsb (fun p => N.eqb (fst p) m && N.eqb (snd p) pl) (r_pl r)
          then Some (os ++ [Pick j l; Call j], mkR t' (if gated then (j, l) :: b else b) (r_pl r))
          else None
      | None => None
      end
  | _ =>
      if negb (quiescent f t b) then None else
      match e with
      | EPub ti m pl ok =>
          let o := Publish (tgt tb ti) m in
          if Bool.eqb (res_ok (result t o)) ok then Some (os ++ [o], mkR (step t o) b ((m, pl) :: r_pl r)) else None
      | EReg ti l ok =>
          let o := Register (tgt tb ti) l in
          if Bool.eqb (res_ok (result t o)) ok then Some (os ++ [o; RegFinish], mkR (step (step t o) RegFinish) b (r_pl r)) else None
      | EUnreg ti l => let o := Unregister (tgt tb ti) l in Some (os ++ [o], mkR (step t o) b (r_pl r))
      | ERelease l => Some (os, mkR t (filter (fun p => negb (N.eqb (snd p) l)) b) (r_pl r))
      | EDigest d lb => if digest_ok tb t d lb then Some (os, mkR t b (r_pl r)) else None
      | _ => None
      end
  end.

Definition replay_ev (tb : tgt_table) (r : rstate) (e : ev) (rest : list ev) : option rstate :=
  option_map snd (replay_ev_ops tb r e rest).

Fixpoint replay (tb : tgt_table) (i : N) (r : rstate) (evs : list ev) : option N :=
  match evs with
  | [] => let t := settled [] (r_st r) (r_blocked r) in
          if quiescent [] t (r_blocked r) then None else Some i
  | e :: rest =>
      match replay_ev tb r e rest with
      | Some r' => replay tb (N.succ i) r' rest
      | None => Some i
      end
  end.

(* the same, returning the run of the model that follows the log (None = it cannot) *)
Fixpoint replay_ops (tb : tgt_table) (r : rstate) (evs : list ev) : option (list op * st) :=
  match evs with
  | [] => let '(os, t) := settled_ops [] (r_st r) (r_blocked r) in
          if quiescent [] t (r_blocked r) then Some (os, t) else None
  | e :: rest =>
      match replay_ev_ops tb r e rest with
      | Some (os, r') =>
          match replay_ops tb r' rest with
          | Some (os', t) => Some (os ++ os', t)
          | None => None
          end
      | None => None
      end
  end.

(* the callbacks of a log, as the model records them; the subscriber is what the
   log does not show *)
Definition logged_callbacks (evs : list ev) : list (lid * msg) := future_recvs evs.
Definition model_callbacks (t : st) : list (lid * msg) := map (fun c => (snd (fst c), snd c)) (dlog t).

(* ======================================================================== *)
(* cases                                                                      *)
(* ======================================================================== *)
(* mode 0: sequential script, compared with the model
   mode 1: sequential script, compared with the model and judged by P_C20
   mode 2: concurrent history, judged by P_C20
   mode 3: mode 1 on a table of targets built for collisions of the subject
           function (the collision pool: ids together with the texts an
           encoding step could turn them into, as ids of their own).  P_C20's
           clause (c) attributes a callback to the table index its message
           was published for; the verdict "foreign" is only as good as the
           table: the judge checks that every target lies inside the side
           condition of C20_subject_inj and that no two entries denote the
           same subject of the property (pool_ok, code 5 otherwise).
           props/C20.v: pool_wf is wf_target, and in a table that passes the
           model's subjects are pairwise different (C20_pool_subjects_distinct).
   mode 4: mode 0 + the clauses of P_C20 that hold of every history (P_C20_safety:
           at most once, order, foreign / after unregistration (c) and (e),
           unmodified) -- scripts with held callbacks in which anything goes,
           unregistrations with messages on their way included *)
Definition pool_wf (t : target) : bool :=
  match tkind t with
  | KSession => true
  | _ => match tbackend t with
         | None => negb (contains_char "|"%char (tid t))
         | Some b => negb (contains_char "|"%char b)
         end
  end.
Definition opt_string_eqb (a b : option string) : bool :=
  match a, b with
  | None, None => true
  | Some x, Some y => String.eqb x y
  | _, _ => false
  end.
(* the same subject of the property: kind, id and (except for sessions) backend *)
Definition same_target_b (t1 t2 : target) : bool :=
  kind_eqb (tkind t1) (tkind t2) && String.eqb (tid t1) (tid t2) &&
  (kind_eqb (tkind t1) KSession || opt_string_eqb (tbackend t1) (tbackend t2)).
Fixpoint pool_distinct (ts : list target) : bool :=
  match ts with
  | [] => true
  | t :: r => forallb (fun u => negb (same_target_b t u)) r && pool_distinct r
  end.
Definition pool_ok (tb : tgt_table) : bool :=
  forallb pool_wf (map fst tb) && pool_distinct (map fst tb).

Definition case := (N * N * tgt_table * list ev)%type.
Definition mkcase (id mode : N) (tb : tgt_table) (evs : list ev) : case := (id, mode, tb, evs).

Fixpoint key_mismatch (i : N) (tb : tgt_table) : option N :=
  match tb with
  | [] => None
  | (t, s) :: r => if String.eqb (subject_of t) s then key_mismatch (N.succ i) r else Some i
  end.

Definition judge (c : case) : list (N * N * N) :=
  let '(id, mode, tb, evs) := c in
  let kinds := fun ti => kind_code (tkind (tgt tb ti)) in
  (match key_mismatch 0 tb with Some i => [(id, 3%N, i)] | None => [] end) ++
  (match mode with
   | 0%N | 1%N | 3%N | 4%N => match replay tb 0 (mkR init [] []) evs with Some i => [(id, 1%N, i)] | None => [] end
   | _ => []
   end) ++
  (match mode with
   | 3%N => if pool_ok tb then [] else [(id, 5%N, 0%N)]
   | _ => []
   end) ++
  (match mode with
   | 1%N | 3%N => let h := index (seq_history evs) in
            if negb (hist_wf h) then [(id, 4%N, 0%N)]
            else if P_C20 kinds h then [] else [(id, 2%N, P_C20_clause kinds h)]
   | 2%N => let h := index evs in
            if negb (hist_wf h) then [(id, 4%N, 0%N)]
            else if P_C20 kinds h then [] else [(id, 2%N, P_C20_clause kinds h)]
   | 4%N => let h := index (seq_history evs) in
            if negb (hist_wf h) then [(id, 4%N, 0%N)]
            else if P_C20_safety kinds h then [] else [(id, 2%N, P_C20_safety_clause kinds h)]
   | _ => []
   end).

Definition judge_all (cs : list case) : list (N * N * N) := flat_map judge cs.

(* subject keys of arbitrary byte strings, compared with the implementation's *)
Definition str_of_bytes (l : list nat) : string := string_of_list_ascii (map ascii_of_nat l).
Definition kind_of_code (k : nat) : kind :=
  match k with 0 => KBackendRoom | 1 => KRoom | 2 => KUser | _ => KSession end.
Definition key_mismatches (tbl : list (nat * list nat * option (list nat) * list nat)) : list (N * N * N) :=
  flat_map (fun p =>
     let '(i, e) := p in
     let '(k, id, b, s) := e in
     let t := T (kind_of_code k) (str_of_bytes id) (option_map str_of_bytes b) in
     if String.eqb (subject_of t) (str_of_bytes s) then [] else [(N.of_nat i, 3%N, 0%N)])
   (combine (seq 0 (List.length tbl)) tbl).
