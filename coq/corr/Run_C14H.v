(* C14 at the level of rooms and sessions (hub scenario of C14): model = implementation, and the room-level clauses of
   the property (Hub_preds.v step_C14) on the implementation's trace *)
From Coq Require Import List NArith Bool.
From Verif Require Export corr.Hub_preds.
Import ListNotations.
Open Scope N_scope.
Definition case := hcase.
Definition P_C14H (c : hcase) : bool := match P_hub 14 c with None => true | Some _ => false end.
Definition judge_all (cs : list case) : list (N * N * N) := judge_hub 14 cs.
