(* every hub predicate on every case (used while developing the hub layer) *)
From Coq Require Import List NArith Bool.
From Verif Require Export corr.Hub_preds.
Import ListNotations.
Open Scope N_scope.
Definition case := hcase.
Definition judge_all (cs : list case) : list (N * N * N) :=
  flat_map (fun c => compare_case c ++
     flat_map (fun w => match P_hub w c with
                        | Some (i, clause) => [(c.(k_id), 10 + w, i * 1000 + clause)]
                        | None => [] end) [1; 3; 4; 5; 6; 7; 8; 9; 14; 19]) cs.
