(* model-vs-implementation comparison only (used while the hub model is being built) *)
From Coq Require Import List NArith Bool.
From Verif Require Export corr.Run_Hub.
Import ListNotations.
Definition case := hcase.
Definition judge_all (cs : list case) : list (N * N * N) := flat_map compare_case cs.
