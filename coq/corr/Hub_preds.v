(* Trace predicates of the hub properties C01 C03 C04 C05 C06 C07 C08 C09 C19 and of C14 at room level:
   each is the property itself as a decision procedure over what the harness
   recorded (op, observation, digest of the server tables after the op), written
   from the property text and independent of model/Hub.v's step function. *)
From Coq Require Import List NArith ZArith Bool.
From Verif Require Export corr.Run_Hub.
Import ListNotations.
Open Scope N_scope.

(* ------------------------------------------------------------------ helpers *)
Definition find_sd (dg : digest) (sid : N) : option sd := find (fun x => N.eqb x.(d_sid) sid) dg.(g_sessions).
Definition live (dg : digest) (sid : N) : bool := match find_sd dg sid with Some _ => true | None => false end.
Definition sd_of_conn (dg : digest) (c : N) : option sd := find (fun x => optN_eqb x.(d_conn) (Some c)) dg.(g_sessions).
Definition recv_of (ob : obs) (c : N) : list smsg := flat_map (fun e => if N.eqb (fst e) c then snd e else []) ob.(o_recv).
Definition is_virtual_d (x : sd) : bool := N.eqb x.(d_kind) 3.
Definition is_internal_d (x : sd) : bool := N.eqb x.(d_kind) 1.
Definition is_client_d (x : sd) : bool := N.eqb x.(d_kind) 0.
Definition perm_d (x : sd) (p : N) : bool :=
  if is_virtual_d x then true
  else match x.(d_perms) with None => negb (N.eqb p 6) | Some m => N.testbit m p end.
Definition empty_digest : digest := mkdigest [] [] [] [] [] [] [] [] [] 0 0 0 0 0 0 0 [] [].
Definition nlen {A} (l : list A) : N := N.of_nat (length l).
Definition room_entry (dg : digest) (k : N * N) : option (list N * list N) :=
  match find (fun e => pair_eqb (fst (fst e)) k) dg.(g_rooms) with Some (_, m, i) => Some (m, i) | None => None end.
Definition set_eqb (a b : list N) : bool := forallb (fun x => nmem x b) a && forallb (fun x => nmem x a) b.
Definition popcount3 (m : N) : N := (if N.testbit m 0 then 1 else 0) + (if N.testbit m 1 then 1 else 0) + (if N.testbit m 2 then 1 else 0).
Definition op_conn (o : op) : option N :=
  match o with
  | OHello c _ | OHelloAborted c _ _ | OJoin c _ _ _ | OMsg c _ _ | OCtl c _ _ | OBye c | OInternal c _ | OMedia c _ _ _ _ | OTransient c _ _ _ => Some c
  | _ => None
  end.
Definition all_msgs (ob : obs) : list (N * smsg) := flat_map (fun e => map (fun m => (fst e, m)) (snd e)) ob.(o_recv).

(* ------------------------------------------------------------------ C07: nothing left behind, limits exact *)
(* every identifier stored in any table names a live session; rooms are not empty and agree with
   the sessions' own room; bus registrations are exactly those of live sessions and rooms *)
Definition refs_live (dg : digest) : bool :=
  forallb (fun r => let '(k, m, i) := r in
     negb (match m with [] => true | _ => false end) && forallb (live dg) m && forallb (live dg) i &&
     forallb (fun sid => match find_sd dg sid with Some x => opt_pair_eqb x.(d_room) (Some k) | None => false end) m) dg.(g_rooms)
  && forallb (fun x => match x.(d_room) with
                       | Some k => match room_entry dg k with Some (m, _) => nmem x.(d_sid) m | None => false end
                       | None => true end) dg.(g_sessions)
  && forallb (fun e => live dg (fst e)) dg.(g_rs1)
  && forallb (fun e => live dg (snd e)) dg.(g_rs2)
  && forallb (fun e => let '(p, _, s) := e in live dg p && live dg s) dg.(g_vt)
  && forallb (live dg) dg.(g_expired) && forallb (live dg) dg.(g_anonymous)
  && forallb (live dg) dg.(g_dialout) && forallb (live dg) dg.(g_clients).

Definition registrations_exact (dg : digest) : bool :=
  N.eqb dg.(g_nbackendroom) (nlen dg.(g_rooms))
  && N.eqb dg.(g_nroom) (nlen (filter (fun x => negb (is_virtual_d x) && match x.(d_room) with Some _ => true | None => false end) dg.(g_sessions)))
  && N.eqb dg.(g_nuser) (nlen (filter (fun x => negb (is_virtual_d x) && negb (N.eqb x.(d_authuser) 0)) dg.(g_sessions)))
  && N.eqb dg.(g_nsession) (nlen dg.(g_sessions)).

(* limits: per limited backend, the registered non-internal sessions are at most the limit, and
   exactly those are counted (so capacity freed by ended sessions is available again) *)
Fixpoint limits_ok_from (b : N) (limits : list N) (dg : digest) : bool :=
  match limits with
  | [] => true
  | l :: r =>
      let mine := filter (fun x => N.eqb x.(d_backend) b && is_client_d x) dg.(g_sessions) in
      (if N.eqb l 0 then forallb (fun x => negb x.(d_counted)) mine
       else (nlen mine <=? l) && forallb (fun x => x.(d_counted)) mine)
      (* the backend's own count is the number of those sessions: no slot is held by a session that is gone *)
      && N.eqb (nth (N.to_nat b) dg.(g_counts) 0) (nlen (filter (fun x => x.(d_counted)) mine))
      && limits_ok_from (b + 1) r dg
  end.

(* the table of connected sessions and the expiry list say what the sessions themselves say: a session is in the
   clients table exactly when a connection is attached to it, and only sessions without a connection wait for expiry
   (a session entered into the expiry list while its connection is attached is closed one expiry window later although
   its client is there; an entry of the clients table for a session without connection is residue of a connection that
   is gone) *)
Definition has_conn (x : sd) : bool := match x.(d_conn) with Some _ => true | None => false end.
Definition expiring_unattached (dg : digest) : bool :=
  forallb (fun sid => match find_sd dg sid with Some x => negb (has_conn x) | None => true end) dg.(g_expired).
Definition clients_attached (dg : digest) : bool :=
  forallb (fun sid => match find_sd dg sid with Some x => has_conn x | None => false end) dg.(g_clients)
  && forallb (fun x => is_virtual_d x || negb (has_conn x) || nmem x.(d_sid) dg.(g_clients)) dg.(g_sessions).

Definition digest_C07 (limits : list N) (dg : digest) : bool :=
  refs_live dg && registrations_exact dg && limits_ok_from 0 limits dg && expiring_unattached dg && clients_attached dg.

(* ------------------------------------------------------------------ C04: room membership (server side) *)
Definition rs_consistent (dg : digest) : bool :=
  forallb (fun e => existsb (fun f => pair_eqb f (snd e, fst e)) dg.(g_rs1)) dg.(g_rs2).
Definition digest_C04 (dg : digest) : bool := refs_live dg && rs_consistent dg.

(* ------------------------------------------------------------------ C09 / C19 digest clauses *)
Definition digest_C09 (dg : digest) : bool :=
  let owned := fold_left (fun acc x => acc + popcount3 x.(d_pubs) + x.(d_nsubs)) dg.(g_sessions) 0 in
  if N.eqb dg.(g_mcupending) 0 then N.eqb dg.(g_mcuopen) owned else owned <=? dg.(g_mcuopen).

Definition digest_C19 (dg : digest) : bool :=
  forallb (fun x => if is_virtual_d x then
                      match find_sd dg x.(d_parent) with Some p => is_internal_d p && N.eqb p.(d_backend) x.(d_backend) | None => false end
                      && existsb (fun e => let '(p, _, s) := e in N.eqb p x.(d_parent) && N.eqb s x.(d_sid)) dg.(g_vt)
                    else true) dg.(g_sessions)
  && forallb (fun e => let '(p, _, s) := e in
                match find_sd dg s with Some x => is_virtual_d x && N.eqb x.(d_parent) p | None => false end) dg.(g_vt).

(* ------------------------------------------------------------------ the reference routing function (C05) *)
Definition stype_n (to : recipient) : N := match to with RSession _ => 0 | RUser _ => 1 | RRoom => 2 | RCall => 3 end.

(* who must receive a message / control message, and with which rewritten recipient *)
Definition route_spec (pd : digest) (s : sd) (to : recipient) : list (N * option rcpt) :=
  match to with
  | RSession (IdPub n) =>
      match find_sd pd n with
      | Some t =>
          if negb (N.eqb t.(d_backend) s.(d_backend)) || N.eqb n s.(d_sid) then []
          else if is_virtual_d t then
            match find (fun e => let '(_, _, x) := e in N.eqb x n) pd.(g_vt) with
            | Some (p, v, _) => [(p, Some (RcptVirtual v))]
            | None => []
            end
          else [(n, None)]
      | None => []
      end
  | RSession _ => []
  | RUser u =>
      if N.eqb u 0 || N.eqb u s.(d_user) then []
      else map (fun x => (x.(d_sid), None))
               (filter (fun x => negb (is_virtual_d x) && N.eqb x.(d_backend) s.(d_backend) && N.eqb x.(d_authuser) u) pd.(g_sessions))
  | RRoom | RCall =>
      match s.(d_room) with
      | None => []
      | Some k =>
          map (fun x => (x.(d_sid), None))
              (filter (fun x => negb (is_virtual_d x) && opt_pair_eqb x.(d_room) (Some k) && negb (N.eqb x.(d_sid) s.(d_sid))
                                && (match to with RCall => x.(d_incall) | _ => true end)) pd.(g_sessions))
      end
  end.

Definition control_allowed (s : sd) : bool := is_internal_d s || perm_d s 4.

Definition tagged (kindn tag : N) (m : smsg) : bool :=
  match m with SMsg k _ _ _ _ t => N.eqb k kindn && N.eqb t tag | _ => false end.

(* every addressed session that is connected got exactly one copy with the true sender; nobody else got one *)
Definition step_C05 (pd : digest) (o : op) (ob : obs) : bool :=
  match o with
  | OMsg c to tag | OCtl c to tag =>
      let kindn := match o with OCtl _ _ _ => 1 | _ => 0 end in
      let copies := filter (fun e => tagged kindn tag (snd e)) (all_msgs ob) in
      match sd_of_conn pd c with
      | None => match copies with [] => true | _ => false end
      | Some s =>
          let targets := if N.eqb kindn 1 && negb (control_allowed s) then [] else route_spec pd s to in
          let expect := flat_map (fun t => let '(r, rc) := t in
                          match find_sd pd r with
                          | Some x => match x.(d_conn) with
                                      | Some c' => [(c', SMsg kindn (stype_n to) s.(d_sid) s.(d_user) rc tag)]
                                      | None => [] end
                          | None => [] end) targets in
          mset_eqb (fun a b => N.eqb (fst a) (fst b) && smsg_eqb (snd a) (snd b)) copies expect
          (* never back to the sender - except the copy for one of the sender's own virtual sessions, which
             lives on the sender's connection (recipient rewritten to the virtual id) *)
          && forallb (fun e => negb (N.eqb (fst e) c) || match snd e with SMsg _ _ _ _ (Some (RcptVirtual _)) _ => true | _ => false end) copies
      end
  | _ => true
  end.

(* ------------------------------------------------------------------ C01 *)
Definition hello_creates (nb : N) (h : hello) : option (N * N * N) :=   (* kind, backend, user *)
  match h with
  | HV1 b u false => if b <? nb then Some (0, b, u) else None
  | HInternal b 0 _ _ => if b <? nb then Some (1, b, 0) else None
  | HV2 b u t =>
      (* "a protocol 2.0 token signed with an RSA/ECDSA/Ed25519 key published by that configured backend
         and currently time-valid" (clocks may differ by a minute) *)
      if (b <? nb) && (t.(t_alg) <? 7) && N.eqb t.(t_signer) (b + 1)
         && match t.(t_exp) with Some e => (-60 <? e)%Z | None => false end
         && match t.(t_iat) with Some i => (i <=? 60)%Z | None => true end
         && match t.(t_nbf) with Some n => (n <=? 60)%Z | None => true end
      then Some (0, b, u) else None
  | _ => None
  end.

Definition new_sessions (pd dg : digest) : list sd := filter (fun x => negb (live pd x.(d_sid))) dg.(g_sessions).

Definition is_coded_error (m : smsg) : bool := match m with SError code => negb (N.eqb code 0) | _ => false end.

Definition step_C01 (nb : N) (pd : digest) (o : op) (ob : obs) (dg : digest) : bool :=
  (* a session appears only through a hello whose credentials verify (or as a virtual session of an internal client) *)
  forallb (fun x =>
     match o with
     | OHello c h => match hello_creates nb h with
                     | Some (k, b, u) => N.eqb x.(d_kind) k && N.eqb x.(d_backend) b && N.eqb x.(d_authuser) u && optN_eqb x.(d_conn) (Some c)
                     | None => false end
     | OInternal c (IAdd _ _ _ _ _) =>
         is_virtual_d x && match sd_of_conn pd c with Some p => is_internal_d p && N.eqb x.(d_parent) p.(d_sid) | None => false end
     | _ => false
     end) (new_sessions pd dg)
  (* a hello reply with a session id goes only to the connection that presented verifying credentials or a live resume id *)
  && forallb (fun e => match snd e with
                       | SHello sid _ =>
                           match o with
                           | OHello c (HResume (IdPriv n)) => N.eqb (fst e) c && N.eqb sid n && live pd n
                           | OHello c h => N.eqb (fst e) c && match hello_creates nb h with Some _ => negb (live pd sid) | None => false end
                           | _ => false
                           end
                       | _ => true end) (all_msgs ob)
  (* before a successful hello every other request is answered with an error and changes nothing;
     "an error" is an error message that says what failed: it carries a (non-empty) code.  An error message
     without its error member is projected to SOther, one with an empty code to SError 0. *)
  && match o with
     | OHello c _ =>
         (* a hello that does not give the connection a session is a refusal: whatever the connection is
            sent in that step is an error with a code *)
         match sd_of_conn pd c, sd_of_conn dg c with
         | None, None => forallb (fun e => negb (N.eqb (fst e) c) || is_coded_error (snd e)) (all_msgs ob)
         | _, _ => true
         end
     | OHelloAborted _ _ _ => true
     | _ => match op_conn o with
            | Some c => match sd_of_conn pd c with
                        | Some _ => true
                        | None => digest_match dg pd &&
                                  forallb (fun e => N.eqb (fst e) c && is_coded_error (snd e)) (all_msgs ob)
                        end
            | None => true end
     end.

(* ------------------------------------------------------------------ C03 *)
Definition backend_of (pd dg : digest) (sid : N) : option N :=
  match find_sd dg sid with
  | Some x => Some x.(d_backend)
  | None => match find_sd pd sid with Some x => Some x.(d_backend) | None => None end
  end.
Definition receiver_backend (pd dg : digest) (c : N) : option N :=
  match sd_of_conn dg c with
  | Some x => Some x.(d_backend)
  | None => match sd_of_conn pd c with Some x => Some x.(d_backend) | None => None end
  end.
Definition same_backend (pd dg : digest) (rb : N) (sid : N) : bool :=
  match backend_of pd dg sid with Some b => N.eqb b rb | None => true end.

(* the backend on whose behalf the op acts *)
Definition op_backend (pd : digest) (o : op) : option N :=
  match o with
  | OApi b _ _ _ => Some b
  | OHello _ (HV1 b _ _) | OHello _ (HV2 b _ _) | OHello _ (HInternal b _ _ _) => Some b
  | OHello _ (HResume (IdPriv n)) => match find_sd pd n with Some x => Some x.(d_backend) | None => None end
  | OHello _ _ => None
  | _ => match op_conn o with
         | Some c => match sd_of_conn pd c with Some x => Some x.(d_backend) | None => None end
         | None => None end
  end.

Definition step_C03 (pd : digest) (o : op) (ob : obs) (dg : digest) : bool :=
  forallb (fun e =>
     let '(c, m) := e in
     match receiver_backend pd dg c with
     | None => true          (* no session on that connection: only replies to its own requests *)
     | Some rb =>
         (* what arrives comes from a session of the receiver's backend ... *)
         (match m with
          | SMsg _ _ ssid _ _ _ => N.eqb ssid 0 || same_backend pd dg rb ssid
          | SJoin l => forallb (fun x => same_backend pd dg rb (fst x)) l
          | SLeave l => forallb (same_backend pd dg rb) l
          | SFlags s _ => same_backend pd dg rb s
          | SMedia _ f =>
              (* internal clients (holders of the server-wide internal secret) may subscribe any stream *)
              N.eqb f 0 || same_backend pd dg rb f ||
              match sd_of_conn dg c with Some x => is_internal_d x | None => false end
          | _ => true end)
         (* ... and is caused by an op of the receiver's backend, unless it is the reply to the
            receiver's own request or the clock *)
         && (match o with
             | OTick _ | OMcuDone _ _ | ODeliver _ | OConnect _ _ => true
             | _ => match op_backend pd o with
                    | Some ob' => N.eqb ob' rb || (match op_conn o with Some c' => N.eqb c c' | None => false end)
                    | None => match op_conn o with Some c' => N.eqb c c' | None => false end
                    end
             end)
     end) (all_msgs ob)
  (* state of sessions of other backends is untouched by the op *)
  && match o with
     | OTick _ | OMcuDone _ _ | ODeliver _ | OConnect _ _ | ODrop _ => true
     | _ => match op_backend pd o with
            | None => true
            | Some b =>
                forallb (fun x => if N.eqb x.(d_backend) b then true
                                  else match find_sd dg x.(d_sid) with
                                       | Some y => sd_eqb x y
                                       | None => false end) pd.(g_sessions)
            end
     end.

(* ------------------------------------------------------------------ C08 *)
Definition spec_offer_allowed (s : sd) (stream media : N) : bool :=
  if N.eqb stream 2 then perm_d s 2
  else
    (* an audio / video section counts whatever its port (bits 3 / 4: sections with port 0, "bundle-only") *)
    let audio := N.testbit media 0 || N.testbit media 3 in
    let video := N.testbit media 1 || N.testbit media 4 in
    (negb audio || perm_d s 3 || perm_d s 0) && (negb video || perm_d s 3 || perm_d s 1).

Definition spec_same_call (pd : digest) (s : sd) (n : N) : bool :=
  is_internal_d s ||
  match s.(d_room), find_sd pd n with
  | Some k, Some t => s.(d_incall) && opt_pair_eqb t.(d_room) (Some k) && (is_internal_d t || t.(d_incall))
  | _, _ => false
  end.

(* messages for a stream of the sender that carry no session description (candidates): the permission for that
   stream type - publish-screen for the screen stream; for audio / video what would allow an offer with an audio
   or with a video section (publish-media, publish-audio or publish-video) *)
Definition spec_send_allowed (s : sd) (stream : N) : bool :=
  if N.eqb stream 2 then spec_offer_allowed s 2 0
  else spec_offer_allowed s stream 1 || spec_offer_allowed s stream 2.

Definition refused_not_allowed (c : N) (ob : obs) : bool :=
  existsb (fun e => N.eqb (fst e) c && match snd e with SError code => N.eqb code 14 | _ => false end) (all_msgs ob).

(* the gate itself: an offer (message kind 0), a candidate / answer / endOfCandidates for the sender's own stream
   (kinds 2 / 4 / 7, addressed to itself) and a sendoffer (kind 3) are answered "not_allowed" exactly when the
   permission for that stream type is missing (and then nothing is created at the media server) *)
Definition step_C08_gate (pd : digest) (o : op) (ob : obs) : bool :=
  match o with
  | OMedia c (RSession i) mk stream media =>
      match sd_of_conn pd c with
      | Some s =>
          if is_virtual_d s then true
          else if N.eqb mk 0 then
            let ok := spec_offer_allowed s stream media in
            Bool.eqb (refused_not_allowed c ob) (negb ok)
            && (ok || forallb (fun e => match e with MCreate _ _ _ _ _ => false | _ => true end) ob.(o_mcu))
          else if (N.eqb mk 2 || N.eqb mk 4 || N.eqb mk 7) && match i with IdPub n => N.eqb n s.(d_sid) | _ => false end then
            (* candidate, answer, endOfCandidates for the sender's own stream *)
            Bool.eqb (refused_not_allowed c ob) (negb (spec_send_allowed s stream))
          else if N.eqb mk 3 then
            (* sendoffer: dropped without an answer when it names the sender itself or a session of another
               backend; otherwise refused exactly when the permission for the stream type is missing; a refused
               or dropped one creates nothing, and one that names no session creates nothing either *)
            let ok := spec_send_allowed s stream in
            let nocreate := forallb (fun e => match e with MCreate _ _ _ _ _ => false | _ => true end) ob.(o_mcu) in
            match match i with IdPub n => find_sd pd n | _ => None end with
            | Some t =>
                if negb (N.eqb t.(d_backend) s.(d_backend)) || N.eqb t.(d_sid) s.(d_sid)
                then negb (refused_not_allowed c ob) && nocreate
                else Bool.eqb (refused_not_allowed c ob) (negb ok) && (ok || nocreate)
            | None => Bool.eqb (refused_not_allowed c ob) (negb ok) && nocreate
            end
          else true
      | None => true end
  | _ => true
  end.

Definition step_C08 (pd : digest) (o : op) (ob : obs) (dg : digest) : bool :=
  (* creations at the media server need the permission / call membership of the requester *)
  forallb (fun e => match e with
                    | MCreate 0 _ owner stream _ =>
                        match o with
                        | OMedia c _ 0 st media => match sd_of_conn pd c with
                                                   | Some s => N.eqb s.(d_sid) owner && N.eqb st stream && spec_offer_allowed s stream media
                                                   | None => false end
                        | _ => false end
                    | MCreate _ _ owner stream pubof =>
                        match o with
                        | OMedia c _ 1 _ _ => match sd_of_conn pd c with
                                              | Some s => N.eqb s.(d_sid) owner && spec_same_call pd s pubof
                                              | None => false end
                        (* sendoffer: a subscriber to the SENDER's stream, for the session the message names (the owner of a
                           virtual session), if the sender may send that stream type *)
                        | OMedia c (RSession (IdPub n)) 3 st _ =>
                            match sd_of_conn pd c, find_sd pd n with
                            | Some s, Some t =>
                                negb (is_virtual_d s) && N.eqb s.(d_sid) pubof && N.eqb st stream && spec_send_allowed s stream
                                && N.eqb t.(d_backend) s.(d_backend) && negb (N.eqb t.(d_sid) s.(d_sid))
                                && N.eqb owner (if is_virtual_d t then t.(d_parent) else t.(d_sid))
                            | _, _ => false end
                        | _ => false end
                    | _ => true end) ob.(o_mcu)
  (* nobody holds a publisher it may not have *)
  && forallb (fun x => is_virtual_d x ||
                       ((negb (N.testbit x.(d_pubs) 2) || perm_d x 2) &&
                        (* audio / video carried by its publishers needs the media or the audio / video permission
                           (a publisher that carries neither, e.g. a data channel only, needs none) *)
                        (negb (N.testbit x.(d_pubmedia) 0) || perm_d x 3 || perm_d x 0) &&
                        (negb (N.testbit x.(d_pubmedia) 1) || perm_d x 3 || perm_d x 1))) dg.(g_sessions)
  (* transient data changes only by sessions that may change it *)
  && match o with
     | OTransient c _ _ _ =>
         match sd_of_conn pd c with
         | Some s => if is_internal_d s || perm_d s 5 then true
                     else forallb (fun e => match snd e with STransient (TSet _ _ _) | STransient (TRemove _ _) => false | _ => true end) (all_msgs ob)
         | None => true end
     | _ => true
     end.

(* ------------------------------------------------------------------ C19 step clause *)
Definition step_C19 (pd : digest) (o : op) (ob : obs) (dg : digest) : bool :=
  match o with
  | OInternal c q =>
      match sd_of_conn pd c with
      | None => true
      | Some s =>
          if negb (is_internal_d s) then
            (* ordinary clients: the requests do nothing *)
            digest_match dg pd && match all_msgs ob with [] => true | _ => false end
          else
            match q with
            | IAdd v r u _ _ =>
                match room_entry pd (s.(d_backend), r) with
                | None => digest_match dg pd
                | Some _ =>
                    (* the new virtual session is a member of the room and the backend is told *)
                    match find (fun e => let '(p, v', _) := e in N.eqb p s.(d_sid) && N.eqb v' v) dg.(g_vt) with
                    | Some (_, _, ns) =>
                        negb (live pd ns) &&
                        match find_sd dg ns, room_entry dg (s.(d_backend), r) with
                        | Some x, Some (m, _) => is_virtual_d x && N.eqb x.(d_parent) s.(d_sid) && nmem ns m &&
                                                 existsb (fun b => breq_eqb b (s.(d_backend), 2, 2, r, ns, 1)) ob.(o_breqs)
                        | _, _ => false end
                    | None => false end
                end
            | IRemove v r =>
                match room_entry pd (s.(d_backend), r), find (fun e => let '(p, v', _) := e in N.eqb p s.(d_sid) && N.eqb v' v) pd.(g_vt) with
                | Some _, Some (_, _, vs) =>
                    negb (live dg vs) &&
                    forallb (fun rm => let '(_, m, _) := rm in negb (nmem vs m)) dg.(g_rooms) &&
                    (match find_sd pd vs with
                     | Some x => match x.(d_room) with
                                 | Some k => existsb (fun b => breq_eqb b (s.(d_backend), 2, 3, snd k, vs, 1)) ob.(o_breqs)
                                 | None => true end
                     | None => true end)
                | _, _ => true end
            | _ => true
            end
      end
  | _ => true
  end
  (* whatever the op: a virtual session that was in a room and is gone after the step has left that room for
     its backend too (the "remove" request was made) - also when it went with its internal client *)
  && forallb (fun x =>
       if is_virtual_d x && negb (live dg x.(d_sid)) then
         match x.(d_room) with
         | Some k => existsb (fun b => breq_eqb b (x.(d_backend), 2, 3, snd k, x.(d_sid), 1)) ob.(o_breqs)
         | None => true end
       else true) pd.(g_sessions).

(* "messages addressed to it reach its internal client with the recipient rewritten to the client's own
   identifier": a message / control message whose recipient is the public id of a live virtual session is
   judged by the reference routing (route_spec: one copy, on the connection of the internal client the
   session belongs to, true sender, recipient = the chosen id; nothing for a sender of another backend or
   a control message of a sender without the permission; nobody else gets a copy) - whoever the sender
   is: the owning internal client, another internal client, an ordinary session.  Evaluated in the
   quiescent semantics (as C05's clause), see check_step. *)
Definition to_virtual (pd : digest) (o : op) : bool :=
  match o with
  | OMsg _ (RSession (IdPub n)) _ | OCtl _ (RSession (IdPub n)) _ =>
      match find_sd pd n with Some t => is_virtual_d t | None => false end
  | _ => false
  end.
Definition step_C19_msg (pd : digest) (o : op) (ob : obs) : bool :=
  negb (to_virtual pd o) || step_C05 pd o ob.

(* ------------------------------------------------------------------ stateful clauses: observers (C04) and resume (C06) *)
Record pstate := mkps {
  ps_prev : digest;
  ps_view : alist (option (N * list N)); (* session -> room and member set it can reconstruct: None = in no room *)
  ps_queue : alist (list (N * N));       (* session -> (kind, tag) of messages addressed to it while disconnected *)
  ps_broken : list N;                    (* connections the server can no longer write to (it still believes them connected) *)
  ps_virt : list (N * (N * N));          (* virtual sessions seen so far and the room each was in (session ids are never reused) *)
  ps_tdata : alist (option (N * list (N * N)));   (* session -> room and the transient data it can reconstruct from what it received since it joined *)
  ps_conns : list N;                     (* connections that were opened and neither dropped nor closed by the server *)
  ps_doomed : list N;                    (* connections without a session whose writes (will) fail: the harness lets the server's
                                            writes to them fail after some frames - a resume on one is cut while the queue is flushed *)
}.
Definition ps_init : pstate := mkps empty_digest [] [] [] [] [] [] [].
(* the harness's marker "the server's writes to this connection fail (from some frame on)" is OConnect on a connection
   that exists: wfail_of for one that has a session, doomed_of for one that has none yet *)
Definition doomed_of (conns : list N) (pd : digest) (o : op) : option N :=
  match o with
  | OConnect c _ => match sd_of_conn pd c with Some _ => None | None => if nmem c conns then Some c else None end
  | _ => None end.
(* a session is reachable when it has a connection the server can write to *)
Definition writable (broken : list N) (x : sd) : bool :=
  match x.(d_conn) with Some c => negb (nmem c broken) | None => false end.
Definition wfail_of (pd : digest) (o : op) : option N :=
  match o with
  | OConnect c _ => match sd_of_conn pd c with Some _ => Some c | None => None end
  | _ => None end.

Definition apply_view (v : option (N * list N)) (m : smsg) : option (N * list N) :=
  match m with
  | SRoom 0 => None
  | SRoom r => match v with
               | Some (r', x) => if N.eqb r r' then v else Some (r, [])   (* same room: its properties changed *)
               | None => Some (r, []) end
  | SJoin l => match v with Some (r, x) => Some (r, fold_left (fun acc e => nadd (fst e) acc) l x) | None => None end
  | SLeave l => match v with Some (r, x) => Some (r, fold_left (fun acc e => nrem e acc) l x) | None => None end
  | _ => v
  end.

(* the session a connection's messages of this step belong to *)
Definition conn_session (pd dg : digest) (c : N) : option N :=
  match sd_of_conn dg c with
  | Some x => Some x.(d_sid)
  | None => match sd_of_conn pd c with Some x => Some x.(d_sid) | None => None end
  end.

Definition update_views (pd dg : digest) (ob : obs) (views : alist (option (N * list N))) : alist (option (N * list N)) :=
  fold_left (fun acc e =>
     let '(c, msgs) := e in
     (* a hello reply re-attaches the connection: messages after it belong to that session *)
     let sid0 := conn_session pd dg c in
     snd (fold_left (fun st m =>
            let '(cur, vs) := st in
            match m with
            | SHello sid _ => (Some sid, vs)
            | _ => match cur with
                   | Some sid => (cur, aset vs sid (apply_view (match aget vs sid with Some v => v | None => None end) m))
                   | None => (cur, vs) end
            end) msgs (sid0, acc))) ob.(o_recv) views.

(* once activity stopped every connected member's replayed view is the member set the server holds *)
Definition observers_ok_b (broken : list N) (dg : digest) (views : alist (option (N * list N))) : bool :=
  forallb (fun x =>
     if is_virtual_d x || negb (writable broken x) then true   (* nothing can be written to it now: judged after its resume *)
     else match x.(d_conn), x.(d_room) with
          | Some _, Some k =>
              match room_entry dg k, aget views x.(d_sid) with
              | Some (m, _), Some (Some (r, v)) => N.eqb r (snd k) && set_eqb v m
              | _, _ => false end
          | Some _, None => match aget views x.(d_sid) with Some (Some _) => false | _ => true end
          | None, _ => true
          end) dg.(g_sessions).
Definition observers_ok := observers_ok_b [].

(* "A virtual session appears to the room as a participant" - to every connected member, also one that joined after
   it was added: the replayed view of a member the server can write to contains every virtual session that is a
   member of its room (C19; the full equality of views is C04's clause). *)
Definition virtuals_seen_b (broken : list N) (dg : digest) (views : alist (option (N * list N))) : bool :=
  forallb (fun x =>
     if is_virtual_d x || negb (writable broken x) then true
     else match x.(d_conn), x.(d_room) with
          | Some _, Some k =>
              match room_entry dg k, aget views x.(d_sid) with
              | Some (m, _), Some (Some (r, v)) =>
                  forallb (fun i => match find_sd dg i with
                                    | Some y => negb (is_virtual_d y) || nmem i v
                                    | None => true end) m
              | _, _ => true end
          | _, _ => true
          end) dg.(g_sessions).

Definition smsg_tags (l : list smsg) : list (N * N) :=
  flat_map (fun m => match m with SMsg k _ _ _ _ t => [(k, t)] | _ => [] end) l.

(* messages that the reference routing addresses to sessions without a connection are what a
   later resume must deliver, in order, once *)
(* "repeated chat-refresh notices may be merged into one": the message with tag 77 is the driver's chat-refresh notice *)
Definition qadd (l : list (N * N)) (e : N * N) : list (N * N) :=
  if pair_eqb e (0, 77) && existsb (pair_eqb (0, 77)) l then l else l ++ [e].

Definition update_queue_b (broken : list N) (pd : digest) (o : op) (q : alist (list (N * N))) : alist (list (N * N)) :=
  match o with
  | OMsg c to tag | OCtl c to tag =>
      let kindn := match o with OCtl _ _ _ => 1 | _ => 0 end in
      match sd_of_conn pd c with
      | None => q
      | Some s =>
          let targets := if N.eqb kindn 1 && negb (control_allowed s) then [] else route_spec pd s to in
          fold_left (fun acc t => match find_sd pd (fst t) with
                                  | Some x => if writable broken x then acc
                                              else aset acc (fst t) (qadd (match aget acc (fst t) with Some l => l | None => [] end) (kindn, tag))
                                  | None => acc end) targets q
      end
  | _ => q
  end.
Definition update_queue := update_queue_b [].

(* a bye, or a disinvite from the room the session is in, ends the session once it is delivered *)
Definition closing_for (x : sd) (m : smsg) : bool :=
  match m with
  | SBye _ => true
  | SDisinvite r => match x.(d_room) with Some k => N.eqb (snd k) r | None => false end
  | _ => false end.

Definition step_C06 (ps : pstate) (o : op) (ob : obs) (dg : digest) : bool :=
  let pd := ps.(ps_prev) in
  (* "stays in its room, and receives every message": a session that has a connection is not waiting for expiry (after
     any op: a resumed session that is still, or again, in the expiry list is closed one window later under its client)
     and is known to the hub as connected *)
  expiring_unattached dg && clients_attached dg &&
  match o with
  | OHello c (HResume i) =>
      match sd_of_conn pd c with
      | Some _ => true     (* hello on an authenticated connection is ignored *)
      | None =>
          match i with
          | IdPriv n =>
              match find_sd pd n with
              | Some x =>
                  if is_virtual_d x then true
                  else
                    let got := recv_of ob c in
                    let queued := match aget ps.(ps_queue) n with Some l => l | None => [] end in
                    (* same session id first, then everything addressed to it meanwhile, in order, once *)
                    let doomed := nmem c ps.(ps_doomed) in
                    match got with
                    | SHello sid _ :: rest =>
                        N.eqb sid n &&
                        (* ... up to a bye / disinvite that was waiting among them: that one ends the session, nothing
                           can be written after it; and up to the frame from which the writes to this connection fail
                           (a connection cut while the queue is flushed): what it got is the beginning of the queue, in
                           order, once - the rest stays queued for the next resume (ps_next), none of it may be lost:
                           the session holds at least as many pending messages as are still owed *)
                        (if existsb (closing_for x) rest || doomed
                         then list_eqb pair_eqb (smsg_tags rest) (firstn (length (smsg_tags rest)) queued)
                         else list_eqb pair_eqb (smsg_tags rest) queued)
                    | [SError 11] => true                 (* throttled *)
                    | [] => doomed                        (* not even the reply could be written *)
                    | _ => false end
                    &&
                    match got with
                    | [SError 11] => true
                    | _ =>
                      (* a bye or a disinvite that was waiting in the queue ends the session once it is delivered *)
                      if existsb (closing_for x) got then
                        negb (live dg n) && nmem c ob.(o_closed)
                      else
                      match find_sd dg n with
                      | Some y => optN_eqb y.(d_conn) (Some c) && opt_pair_eqb y.(d_room) x.(d_room)
                                  && (if nmem c ps.(ps_doomed)
                                      then (nlen queued - nlen (smsg_tags got)) <=? y.(d_pending)
                                      else N.eqb y.(d_pending) 0)
                                  (* ... including the notice that it is in no room any more: what the client can
                                     reconstruct from the room events it got on all its connections is the server's room *)
                                  && match y.(d_room), aget (update_views pd dg ob ps.(ps_view)) n with
                                     | None, Some (Some _) => false
                                     | Some k, Some (Some (r, _)) => N.eqb (snd k) r
                                     | Some _, Some None => false
                                     | _, _ => true end
                      | None => false end
                      (* a second resume takes over: the previous connection is told and closed *)
                      && match x.(d_conn) with
                         | Some c0 => N.eqb c0 c || nmem c0 ps.(ps_broken) ||
                                      (existsb (smsg_eqb (SBye 3)) (recv_of ob c0) && nmem c0 ob.(o_closed))
                         | None => true end
                    end
              | None =>
                  (* ended (bye, expiry, kick) or never existed: refused *)
                  match recv_of ob c with [SError 8] | [SError 11] => true | _ => false end
                  && match sd_of_conn dg c with Some _ => false | None => true end
              end
          | _ =>
              (* the public id (or anything else) never works as a resume id *)
              match recv_of ob c with [SError 8] | [SError 11] => true | _ => false end
              && match sd_of_conn dg c with Some _ => false | None => true end
          end
      end
  | OBye c =>
      match sd_of_conn pd c with
      | Some x => negb (live dg x.(d_sid)) && forallb (fun rm => let '(_, m, _) := rm in negb (nmem x.(d_sid) m)) dg.(g_rooms)
      | None => true end
  | OTick secs =>
      (if 30 <? secs then forallb (fun sid => negb (live dg sid)) pd.(g_expired) else true)
      (* the passing of time ends no session that has its connection (and is not an anonymous session waiting for a
         room, which is told and closed): it is still there, with the same connection, in the same room *)
      && forallb (fun x => is_virtual_d x || negb (has_conn x) || nmem x.(d_sid) pd.(g_anonymous) ||
                           match find_sd dg x.(d_sid) with
                           | Some y => optN_eqb y.(d_conn) x.(d_conn) && opt_pair_eqb y.(d_room) x.(d_room)
                           | None => false end) pd.(g_sessions)
  | _ => true
  end.


(* ------------------------------------------------------------------ C14 at the level of rooms and sessions *)
(* "Each session in a room receives the current transient data when it joins and thereafter set/remove
   notifications that, applied in order to what it received, always reproduce the room's current data; setting an
   unchanged value sends nothing."  Judged on what the connections received and on the data of the rooms in the
   digest.  (Times-to-live are the subject of the store-level check, Run_C14.v; the hub harness sends none.) *)
Definition tdata_of (dg : digest) (k : N * N) : list (N * N) :=
  match find (fun e => pair_eqb (fst e) k) dg.(g_transient) with Some e => snd e | None => [] end.
Definition data_eqb (a b : list (N * N)) : bool := list_eqb pair_eqb (sort_join a) (sort_join b).
Definition optN_neqb (a b : option N) : bool := negb (optN_eqb a b).

(* the replica of a session: what it was told since its last join, applied in order *)
Definition apply_trans (v : option (N * list (N * N))) (m : smsg) : option (N * list (N * N)) :=
  match m with
  | SRoom 0 => None
  | SRoom r => match v with
               | Some (r', _) => if N.eqb r r' then v else Some (r, [])   (* same room: its properties changed *)
               | None => Some (r, []) end
  | STransient t =>
      match v with
      | Some (r, d) => Some (r, match t with TInit d' => d' | TSet key x _ => aset d key x | TRemove key _ => adel d key end)
      | None => None end
  | _ => v
  end.

Definition update_tviews (pd dg : digest) (ob : obs) (views : alist (option (N * list (N * N)))) : alist (option (N * list (N * N))) :=
  fold_left (fun acc e =>
     let '(c, msgs) := e in
     let sid0 := conn_session pd dg c in
     snd (fold_left (fun st m =>
            let '(cur, vs) := st in
            match m with
            | SHello sid _ => (Some sid, vs)
            | _ => match cur with
                   | Some sid => (cur, aset vs sid (apply_trans (match aget vs sid with Some v => v | None => None end) m))
                   | None => (cur, vs) end
            end) msgs (sid0, acc))) ob.(o_recv) views.

(* clause 1 (a): the replica of every session the server can write to is the data of its room; data notifications are
   written in the step that changes the data (also a backend request: in the step that delivers it), so this holds after
   every step whatever is still queued on the bus *)
Definition tdata_ok (broken : list N) (dg : digest) (views : alist (option (N * list (N * N)))) : bool :=
  forallb (fun x =>
     if is_virtual_d x || negb (writable broken x) then true
     else match x.(d_room) with
          | Some k => match aget views x.(d_sid) with
                      | Some (Some (r, d)) => N.eqb r (snd k) && data_eqb d (tdata_of dg k)
                      | _ => false end
          | None => match aget views x.(d_sid) with Some (Some _) => false | _ => true end
          end) dg.(g_sessions).

(* clause 2 (b): a transient message is written only to a session that is in the room whose data it describes, at
   that moment: the initial data to the session that joins, in the step of its join, and it is the room's data; a
   set / remove notice to a session that is in a room before and after the step, and that room's data changed in
   this step as the notice says.  Exempt: what a resume writes to the resuming connection (the queue of the time
   the session was away, judged by the replica clause). *)
Definition trans_to_members (pd dg : digest) (o : op) (ob : obs) : bool :=
  forallb (fun e =>
     let '(c, m) := e in
     match m with
     | STransient t =>
         match o with OHello c' (HResume _) => N.eqb c c' | _ => false end
         || match conn_session pd dg c with
            | None => false
            | Some sid =>
                match t with
                | TInit d =>
                    match o with OJoin c' _ _ _ => N.eqb c c' | _ => false end
                    && match find_sd dg sid with
                       | Some y => match y.(d_room) with
                                   | Some k => data_eqb d (tdata_of dg k) && negb (match d with [] => true | _ => false end)
                                   | None => false end
                       | None => false end
                | TSet key v old =>
                    match find_sd pd sid, find_sd dg sid with
                    | Some x, Some y =>
                        match x.(d_room) with
                        | Some k => opt_pair_eqb y.(d_room) (Some k)
                                    && optN_eqb (aget (tdata_of dg k) key) (Some v)
                                    && optN_eqb (aget (tdata_of pd k) key) old
                                    && optN_neqb old (Some v)
                        | None => false end
                    | _, _ => false end
                | TRemove key old =>
                    match find_sd pd sid, find_sd dg sid with
                    | Some x, Some y =>
                        match x.(d_room) with
                        | Some k => opt_pair_eqb y.(d_room) (Some k)
                                    && optN_eqb (aget (tdata_of dg k) key) None
                                    && optN_eqb (aget (tdata_of pd k) key) old
                                    && optN_neqb old None
                        | None => false end
                    | _, _ => false end
                end
            end
     | _ => true end) (all_msgs ob).

Definition no_trans_msgs (ob : obs) : bool :=
  forallb (fun e => match snd e with STransient _ => false | _ => true end) (all_msgs ob).
Definition tdata_unchanged (pd dg : digest) : bool := mset_eqb tdata_eqb pd.(g_transient) dg.(g_transient).
(* the request asks for what is already the case: the value the key has / a key that is absent *)
Definition trans_noop (d : list (N * N)) (del : bool) (key val : N) : bool :=
  if del || N.eqb val 0 then optN_eqb (aget d key) None else optN_eqb (aget d key) (Some val).
Definition trans_result (d : list (N * N)) (del : bool) (key val : N) : list (N * N) :=
  if del || N.eqb val 0 then adel d key else aset d key val.
Definition transient_allowed (s : sd) : bool := is_internal_d s || perm_d s 5.

(* clauses 3 (c), 4 (d), 5: requests.  quiescent: a backend request is delivered within its own step *)
Definition step_trans_req (quiescent : bool) (pd : digest) (o : op) (ob : obs) (dg : digest) : N :=
  match o with
  | OTransient c kindn key val =>
      match sd_of_conn pd c with
      | None => 0                                     (* before hello: C01 *)
      | Some s =>
          let refused code :=
            if list_eqb (fun a b => N.eqb (fst a) (fst b) && smsg_eqb (snd a) (snd b)) (all_msgs ob) [(c, SError code)]
               && digest_match dg pd then 0 else 4 in
          match s.(d_room) with
          | None => refused 17
          | Some k =>
              if 2 <=? kindn then refused 18
              else if negb (transient_allowed s) then refused 14
              else
                let del := N.eqb kindn 1 in
                if trans_noop (tdata_of pd k) del key val
                then (if no_trans_msgs ob && digest_match dg pd then 0 else 3)
                else if data_eqb (tdata_of dg k) (trans_result (tdata_of pd k) del key val) then 0 else 5
          end
      end
  | OApi b signas room (ATransient del key val) =>
      if negb quiescent then 0
      else if negb (N.eqb b signas) then (if no_trans_msgs ob && tdata_unchanged pd dg then 0 else 4)
      else
        match room_entry pd (b, room) with
        | None => if no_trans_msgs ob && tdata_unchanged pd dg then 0 else 4      (* a room nobody is in: nothing to change *)
        | Some _ =>
            if trans_noop (tdata_of pd (b, room)) del key val
            then (if no_trans_msgs ob && tdata_unchanged pd dg then 0 else 3)
            else if data_eqb (tdata_of dg (b, room)) (trans_result (tdata_of pd (b, room)) del key val) then 0 else 5
        end
  | _ => 0
  end.

(* clause 6: nothing else changes the data of a room: a room that stays keeps its data, a room that appears (or was
   emptied and created again in this step: no member in common) starts without *)
Definition trans_op (quiescent : bool) (o : op) : bool :=
  match o with
  | OTransient _ _ _ _ => true
  | OApi _ _ _ (ATransient _ _ _) => true
  | ODeliver _ => negb quiescent
  | _ => false end.
Definition tdata_kept (pd dg : digest) : bool :=
  forallb (fun e => let '(k, m, _) := e in
     match room_entry pd k with
     | Some (m0, _) => data_eqb (tdata_of dg k) (tdata_of pd k)
                       || (data_eqb (tdata_of dg k) [] && forallb (fun x => negb (nmem x m0)) m)
     | None => data_eqb (tdata_of dg k) [] end) dg.(g_rooms)
  (* and the digest lists data only for rooms that exist *)
  && forallb (fun e => match room_entry dg (fst e) with Some _ => true | None => data_eqb (snd e) [] end) dg.(g_transient).

Definition step_C14 (quiescent : bool) (broken : list N) (pd : digest) (tviews : alist (option (N * list (N * N))))
                    (o : op) (ob : obs) (dg : digest) : N :=
  if negb (tdata_ok broken dg tviews) then 1
  else if negb (trans_to_members pd dg o ob) then 2
  else match step_trans_req quiescent pd o ob dg with
       | 0 => if trans_op quiescent o || tdata_kept pd dg then 0 else 6
       | n => n end.

(* ------------------------------------------------------------------ participants lists (C19, C04) *)
(* "A virtual session disappears from the room when it is removed or when its internal client's session ends":
   a participants update for a room does not list a virtual session that was in that room and is gone - it was
   there before the step or is there after it.  (What else an update lists is the backend's business: the
   server repeats the list the backend sent last.)  Exempt: what a resume writes to the resuming connection -
   that is the queue of the time the session was away, replayed in order, leave events included.  Only judged
   in the quiescent semantics (a delayed delivery shows an old list, by definition). *)
Definition virt_was_in (virt : list (N * (N * N))) (sid : N) (k : N * N) : bool :=
  existsb (fun e => N.eqb (fst e) sid && pair_eqb (snd e) k) virt.
Definition part_ok (virt : list (N * (N * N))) (pd dg : digest) (o : op) (ob : obs) : bool :=
  forallb (fun e =>
     let '(c, m) := e in
     match m with
     | SPartL _ room ids =>
         match o with
         | OHello c' (HResume _) => N.eqb c c'
         | _ => false end
         || match receiver_backend pd dg c with
            | Some b => forallb (fun i => negb (virt_was_in virt i (b, room)) || live pd i || live dg i) ids
            | None => true end
     | _ => true end) (all_msgs ob).
Definition virt_next (virt : list (N * (N * N))) (dg : digest) : list (N * (N * N)) :=
  fold_left (fun acc x => match x.(d_room) with
                          | Some k => if is_virtual_d x && negb (virt_was_in acc x.(d_sid) k) then acc ++ [(x.(d_sid), k)] else acc
                          | None => acc end) dg.(g_sessions) virt.

(* ------------------------------------------------------------------ running the clauses over a trace *)
Record pcfg := mkpcfg { pc_limits : list N; pc_quiescent : bool }.

Definition ps_next (ps : pstate) (o : op) (ob : obs) (dg : digest) : pstate :=
  let pd := ps.(ps_prev) in
  let q1 := update_queue_b ps.(ps_broken) pd o ps.(ps_queue) in
  let br0 := match wfail_of pd o with Some c => nadd c ps.(ps_broken) | None => ps.(ps_broken) end in
  (* a connection that was cut and is still attached to its session in the server's tables (its handler is inside a
     request): the server can no longer write to it *)
  let br1 := match o with
             | ODrop c => match sd_of_conn dg c with Some _ => nadd c br0 | None => br0 end
             | _ => br0 end in
  let gone c := match o with ODrop c' => N.eqb c c' | _ => false end || nmem c ob.(o_closed) in
  let conns := filter (fun c => negb (gone c))
                 (match o with OConnect c _ => nadd c ps.(ps_conns) | _ => ps.(ps_conns) end) in
  let dm0 := match doomed_of ps.(ps_conns) pd o with Some c => nadd c ps.(ps_doomed) | None => ps.(ps_doomed) end in
  (* a doomed connection that got a session: the server cannot write to it (any more) *)
  let br1 := fold_left (fun acc c => match sd_of_conn dg c with Some _ => nadd c acc | None => acc end) dm0 br1 in
  let dm1 := filter (fun c => negb (gone c) && match sd_of_conn dg c with Some _ => false | None => true end) dm0 in
  let br2 := filter (fun c => match sd_of_conn dg c with Some _ => true | None => false end) br1 in
  (* a successful resume empties the queue of that session; ended sessions are forgotten *)
  let q2 := match o with
            | OHello c (HResume (IdPriv n)) =>
                match sd_of_conn dg c with
                | Some x => if N.eqb x.(d_sid) n
                            then if nmem c ps.(ps_doomed) && match sd_of_conn pd c with None => true | Some _ => false end
                                 then (* cut while the queue was flushed: what was not received is still owed *)
                                      aset q1 n (skipn (length (smsg_tags (recv_of ob c))) (match aget q1 n with Some l => l | None => [] end))
                                 else adel q1 n
                            else q1
                | None => q1 end
            | _ => q1 end in
  mkps dg (update_views pd dg ob ps.(ps_view)) (filter (fun e => live dg (fst e)) q2) br2 (virt_next ps.(ps_virt) dg)
       (update_tviews pd dg ob ps.(ps_tdata)) conns dm1.

(* clause numbers reported with a failure *)
Definition check_step (which : N) (cfg : pcfg) (last : bool) (ps : pstate) (o : op) (ob : obs) (dg : digest) : N :=
  let pd := ps.(ps_prev) in
  let nb := nlen cfg.(pc_limits) in
  let views := update_views pd dg ob ps.(ps_view) in
  match which with
  | 1 => if step_C01 nb pd o ob dg then 0 else 1
  | 3 => if step_C03 pd o ob dg then 0 else 1
  | 4 => if negb (digest_C04 dg) then 1
         (* observers are compared once activity stopped: after every op in the quiescent
            semantics, at the end of a history with explicit deliveries *)
         else if (cfg.(pc_quiescent) || last) && negb (observers_ok_b ps.(ps_broken) dg views) then 2
         else if cfg.(pc_quiescent) && negb (part_ok ps.(ps_virt) pd dg o ob) then 3 else 0
  | 5 => if negb cfg.(pc_quiescent) || step_C05 pd o ob then 0 else 1
  | 6 => if negb cfg.(pc_quiescent) || step_C06 ps o ob dg then 0 else 1
  | 7 => if digest_C07 cfg.(pc_limits) dg then 0 else 1
  | 8 => if negb (step_C08 pd o ob dg) then 1 else if negb (step_C08_gate pd o ob) then 2 else 0
  | 9 => if digest_C09 dg then 0 else 1
  | 19 => if negb (digest_C19 dg) then 1 else if negb (step_C19 pd o ob dg) then 2
          else if cfg.(pc_quiescent) && negb (part_ok ps.(ps_virt) pd dg o ob) then 3
          else if cfg.(pc_quiescent) && negb (virtuals_seen_b ps.(ps_broken) dg views) then 4
          else if cfg.(pc_quiescent) && negb (step_C19_msg pd o ob) then 5 else 0
  | 14 => step_C14 cfg.(pc_quiescent) ps.(ps_broken) pd (update_tviews pd dg ob ps.(ps_tdata)) o ob dg
  | _ => 0
  end.

Fixpoint check_trace (which : N) (cfg : pcfg) (i : N) (ps : pstate) (tr : trace) : option (N * N) :=
  match tr with
  | [] => None
  | (o, ob, dg) :: r =>
      match check_step which cfg (match r with [] => true | _ => false end) ps o ob dg with
      | 0 => check_trace which cfg (i + 1) (ps_next ps o ob dg) r
      | clause => Some (i, clause)
      end
  end.

Definition P_hub (which : N) (c : hcase) : option (N * N) :=
  check_trace which (mkpcfg c.(k_limits) (negb (N.eqb c.(k_mode) 2))) 0 ps_init c.(k_trace).

(* ---- the same clauses judged against the state the specification prescribes ----
   Once the implementation's tables differ from the model's, the clauses above (which read
   "permissions as last set", "currently in the call", "member of the room" from the implementation's
   own tables) no longer judge the property but the implementation's consistency with itself.  The
   model is proved to satisfy the property and agreed with the implementation up to the first
   difference, so its state is the state the property prescribes: the implementation's observations
   are judged against it.  Only evaluated for cases in which model and implementation differ. *)
Definition hold_ok (md dg : digest) : bool :=
  forallb (fun x => is_virtual_d x ||
     match find_sd md x.(d_sid) with
     | Some y => (negb (N.testbit x.(d_pubs) 2) || perm_d y 2) &&
                 (negb (N.testbit x.(d_pubmedia) 0) || perm_d y 3 || perm_d y 0) &&
                 (negb (N.testbit x.(d_pubmedia) 1) || perm_d y 3 || perm_d y 1)
     | None => true end) dg.(g_sessions).

Definition check_step_spec (which : N) (cfg : pcfg) (last : bool) (ps : pstate) (md md' : digest) (o : op) (ob : obs) (dg : digest) : N :=
  let ps' := mkps md ps.(ps_view) ps.(ps_queue) ps.(ps_broken) ps.(ps_virt) ps.(ps_tdata) ps.(ps_conns) ps.(ps_doomed) in
  match check_step which cfg last ps' o ob dg with
  | 0 => match which with
         | 4 => if (cfg.(pc_quiescent) || last) && negb (observers_ok_b ps.(ps_broken) md' (update_views md dg ob ps.(ps_view))) then 12 else 0
         | 8 => if hold_ok md' dg then 0 else 13
         (* nothing is open, or held, in the implementation that the model has closed ("outlives its owner") *)
         | 9 => if forallb (fun x => match find_sd md' x.(d_sid) with
                                     | Some y => N.eqb (N.lor x.(d_pubs) y.(d_pubs)) y.(d_pubs) && (x.(d_nsubs) <=? y.(d_nsubs))
                                     | None => true end) dg.(g_sessions)
                   && (negb (N.eqb dg.(g_mcupending) md'.(g_mcupending)) || (dg.(g_mcuopen) <=? md'.(g_mcuopen)))
                then 0 else 14
         | _ => 0 end
  | n => n
  end.

Fixpoint check_trace_spec (which : N) (cfg : pcfg) (mode i : N) (ps : pstate) (h : hub) (tr : trace) : option (N * N) :=
  match tr with
  | [] => None
  | (o, ob, dg) :: r =>
      let '(h', _) := sem_step mode h o in
      match check_step_spec which cfg (match r with [] => true | _ => false end) ps (digest_of h) (digest_of h') o ob dg with
      | 0 => check_trace_spec which cfg mode (i + 1) (ps_next ps o ob dg) h' r
      | clause => Some (i, clause)
      end
  end.

Definition P_hub_spec (which : N) (c : hcase) : option (N * N) :=
  check_trace_spec which (mkpcfg c.(k_limits) (negb (N.eqb c.(k_mode) 2))) c.(k_mode) 0 ps_init
                   (init c.(k_limits) c.(k_gated)) c.(k_trace).

(* judge of a property's cases: model = implementation?  predicate on the implementation's trace?
   and, where they differ, predicate on the implementation's trace against the prescribed state? *)
Definition judge_hub (which : N) (cs : list hcase) : list (N * N * N) :=
  flat_map (fun c => let d := compare_case c in
                     d ++
                     match P_hub which c with
                     | Some (i, clause) => [(c.(k_id), 2, i * 1000 + clause)]
                     | None => match d with
                               | [] => []
                               | _ => match P_hub_spec which c with
                                      | Some (i, clause) => [(c.(k_id), 4, i * 1000 + clause)]
                                      | None => [] end
                               end
                     end) cs.
