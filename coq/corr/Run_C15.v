(* C15: trace predicates (the property itself, written from its text) and the
   judge used by the generated cases files.  No proofs.

   A case is a list of (operation, observation of the REAL implementation).
   Every operation carries the answers of the real libraries (crypto/hmac,
   crypto/aes+cipher CTR, protobuf) for the queries it makes; they instantiate
   the model's oracles as finite tables keyed by a checksum of the query.
   Verdict codes: 1 model <> implementation, 2 P_C15 false on the
   implementation's trace, 4 harness and Coq disagree about the string an
   operation was applied to (mutation function / transport). *)
From Coq Require Import List Ascii String Bool Arith NArith.
From Verif Require Export lib.B64 model.SessionId.
Import ListNotations.

(* ---- concrete instantiation of the model's type parameters ------------------- *)
Definition ckey := N.                 (* number of a hash key *)
Definition cbkey := N.                (* number of a block key *)
Definition cdata := (N * N)%type.     (* (Sid, number of the SessionIdData value in the harness's table) *)
Definition cdata_eqb (a b : cdata) : bool := N.eqb (fst a) (fst b) && N.eqb (snd a) (snd b).

Definition role_eqb (a b : role) : bool :=
  match a, b with Private, Private | Public, Public => true | _, _ => false end.

(* bytes given as a big-endian number of [len] bytes *)
Fixpoint bx_aux (len : nat) (n : N) (acc : bytes) : bytes :=
  match len with
  | 0%nat => acc
  | S k => bx_aux k (N.shiftr n 8) (ascii_of_N (N.land n 255) :: acc)
  end.
Definition bx (len : nat) (n : N) : bytes := bx_aux len n [].

(* cheap checksum used to key the oracle tables and to cross-check strings *)
Definition chk (l : bytes) : N :=
  fold_left (fun h c => ((h * 33 + N_of_ascii c + 1) mod 1099511627776)%N) l (N.of_nat (List.length l)).

(* ---- mutations of an id ---------------------------------------------------------- *)
Inductive mutation :=
| MId
| MFlip (pos bit : nat)          (* flip bit [bit] (0 = least significant) of byte [pos] *)
| MTrunc (n : nat)               (* keep the first n bytes *)
| MDropFront (n : nat)
| MAppend (b : bytes)
| MInsert (pos : nat) (c : N)    (* insert one byte before position pos *)
| MSet (pos : nat) (c : N)
| MDelete (pos : nat)
| MReverse                       (* the codec's reversal: how a public id is derived from the cookie value *)
| MStdAlphabet                   (* '-' -> '+', '_' -> '/' : base64 standard alphabet *)
| MStripPad                      (* without the trailing '=' *)
| MRecode                        (* decode and encode again *)
| MRespell (v : N).              (* set the unused low bits of the character before the padding to v *)

Definition flip_bit (c : ascii) (bit : nat) : ascii :=
  ascii_of_N (N.lxor (N_of_ascii c) (N.shiftl 1 (N.of_nat bit))).

Fixpoint map_nth (f : ascii -> ascii) (i : nat) (l : bytes) : bytes :=
  match l with
  | [] => []
  | c :: r => match i with 0%nat => f c :: r | S j => c :: map_nth f j r end
  end.
Fixpoint strip_pad_end (l : bytes) : bytes :=
  match l with
  | [] => []
  | c :: r => let r' := strip_pad_end r in
              match r' with [] => if is_pad c then [] else [c] | _ => c :: r' end
  end.

Fixpoint find_pad (i : nat) (l : bytes) : option nat :=
  match l with
  | [] => None
  | c :: r => if is_pad c then Some i else find_pad (S i) r
  end.
Definition respell (v : N) (s : bytes) : bytes :=
  match find_pad 0 s with
  | None | Some 0%nat => s
  | Some (S q) =>
      let free := if Nat.eqb (List.length s - S q) 1 then 4%N else 16%N in     (* 2^(number of unused bits) *)
      map_nth (fun c => match dec_char c with
                        | Some sx => enc_char (sextet_of_N (N_of_sextet sx / free * free + v mod free))
                        | None => c
                        end) q s
  end.

Definition apply_mut (m : mutation) (s : bytes) : bytes :=
  match m with
  | MId => s
  | MFlip pos bit => map_nth (fun c => flip_bit c bit) pos s
  | MTrunc n => firstn n s
  | MDropFront n => skipn n s
  | MAppend b => s ++ b
  | MInsert pos c => firstn pos s ++ ascii_of_N c :: skipn pos s
  | MSet pos c => map_nth (fun _ => ascii_of_N c) pos s
  | MDelete pos => firstn pos s ++ skipn (S pos) s
  | MReverse => match b64dec s with Some b => b64enc (rev b) | None => s end
  | MStdAlphabet => map (fun c => if Ascii.eqb c "-"%char then "+"%char else if Ascii.eqb c "_"%char then "/"%char else c) s
  | MStripPad => strip_pad_end s
  | MRecode => match b64dec s with Some b => b64enc b | None => s end
  | MRespell v => respell v s
  end.

(* where the string handed to a decoder comes from *)
Inductive sspec :=
| SLit (s : string)
| SMut (base : nat) (which : role) (m : mutation).
   (* the id of role [which] that the implementation minted in operation number [base] of this case, mutated *)

(* ---- answers of the real libraries -------------------------------------------------- *)
Record answers := {
  a_mac : list (N * N * bytes);               (* hash key number, chk of the message, HMAC-SHA256 *)
  a_ctr : list (N * N * bytes);               (* block key number, chk of (iv ++ text), keystream-xored text *)
  a_deser : list (N * option cdata);          (* chk of the serialized bytes, result of Unmarshal *)
  a_ser : list (cdata * option bytes)         (* result of Marshal *)
}.
Definition no_answers : answers := {| a_mac := []; a_ctr := []; a_deser := []; a_ser := [] |}.

Fixpoint look2 {A} (k h : N) (l : list (N * N * A)) : option A :=
  match l with
  | [] => None
  | (k', h', v) :: r => if N.eqb k k' && N.eqb h h' then Some v else look2 k h r
  end.
Fixpoint look1 {A} (h : N) (l : list (N * A)) : option A :=
  match l with
  | [] => None
  | (h', v) :: r => if N.eqb h h' then Some v else look1 h r
  end.
Fixpoint lookd {A} (d : cdata) (l : list (cdata * A)) : option A :=
  match l with
  | [] => None
  | (d', v) :: r => if cdata_eqb d d' then Some v else lookd d r
  end.

(* a query that the harness did not foresee gets an answer that no real string
   carries (the empty MAC / keystream) or a failure; that shows as a mismatch *)
Definition oracles_of (a : answers) : oracles ckey cbkey cdata :=
  {| hmac := fun k m => match look2 k (chk m) (a_mac a) with Some x => x | None => [] end;
     ser := fun d => match lookd d (a_ser a) with Some x => x | None => None end;
     deser := fun p => match look1 (chk p) (a_deser a) with Some x => x | None => None end;
     ctr := fun k iv x => match look2 k (chk (iv ++ x)) (a_ctr a) with Some y => y | None => [] end;
     sid_of := fst |}.

Definition kspec := (N * option N)%type.        (* hash key number, block key number *)
Definition ks_of (k : kspec) : keyset ckey cbkey := {| hk := fst k; bk := snd k |}.
Definition kspec_eqb (a b : kspec) : bool :=
  N.eqb (fst a) (fst b) &&
  match snd a, snd b with Some x, Some y => N.eqb x y | None, None => true | _, _ => false end.

(* short constructors for the generated files (arguments get the right number scopes) *)
Definition cd (sid n : N) : cdata := (sid, n).
Definition kx (h : N) : kspec := (h, None).
Definition kb (h b : N) : kspec := (h, Some b).
Definition am (k h : N) (v : bytes) : N * N * bytes := (k, h, v).
Definition ad_some (h : N) (d : cdata) : N * option cdata := (h, Some d).
Definition ad_none (h : N) : N * option cdata := (h, None).
Definition as_some (d : cdata) (p : bytes) : cdata * option bytes := (d, Some p).
Definition as_none (d : cdata) : cdata * option bytes := (d, None).
Definition ce (h : N) (d : cdata) : N * cdata := (h, d).
Definition mkans := Build_answers.

(* ================================================================================= *)
(*  codec level                                                                      *)
(* ================================================================================= *)
Inductive cop :=
| CMint (r : role) (ks : nat) (d : cdata) (ts : string) (iv : bytes) (a : answers)
| CDec (r : role) (ks : nat) (src : sspec) (ck : N) (a : answers)
| CDecLax (r : role) (ks : nat) (src : sspec) (ck : N) (a : answers).
   (* the decoders without the canonical-form check: securecookie's Decode as called by
      DecodePrivate, reverseSessionId + Decode for public ids; compared with the model only *)
Inductive cobs :=
| VId (s : string)
| VData (d : cdata)
| VErr (e : err).

Definition err_eqb (a b : err) : bool :=
  match a, b with
  | ENotCanonical, ENotCanonical | ETooLong, ETooLong | EBase64, EBase64 | EMac, EMac
  | ETimestamp, ETimestamp | EInner, EInner | EDecrypt, EDecrypt | EDeser, EDeser
  | ESer, ESer | EEncTooLong, EEncTooLong => true
  | _, _ => false
  end.
Definition cobs_eqb (a b : cobs) : bool :=
  match a, b with
  | VId x, VId y => beqb (bs x) (bs y)
  | VData x, VData y => cdata_eqb x y
  | VErr x, VErr y => err_eqb x y
  | _, _ => false
  end.

(* ids minted so far by the implementation: operation number -> (private id, public id) *)
Definition minted_tbl := list (nat * (option bytes * option bytes)).
Fixpoint minted_get (i : nat) (t : minted_tbl) : option (option bytes * option bytes) :=
  match t with
  | [] => None
  | (j, v) :: r => if Nat.eqb i j then Some v else minted_get i r
  end.
Definition resolve (t : minted_tbl) (src : sspec) : option bytes :=
  match src with
  | SLit s => Some (bs s)
  | SMut base which m =>
      match minted_get base t with
      | Some (p, q) =>
          match (match which with Private => p | Public => q end) with
          | Some s => Some (apply_mut m s)
          | None => None
          end
      | None => None
      end
  end.

(* ---- the property on a codec trace ---------------------------------------------------
   "Only strings minted by a server holding the same keys decode as session
    ids, and decoding returns exactly the data that was encoded.  Any
    modification of a valid id makes it invalid, a public id never decodes as
    a private id nor the reverse, and ids minted under different keys are
    rejected."
   In a trace the harness is the only party that mints.  So: a decode under
   (role, key set) returns data d for string s  <->  s is, character for
   character, an id minted for that role under a key set with the same keys,
   and d is the data it was minted for. *)
Definition mint_rec := (role * kspec * cdata * bytes)%type.

Definition matches (r : role) (k : kspec) (s : bytes) (m : mint_rec) : bool :=
  let '(r', k', _, s') := m in role_eqb r r' && kspec_eqb k k' && beqb s s'.

Fixpoint P_codec (kss : list kspec) (i : nat) (t : minted_tbl) (ms : list mint_rec)
                 (tr : list (cop * cobs)) : option nat :=       (* index of the first violating step *)
  match tr with
  | [] => None
  | (CMint r ks d _ _ _, ob) :: rest =>
      match ob with
      | VId s =>
          let k := nth ks kss (0%N, None) in
          let e := match r with Private => (Some (bs s), None) | Public => (None, Some (bs s)) end in
          P_codec kss (S i) ((i, e) :: t) ((r, k, d, bs s) :: ms) rest
      | VErr _ => P_codec kss (S i) t ms rest          (* refusing to mint violates nothing *)
      | VData _ => Some i
      end
  | (CDec r ks src _ _, ob) :: rest =>
      let k := nth ks kss (0%N, None) in
      match resolve t src with
      | None => Some i
      | Some s =>
          let ok :=
            match ob with
            | VData d => existsb (fun m => matches r k s m && cdata_eqb d (snd (fst m))) ms
            | VErr _ => negb (existsb (matches r k s) ms)
            | VId _ => false
            end in
          if ok then P_codec kss (S i) t ms rest else Some i
      end
  | (CDecLax _ _ _ _ _, _) :: rest => P_codec kss (S i) t ms rest
  end.

Definition P_C15 (kss : list kspec) (tr : list (cop * cobs)) : bool :=
  match P_codec kss 0 [] [] tr with None => true | Some _ => false end.

(* ---- model on one codec operation --------------------------------------------------------- *)
Definition model_cop (kss : list kspec) (t : minted_tbl) (o : cop) : option cobs * option N :=
  (* (what the model answers, checksum of the string it was applied to) *)
  match o with
  | CMint r ks d ts iv a =>
      let k := ks_of (nth ks kss (0%N, None)) in
      (Some (match encode (oracles_of a) r k (bs ts) iv d with
             | Ok s => VId (string_of_list_ascii s)
             | Err e => VErr e
             end), None)
  | CDec r ks src ck a =>
      let k := ks_of (nth ks kss (0%N, None)) in
      match resolve t src with
      | None => (None, None)
      | Some s => (Some (match decode (oracles_of a) r k s with Ok d => VData d | Err e => VErr e end), Some (chk s))
      end
  | CDecLax r ks src ck a =>
      let k := ks_of (nth ks kss (0%N, None)) in
      match resolve t src with
      | None => (None, None)
      | Some s => (Some (match decode_lax (oracles_of a) r k s with Ok d => VData d | Err e => VErr e end), Some (chk s))
      end
  end.

Fixpoint judge_codec (id : N) (kss : list kspec) (i : nat) (t : minted_tbl) (tr : list (cop * cobs)) : list (N * N * N) :=
  match tr with
  | [] => []
  | (o, ob) :: rest =>
      let '(mo, mck) := model_cop kss t o in
      let here :=
        (match o, mck with
         | CDec _ _ _ ck _, Some c | CDecLax _ _ _ ck _, Some c => if N.eqb ck c then [] else [(id, 4%N, N.of_nat i)]
         | CDec _ _ _ _ _, None | CDecLax _ _ _ _ _, None => [(id, 4%N, N.of_nat i)]
         | _, _ => []
         end) ++
        (match mo with
         | Some v => if cobs_eqb v ob then [] else [(id, 1%N, N.of_nat i)]
         | None => []
         end) in
      let t' := match o, ob with
                | CMint Private _ _ _ _ _, VId s => (i, (Some (bs s), None)) :: t
                | CMint Public _ _ _ _ _, VId s => (i, (None, Some (bs s))) :: t
                | _, _ => t
                end in
      here ++ judge_codec id kss (S i) t' rest
  end.

(* ================================================================================= *)
(*  hub level                                                                        *)
(* ================================================================================= *)
Inductive xop :=
| XRegister (d : cdata) (ts1 : string) (iv1 : bytes) (ts2 : string) (iv2 : bytes) (a : answers)
| XRemove (sid : N)
| XLookup (r : role) (src : sspec) (ck : N) (a : answers)
| XResume (src : sspec) (ck : N) (a : answers)
| XDecode (r : role) (src : sspec) (ck : N) (a : answers)   (* Hub.decodePrivateSessionId / decodePublicSessionId *)
| XDump                                            (* read the decode caches *)
(* ids made by the other request path, the cache operations by themselves, hub and codec side by side *)
| XAddSession (d : cdata) (ts1 : string) (iv1 : bytes) (ts2 : string) (iv2 : bytes) (a : answers)
                                                   (* internal client: addsession; the ids of the virtual session *)
| XBoth (r : role) (src : sspec) (ck : N) (a : answers)
                                                   (* the hub's decoder of role r, then hub.cookie.DecodePrivate /
                                                      DecodePublic (no cache), on the same string *)
| XPrefill (r : role) (src : sspec) (ck : N) (a : answers)
                                                   (* setDecodedSessionId(string, name of r, what the codec answers
                                                      for it); nothing when the codec refuses the string *)
| XInvalidate (r : role) (src : sspec) (ck : N).   (* invalidateSessionId(string, name of r) *)
Inductive xobs :=
| WIds (priv pub : string)
| WFailed
| WNone
| WFound (sid : N) | WNotFound
| WData (d : cdata) | WNoData                      (* the hub's decoder returned that data / nil *)
| WCaches (l : list (list (N * cdata)))            (* per cache, most recently used first: (chk of the key, data) *)
| WBoth (hubd codecd : option cdata).              (* XBoth: the hub's decoder returned / the codec returned (None: nil / an error) *)

Definition dump_eqb (a b : list (list (N * cdata))) : bool :=
  (fix go (a b : list (list (N * cdata))) :=
     match a, b with
     | [], [] => true
     | x :: a', y :: b' =>
         (fix go2 (x y : list (N * cdata)) :=
            match x, y with
            | [], [] => true
            | (h, d) :: x', (h', d') :: y' => N.eqb h h' && cdata_eqb d d' && go2 x' y'
            | _, _ => false
            end) x y && go a' b'
     | _, _ => false
     end) a b.

Definition xobs_eqb (a b : xobs) : bool :=
  match a, b with
  | WIds p q, WIds p' q' => beqb (bs p) (bs p') && beqb (bs q) (bs q')
  | WFailed, WFailed | WNone, WNone | WNotFound, WNotFound => true
  | WFound x, WFound y => N.eqb x y
  | WData x, WData y => cdata_eqb x y
  | WNoData, WNoData => true
  | WCaches x, WCaches y => dump_eqb x y
  | WBoth a b, WBoth a' b' =>
      let oeq := fun (x y : option cdata) => match x, y with
                                             | Some u, Some v => cdata_eqb u v | None, None => true | _, _ => false end in
      oeq a a' && oeq b b'
  | _, _ => false
  end.

Definition xobs_of_hout (o : hout cdata) : xobs :=
  match o with
  | HData d => WData d
  | HNoData => WNoData
  | HIds p q => WIds (string_of_list_ascii p) (string_of_list_ascii q)
  | HFailed => WFailed
  | HNone => WNone
  | HFound s => WFound s
  | HNotFound => WNotFound
  end.

Definition hub_dump (h : hub cdata) : list (list (N * cdata)) :=
  map (map (fun e => (chk (fst e), snd e))) (caches h).

Definition model_xop (k : kspec) (t : minted_tbl) (h : hub cdata) (o : xop) : hub cdata * option xobs * option N :=
  match o with
  | XRegister d ts1 iv1 ts2 iv2 a =>
      let '(h', v) := hub_step (oracles_of a) (ks_of k) h (HRegister d (bs ts1) iv1 (bs ts2) iv2) in
      (h', Some (xobs_of_hout v), None)
  | XRemove sid =>
      let '(h', v) := hub_step (oracles_of no_answers) (ks_of k) h (HRemove sid) in
      (h', Some (xobs_of_hout v), None)
  | XLookup r src ck a =>
      match resolve t src with
      | None => (h, None, None)
      | Some s => let '(h', v) := hub_step (oracles_of a) (ks_of k) h (HLookup r s) in
                  (h', Some (xobs_of_hout v), Some (chk s))
      end
  | XResume src ck a =>
      match resolve t src with
      | None => (h, None, None)
      | Some s => let '(h', v) := hub_step (oracles_of a) (ks_of k) h (HResume s) in
                  (h', Some (xobs_of_hout v), Some (chk s))
      end
  | XDecode r src ck a =>
      match resolve t src with
      | None => (h, None, None)
      | Some s => let '(h', v) := hub_step (oracles_of a) (ks_of k) h (HDecode r s) in
                  (h', Some (xobs_of_hout v), Some (chk s))
      end
  | XDump => (h, Some (WCaches (hub_dump h)), None)
  | XAddSession d ts1 iv1 ts2 iv2 a =>
      let '(h', v) := hub_step (oracles_of a) (ks_of k) h (HAddSession d (bs ts1) iv1 (bs ts2) iv2) in
      (h', Some (xobs_of_hout v), None)
  | XBoth r src ck a =>
      match resolve t src with
      | None => (h, None, None)
      | Some s =>
          let dat := fun (v : hout cdata) => match v with HData d => Some d | _ => None end in
          let '(h1, v1) := hub_step (oracles_of a) (ks_of k) h (HDecode r s) in
          let '(h2, v2) := hub_step (oracles_of a) (ks_of k) h1 (HCodec r s) in
          (h2, Some (WBoth (dat v1) (dat v2)), Some (chk s))
      end
  | XPrefill r src ck a =>
      match resolve t src with
      | None => (h, None, None)
      | Some s =>
          match decode (oracles_of a) r (ks_of k) s with
          | Ok d => let '(h', v) := hub_step (oracles_of a) (ks_of k) h (HPrefill r s d) in
                    (h', Some (xobs_of_hout v), Some (chk s))
          | Err _ => (h, Some WNone, Some (chk s))
          end
      end
  | XInvalidate r src ck =>
      match resolve t src with
      | None => (h, None, None)
      | Some s => let '(h', v) := hub_step (oracles_of no_answers) (ks_of k) h (HInvalidate r s) in
                  (h', Some (xobs_of_hout v), Some (chk s))
      end
  end.

Fixpoint judge_hub (id : N) (k : kspec) (i : nat) (t : minted_tbl) (h : hub cdata) (tr : list (xop * xobs)) : list (N * N * N) :=
  match tr with
  | [] => []
  | (o, ob) :: rest =>
      let '(h', mo, mck) := model_xop k t h o in
      let here :=
        (match o, mck with
         | XLookup _ _ ck _, Some c | XResume _ ck _, Some c | XDecode _ _ ck _, Some c
         | XBoth _ _ ck _, Some c | XPrefill _ _ ck _, Some c | XInvalidate _ _ ck, Some c =>
             if N.eqb ck c then [] else [(id, 4%N, N.of_nat i)]
         | XLookup _ _ _ _, None | XResume _ _ _, None | XDecode _ _ _ _, None
         | XBoth _ _ _ _, None | XPrefill _ _ _ _, None | XInvalidate _ _ _, None => [(id, 4%N, N.of_nat i)]
         | _, _ => []
         end) ++
        (match mo with
         | Some v => if xobs_eqb v ob then [] else [(id, 1%N, N.of_nat i)]
         | None => []
         end) in
      let t' := match o, ob with
                | XRegister _ _ _ _ _ _, WIds p q | XAddSession _ _ _ _ _ _, WIds p q => (i, (Some (bs p), Some (bs q))) :: t
                | _, _ => t
                end in
      here ++ judge_hub id k (S i) t' h' rest
  end.

(* ---- the property on a hub trace -------------------------------------------------------
   A lookup by id (GetSessionByResumeId, GetSessionByPublicId, hello with a
   resume id) returns a session exactly when the string presented is,
   character for character, the id of that role that was handed out for a
   session that still exists; and then it is that session. *)
Definition live_rec := (N * bytes * bytes)%type.     (* Sid, private id, public id *)

(* "a public id never decodes as a private (resume) id nor the reverse", "only strings
   minted ... decode as session ids, and decoding returns exactly the data that was
   encoded", for the hub's own decoders (decodePrivateSessionId / decodePublicSessionId, the
   functions every lookup, the resume branch of hello and the recipient of a message go
   through).  In a hub trace the registrations are the only mints (the generators apply the
   decoders to handed-out ids, mutated or not, under either role, and to texts never minted):
   the decoder of role r returns data d for string s  <->  s is, character for character, the
   id of role r handed out by a registration of this trace (its session may be gone: the id
   stays a minted id), and d is the data of that registration. *)
Definition hand_rec := (role * bytes * cdata)%type.
Definition hand_hit (r : role) (s : bytes) (e : hand_rec) : bool :=
  let '(r', s', _) := e in role_eqb r r' && beqb s s'.
Definition decode_ok (hs : list hand_rec) (r : role) (s : bytes) (ob : xobs) : bool :=
  match ob with
  | WData d => existsb (fun e => hand_hit r s e && cdata_eqb d (snd e)) hs
  | WNoData => negb (existsb (hand_hit r s) hs)
  | _ => false
  end.

Fixpoint P_hub_go (i : nat) (t : minted_tbl) (live : list live_rec) (hs : list hand_rec)
                  (tr : list (xop * xobs)) : option nat :=
  match tr with
  | [] => None
  | (o, ob) :: rest =>
      let lookup_ok (r : role) (src : sspec) :=
        match resolve t src with
        | None => false
        | Some s =>
            let hit := fun (e : live_rec) => let '(sid, p, q) := e in
                         beqb s (match r with Private => p | Public => q end) in
            match ob with
            | WFound sid => existsb (fun e => hit e && N.eqb (fst (fst e)) sid) live
            | WNotFound => negb (existsb hit live)
            | _ => false
            end
        end in
      match o with
      | XRegister d _ _ _ _ _ | XAddSession d _ _ _ _ _ =>
          match ob with
          | WIds p q => P_hub_go (S i) ((i, (Some (bs p), Some (bs q))) :: t)
                                 ((fst d, bs p, bs q) :: filter (fun e => negb (N.eqb (fst (fst e)) (fst d))) live)
                                 ((Private, bs p, d) :: (Public, bs q, d) :: hs) rest
          | WFailed => P_hub_go (S i) t live hs rest
          | _ => Some i
          end
      | XRemove sid => P_hub_go (S i) t (filter (fun e => negb (N.eqb (fst (fst e)) sid)) live) hs rest
      | XLookup r src _ _ => if lookup_ok r src then P_hub_go (S i) t live hs rest else Some i
      | XResume src _ _ => if lookup_ok Private src then P_hub_go (S i) t live hs rest else Some i
      | XDecode r src _ _ =>
          match resolve t src with
          | Some s => if decode_ok hs r s ob then P_hub_go (S i) t live hs rest else Some i
          | None => Some i
          end
      | XDump => P_hub_go (S i) t live hs rest
      (* hub and codec side by side: the codec's answer is the data the string was minted with (for that
         role; nothing for any other string), and the hub's answer is the codec's answer *)
      | XBoth r src _ _ =>
          match resolve t src, ob with
          | Some s, WBoth hv cv =>
              let w := fun (x : option cdata) => match x with Some d => WData d | None => WNoData end in
              if decode_ok hs r s (w cv) && xobs_eqb (w hv) (w cv) && decode_ok hs r s (w hv)
              then P_hub_go (S i) t live hs rest else Some i
          | _, _ => Some i
          end
      (* the cache operations by themselves have nothing to answer *)
      | XPrefill _ _ _ _ | XInvalidate _ _ _ =>
          match ob with WNone => P_hub_go (S i) t live hs rest | _ => Some i end
      end
  end.
Definition P_C15_hub (tr : list (xop * xobs)) : bool :=
  match P_hub_go 0 [] [] [] tr with None => true | Some _ => false end.

(* ================================================================================= *)
(*  hubs built from their configuration (NewHub)                                     *)
(* ================================================================================= *)
(* A configuration is the pair of texts of the options hashkey and blockkey of section
   [sessions].  The key set of the hub is what model.SessionId.config_keyset makes of them;
   a key is numbered by its own bytes (injective: key_num), so two configurations get the same
   kspec exactly when the model gives them the same key set. *)
Definition key_num (b : bytes) : N := fold_left (fun n c => (n * 256 + N_of_ascii c)%N) b 1%N.
Definition cfg := (bytes * bytes)%type.
Definition cfg_kspec (c : cfg) : option kspec :=
  match config_keyset (fst c) (snd c) with
  | Some ks => Some (key_num (hk ks), option_map key_num (bk ks))
  | None => None
  end.
(* a configuration that NewHub refuses has no hub: the place in the list of key sets is filled
   with a key set no hub has (key numbers are >= 1) and no operation may name it *)
Definition no_kspec : kspec := (0%N, None).
Definition cfg_kss (cs : list cfg) : list kspec :=
  map (fun c => match cfg_kspec c with Some k => k | None => no_kspec end) cs.

Fixpoint cfg_built_mismatches (id : N) (j : nat) (cs : list cfg) (built : list bool) : list (N * N * N) :=
  match cs, built with
  | [], [] => []
  | c :: cs', b :: built' =>
      (if Bool.eqb (match cfg_kspec c with Some _ => true | None => false end) b then [] else [(id, 1%N, N.of_nat j)])
      ++ cfg_built_mismatches id (S j) cs' built'
  | _, _ => [(id, 4%N, N.of_nat j)]
  end.

Definition cop_ks (o : cop) : nat :=
  match o with CMint _ ks _ _ _ _ | CDec _ ks _ _ _ | CDecLax _ ks _ _ _ => ks end.
Fixpoint cfg_ops_misplaced (id : N) (i : nat) (cs : list cfg) (tr : list (cop * cobs)) : list (N * N * N) :=
  match tr with
  | [] => []
  | (o, _) :: rest =>
      (match nth_error cs (cop_ks o) with
       | Some c => match cfg_kspec c with Some _ => [] | None => [(id, 4%N, N.of_nat i)] end
       | None => [(id, 4%N, N.of_nat i)]
       end) ++ cfg_ops_misplaced id (S i) cs rest
  end.

(* ================================================================================= *)
(*  cases                                                                            *)
(* ================================================================================= *)
(* mode 0: codec trace, compared with the model only (crafted strings)
   mode 1: codec trace, compared with the model and judged by P_C15
   mode 2: hub trace (ncaches, cache size), compared with the model and judged by P_C15_hub
   mode 3: codec trace on the codecs of hubs that NewHub built from the configurations [cfgs]
           ([built]: NewHub returned a hub / an error); the key sets are the model's reading of
           the configurations; compared with the model and judged by P_C15 *)
Inductive case :=
| CaseCodec (id : N) (mode : N) (kss : list kspec) (tr : list (cop * cobs))
| CaseHub (id : N) (k : kspec) (ncaches size : nat) (tr : list (xop * xobs))
| CaseConfig (id : N) (cfgs : list cfg) (built : list bool) (tr : list (cop * cobs)).

Definition mkcodec := CaseCodec.
Definition mkhub := CaseHub.
Definition mkconfig := CaseConfig.
Definition cf (h b : bytes) : cfg := (h, b).

Definition judge (c : case) : list (N * N * N) :=
  match c with
  | CaseCodec id mode kss tr =>
      judge_codec id kss 0 [] tr ++
      (match mode with
       | 1%N => match P_codec kss 0 [] [] tr with None => [] | Some i => [(id, 2%N, N.of_nat i)] end
       | _ => []
       end)
  | CaseHub id k n size tr =>
      judge_hub id k 0 [] (hub_init n size) tr ++
      (match P_hub_go 0 [] [] [] tr with None => [] | Some i => [(id, 2%N, N.of_nat i)] end)
  | CaseConfig id cfgs built tr =>
      let kss := cfg_kss cfgs in
      cfg_built_mismatches id 0 cfgs built ++ cfg_ops_misplaced id 0 cfgs tr ++
      judge_codec id kss 0 [] tr ++
      (match P_codec kss 0 [] [] tr with None => [] | Some i => [(id, 2%N, N.of_nat i)] end)
  end.

Definition judge_all (cs : list case) : list (N * N * N) := flat_map judge cs.

(* ---- lib/B64.v against encoding/base64: (input, DecodeString, EncodeToString) rows; code 3 ---- *)
Definition optb_eqb (a b : option bytes) : bool :=
  match a, b with Some x, Some y => beqb x y | None, None => true | _, _ => false end.
Fixpoint b64_table_go (i : N) (tbl : list (bytes * option bytes * string)) : list (N * N * N) :=
  match tbl with
  | [] => []
  | (input, dec, enc) :: r =>
      (if optb_eqb (b64dec input) dec && beqb (b64enc input) (bs enc) then [] else [(i, 3%N, 0%N)])
      ++ b64_table_go (N.succ i) r
  end.
Definition b64_table_mismatches := b64_table_go 0.
