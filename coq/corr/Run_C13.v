(* Trace predicate P_C13 (the property itself) and the judge used by the
   generated cases files.  No proofs. *)
From Coq Require Import List ZArith NArith Bool String.
From Verif Require Export model.BackendCfg.
Import ListNotations.

(* What the harness does to the real implementation, and what it sees.
   OInit c    NewBackendConfiguration(c) (static storage)
   OReload c  Reload(c); VPanic = the process died inside the call
   OEvent e   EtcdKeyUpdated / EtcdKeyDeleted on a backendStorageEtcd
   OProbe u   IsUrlAllowed/GetBackend(u) on the running instance AND on an
              instance freshly started from the final configuration (static:
              the last configuration loaded; etcd: the keys and values etcd
              holds after the events, loaded in key order) *)
Inductive op :=
| OInit (c : config)
| OReload (c : config)
| OEvent (e : eop)
| OProbe (u : string).

Inductive out :=
| VOk
| VPanic
| VAns (running fresh : answer).

Definition trace := list (op * out).

Definition proj_eqb (a b : N * N * Z * Z * Z * bool) : bool :=
  let '(i1, s1, l1, m1, c1, k1) := a in
  let '(i2, s2, l2, m2, c2, k2) := b in
  N.eqb i1 i2 && N.eqb s1 s2 && Z.eqb l1 l2 && Z.eqb m1 m2 && Z.eqb c1 c2 && Bool.eqb k1 k2.
Definition answer_eqb (a b : answer) : bool :=
  match a, b with
  | APanic, APanic | ANone, ANone => true
  | ASome x, ASome y => proj_eqb x y
  | _, _ => false
  end.
Definition out_eqb (a b : out) : bool :=
  match a, b with
  | VOk, VOk | VPanic, VPanic => true
  | VAns a1 f1, VAns a2 f2 => answer_eqb a1 a2 && answer_eqb f1 f2
  | _, _ => false
  end.

(* P_C13, from the property text: no reload or event makes the process panic,
   and whatever URL is looked up, the running server answers exactly as a
   freshly started server of the final configuration: accepted or not, and the
   id, secret, session limit and bitrates of the backend it is accepted for. *)
Definition P_C13 (tr : trace) : bool :=
  forallb (fun e => match snd e with
                    | VOk => true
                    | VPanic => false
                    | VAns running fresh => answer_eqb running fresh
                    end) tr.

(* ---- second clause: a URL is accepted only for a backend it belongs to ------------------
   "The set of backend URLs the server accepts, and the secret, limits and bitrates
   tied to each, are exactly those a freshly started server would derive from the
   final configuration."  What is derived from a configuration is said by its
   documentation (server.conf.in): a backend is configured with the URL of a
   Nextcloud instance, and the URLs of that instance are the configured URL itself
   and everything below it.  "Below" stops at a path-segment boundary:
   https://cloud/nextcloud-test is not below https://cloud/nextcloud.  As strings:
   the configured URL with a "/" appended unless it ends in one (a standard port
   written out is dropped, as for the looked-up URL) is a prefix of the looked-up
   URL with a "/" appended unless it ends in one.

   The code meets this since fixes/C13/07 (getBackendLocked matches only where the
   configured URL ends in "/" or the looked-up URL continues with "/"): theorems
   C13_static_owner_trace and C13_etcd_owner_trace, every history.

   P_C13 alone compares the running server with a freshly started one; a lookup
   that is wrong in both in the same way passes it.  This clause looks at every
   accepted answer - of the running and of the fresh instance - by itself: the
   backend named by the answer must be configured, in the final configuration,
   with a URL the looked-up URL belongs to.  The compat backend of the deprecated
   modes (no URL) is not judged. *)
Section Owner.
Context (up : string -> option purl).

(* the configured URL as the clause reads it: slash-terminated, standard port dropped *)
Definition spec_url (cu : string) : option string :=
  let u := add_slash cu in
  match up u with
  | Some p => Some (add_slash (if normalised p then p_nstr p else u))
  | None => None
  end.

Definition belongs_to (cu : string) (p : purl) : bool :=
  match spec_url cu with
  | Some c => String.prefix c (add_slash (n_str p))
  | None => false
  end.

Definition owner_ok (urls : list (N * string)) (probe : string) (a : answer) : bool :=
  match a with
  | ASome x =>
      let '(id, _, _, _, _, compat) := x in
      compat ||
      match up probe with
      | None => false
      | Some p => existsb (fun e => N.eqb (fst e) id && belongs_to (snd e) p) urls
      end
  | _ => true
  end.

Definition owner_out (urls : list (N * string)) (probe : string) (v : out) : bool :=
  match v with
  | VAns running fresh => owner_ok urls probe running && owner_ok urls probe fresh
  | _ => true
  end.

(* id -> configured URL text, static storage: the sections of the ids of the `backends` list *)
Definition cfg_urls (c : config) : list (N * string) :=
  flat_map (fun id => match sec_get id (c_secs c) with Some s => [(id, s_url s)] | None => [] end) (c_ids c).
(* ... etcd: the values etcd holds *)
Definition kv_urls (kv : list (N * option einfo)) : list (N * string) :=
  flat_map (fun e => match snd e with Some i => [(fst e, e_url i)] | None => [] end) kv.

Fixpoint owner_static (cur : list (N * string)) (tr : trace) : bool :=
  match tr with
  | [] => true
  | (o, v) :: r =>
      match o with
      | OInit c | OReload c => owner_static (cfg_urls c) r
      | OProbe u => owner_out cur u v && owner_static cur r
      | OEvent _ => owner_static cur r
      end
  end.

Fixpoint owner_etcd (kv : list (N * option einfo)) (tr : trace) : bool :=
  match tr with
  | [] => true
  | (o, v) :: r =>
      match o with
      | OEvent e => owner_etcd (match e with EPut k x => kv_set k x kv | EDel k => kv_del k kv end) r
      | OProbe u => owner_out (kv_urls kv) u v && owner_etcd kv r
      | _ => owner_etcd kv r
      end
  end.
End Owner.

(* ---- the model run over the same ops ------------------------------------------ *)
Definition oracle (tbl : list (string * purl)) (s : string) : option purl :=
  match find (fun e => String.eqb (fst e) s) tbl with Some e => Some (snd e) | None => None end.

Section Judge.
Context (up : string -> option purl).
(* which model: the repaired code (kinds 0, 1) or the code as it was before
   fixes/C13/01..07 (kinds 2, 3; used to validate the unrepaired model behind the
   `_refuted` theorems against the unrepaired code) *)
Context (rl : sstate -> config -> option sstate).
Context (estep : estate -> eop -> estate).
(* ... and the lookup: with the path-segment boundary test (fixes/C13/07) or as it was *)
Context (bfix : bool).

(* static storage: running state (None after a panic / before OInit) and the last configuration *)
Fixpoint diff_static (i : N) (st : option (sstate * config)) (tr : trace) : option N :=
  match tr with
  | [] => None
  | (o, v) :: r =>
      match o, st with
      | OInit c, _ =>
          if out_eqb v VOk then diff_static (N.succ i) (Some (fresh up c, c)) r else Some i
      | OReload c, Some (s, _) =>
          match rl s c with
          | Some s' => if out_eqb v VOk then diff_static (N.succ i) (Some (s', c)) r else Some i
          | None => if out_eqb v VPanic then diff_static (N.succ i) None r else Some i
          end
      | OProbe u, Some (s, c) =>
          if out_eqb v (VAns (answer_of (lookup_static_with up bfix s u)) (answer_of (lookup_static_with up bfix (fresh up c) u)))
          then diff_static (N.succ i) st r else Some i
      | _, _ => Some i
      end
  end.

(* etcd storage: running state and what etcd holds *)
Fixpoint diff_etcd (i : N) (st : estate) (kv : list (N * option einfo)) (tr : trace) : option N :=
  match tr with
  | [] => None
  | (o, v) :: r =>
      match o with
      | OEvent e =>
          if out_eqb v VOk
          then diff_etcd (N.succ i) (estep st e)
                 (match e with EPut k x => kv_set k x kv | EDel k => kv_del k kv end) r
          else Some i
      | OProbe u =>
          if out_eqb v (VAns (answer_of (lookup_etcd_with up bfix st u)) (answer_of (lookup_etcd_with up bfix (fold_left estep (map (fun e => EPut (fst e) (snd e)) kv) einit) u)))
          then diff_etcd (N.succ i) st kv r else Some i
      | _ => Some i
      end
  end.
End Judge.

(* ---- the traces of the model itself (what the theorems are about) ------------------------
   Any list of ops: an op that does not apply (a reload or probe before the
   first OInit, an etcd event on the static storage and vice versa) is skipped. *)
Section ModelTrace.
Context (up : string -> option purl).

Fixpoint mtrace_static (st : option (sstate * config)) (ops : list op) : trace :=
  match ops with
  | [] => []
  | o :: r =>
      match o, st with
      | OInit c, _ => (o, VOk) :: mtrace_static (Some (fresh up c, c)) r
      | OReload c, Some (s, _) =>
          match reload up s c with
          | Some s' => (o, VOk) :: mtrace_static (Some (s', c)) r
          | None => [(o, VPanic)]
          end
      | OProbe u, Some (s, c) =>
          (o, VAns (answer_of (lookup_static up s u)) (answer_of (lookup_static up (fresh up c) u)))
            :: mtrace_static st r
      | _, _ => mtrace_static st r
      end
  end.

Fixpoint mtrace_etcd (st : estate) (kv : list (N * option einfo)) (ops : list op) : trace :=
  match ops with
  | [] => []
  | o :: r =>
      match o with
      | OEvent e =>
          (o, VOk) :: mtrace_etcd (etcd_step up st e)
                        (match e with EPut k x => kv_set k x kv | EDel k => kv_del k kv end) r
      | OProbe u =>
          (o, VAns (answer_of (lookup_etcd up st u)) (answer_of (lookup_etcd up (fresh_etcd up kv) u)))
            :: mtrace_etcd st kv r
      | _ => mtrace_etcd st kv r
      end
  end.
End ModelTrace.

Definition op_config (o : op) : list config :=
  match o with OInit c | OReload c => [c] | _ => [] end.

(* id, kind (0 static, 1 etcd; 2, 3: the same against the unrepaired model), mode (0: compare with the model only; 1: also
   evaluate P_C13 on the implementation's trace), url table, trace *)
Definition case := (N * N * N * list (string * purl) * trace)%type.
Definition mkcase (id kind mode : N) (tbl : list (string * purl)) (tr : trace) : case :=
  (id, kind, mode, tbl, tr).

(* Verdict codes: 1 = model and implementation differ at that step,
   2 = the implementation's own trace violates P_C13,
   4 = the implementation's own trace violates the second clause (an accepted URL
       does not belong to the backend it was accepted for). *)
Definition owner_clause (kind : N) (tbl : list (string * purl)) (tr : trace) : bool :=
  match kind with
  | 0%N | 2%N => owner_static (oracle tbl) [] tr
  | _ => owner_etcd (oracle tbl) [] tr
  end.

(* the step at which a clause that holds on prefixes first fails (for the report only) *)
Fixpoint first_fail (f : trace -> bool) (n k : nat) (tr : trace) : N :=
  match n with
  | O => N.of_nat k
  | S n' => if f (firstn (S k) tr) then first_fail f n' (S k) tr else N.of_nat k
  end.

Definition judge (c : case) : list (N * N * N) :=
  let '(id, kind, mode, tbl, tr) := c in
  (if (match mode with 0%N => true | _ => owner_clause kind tbl tr end) then []
   else [(id, 4%N, first_fail (owner_clause kind tbl) (List.length tr) 0 tr)]) ++
  (match (match kind with
          | 0%N => diff_static (oracle tbl) (reload (oracle tbl)) true 0 None tr
          | 1%N => diff_etcd (oracle tbl) (etcd_step (oracle tbl)) true 0 einit [] tr
          | 2%N => diff_static (oracle tbl) (reload_unrepaired (oracle tbl)) false 0 None tr
          | _ => diff_etcd (oracle tbl) (etcd_step_unrepaired (oracle tbl)) false 0 einit [] tr
          end) with Some i => [(id, 1%N, i)] | None => [] end) ++
  (if (match mode with 0%N => true | _ => P_C13 tr end) then [] else [(id, 2%N, 0%N)]).

Definition judge_all (cs : list case) : list (N * N * N) := flat_map judge cs.
