(* Shared correspondence machinery for the hub model: observation and digest
   types as the harness prints them, comparison with the model, case runner.
   The property-specific predicates (P_C01, P_C03, ...) are in corr/Run_Cxx.v. *)
From Coq Require Import List NArith Bool.
From Verif Require Export model.Hub.
Import ListNotations.
Open Scope N_scope.

(* ---- what the harness observed after one op ---- *)
Record obs := mkobs {
  o_recv : list (N * list smsg);      (* per connection, in order *)
  o_closed : list N;
  o_breqs : list breq;
  o_mcu : list mcuev;
}.

Record sd := mksd {
  d_sid : N; d_backend : N; d_kind : N; d_user : N; d_authuser : N; d_room : option (N * N); d_rs : N;
  d_conn : option N; d_incall : bool; d_perms : option N; d_pubs : N; d_nsubs : N; d_pending : N;
  d_counted : bool; d_parent : N;
  d_pubmedia : N   (* audio (bit 0) / video (bit 1) carried by the session's non-screen publishers *) }.

Record digest := mkdigest {
  g_sessions : list sd;
  g_rooms : list ((N * N) * list N * list N);
  g_rs1 : list (N * N);
  g_rs2 : list (N * N);
  g_vt : list (N * N * N);
  g_expired : list N;
  g_anonymous : list N;
  g_dialout : list N;
  g_clients : list N;
  g_expect : N;
  g_nbackendroom : N; g_nroom : N; g_nuser : N; g_nsession : N;
  g_mcuopen : N;
  g_mcupending : N;
  g_counts : list N;     (* per configured backend: sessions counted against its limit (Backend.Len()) *)
  g_transient : list ((N * N) * list (N * N));   (* per room: its transient data, key -> value *)
}.

(* ---- equality tests ---- *)
Definition optN_eqb (a b : option N) : bool :=
  match a, b with Some x, Some y => N.eqb x y | None, None => true | _, _ => false end.
Definition rcpt_eqb (a b : rcpt) : bool :=
  match a, b with
  | RcptVirtual x, RcptVirtual y => N.eqb x y
  | RcptSid x, RcptSid y => N.eqb x y
  | RcptOther, RcptOther => true
  | _, _ => false
  end.
Definition optrcpt_eqb (a b : option rcpt) : bool :=
  match a, b with Some x, Some y => rcpt_eqb x y | None, None => true | _, _ => false end.
Fixpoint list_eqb {A} (eq : A -> A -> bool) (a b : list A) : bool :=
  match a, b with
  | [], [] => true
  | x :: r, y :: s => eq x y && list_eqb eq r s
  | _, _ => false
  end.
Definition tmsg_eqb (a b : tmsg) : bool :=
  match a, b with
  | TInit d, TInit d' => list_eqb pair_eqb d d'
  | TSet k v o, TSet k' v' o' => N.eqb k k' && N.eqb v v' && optN_eqb o o'
  | TRemove k o, TRemove k' o' => N.eqb k k' && optN_eqb o o'
  | _, _ => false
  end.
Definition smsg_eqb (a b : smsg) : bool :=
  match a, b with
  | SWelcome, SWelcome => true
  | SHello s u, SHello s' u' => N.eqb s s' && N.eqb u u'
  | SError c, SError c' => N.eqb c c'
  | SBye r, SBye r' => N.eqb r r'
  | SRoom r, SRoom r' => N.eqb r r'
  | SJoin l, SJoin l' => list_eqb pair_eqb l l'
  | SLeave l, SLeave l' => list_eqb N.eqb l l'
  | SMsg k st ss su r t, SMsg k' st' ss' su' r' t' =>
      N.eqb k k' && N.eqb st st' && N.eqb ss ss' && N.eqb su su' && optrcpt_eqb r r' && N.eqb t t'
  | SMedia m f, SMedia m' f' => N.eqb m m' && N.eqb f f'
  | SRoomMsg t, SRoomMsg t' => N.eqb t t'
  | SDisinvite r, SDisinvite r' => N.eqb r r'
  | SRoomDeleted, SRoomDeleted => true
  | SRoomlist k, SRoomlist k' => N.eqb k k'
  | SPart a, SPart a' => N.eqb a a'
  | SPartL a r l, SPartL a' r' l' => N.eqb a a' && N.eqb r r' && list_eqb N.eqb l l'
  | SFlags s f, SFlags s' f' => N.eqb s s' && N.eqb f f'
  | STransient t, STransient t' => tmsg_eqb t t'
  | SDialout r, SDialout r' => N.eqb r r'
  | SOther k, SOther k' => N.eqb k k'
  | _, _ => false
  end.

(* insertion sort on N and on keyed entries: canonical forms *)
Fixpoint ninsert (x : N) (l : list N) : list N :=
  match l with [] => [x] | y :: r => if x <=? y then x :: l else y :: ninsert x r end.
Definition nsort (l : list N) : list N := fold_right ninsert [] l.

Fixpoint sort_join_ins (x : N * N) (l : list (N * N)) : list (N * N) :=
  match l with [] => [x] | y :: r => if fst x <=? fst y then x :: l else y :: sort_join_ins x r end.
Definition sort_join (l : list (N * N)) : list (N * N) := fold_right sort_join_ins [] l.

(* canonical form of a message for comparison: join / leave lists sorted *)
Definition canon (m : smsg) : smsg :=
  match m with
  | SJoin l => SJoin (sort_join l)
  | SLeave l => SLeave (nsort l)
  | STransient (TInit d) => STransient (TInit (sort_join d))     (* the whole data: sorted by key *)
  | _ => m
  end.

(* participants updates are not modelled in detail: excluded on both sides *)
Definition compared (m : smsg) : bool := match m with SPart _ | SPartL _ _ _ => false | _ => true end.

Definition msgs_for (c : N) (outs : list out) : list smsg :=
  flat_map (fun o => match o with ToConn c' m => if N.eqb c c' && compared m then [canon m] else [] | _ => [] end) outs.
Definition conns_of (outs : list out) : list N :=
  flat_map (fun o => match o with ToConn c _ => [c] | _ => [] end) outs.
Definition closed_of (outs : list out) : list N :=
  flat_map (fun o => match o with Closed c => [c] | _ => [] end) outs.
Definition breqs_of (outs : list out) : list breq :=
  flat_map (fun o => match o with ToBackend q => [q] | _ => [] end) outs.
Definition mcu_of (outs : list out) : list mcuev :=
  flat_map (fun o => match o with ToMcu e => [e] | _ => [] end) outs.

Definition impl_msgs_for (c : N) (o : obs) : list smsg :=
  flat_map (fun e => if N.eqb (fst e) c then map canon (filter compared (snd e)) else []) o.(o_recv).

Definition breq_eqb (a b : breq) : bool :=
  let '(a1, a2, a3, a4, a5, a6) := a in let '(b1, b2, b3, b4, b5, b6) := b in
  N.eqb a1 b1 && N.eqb a2 b2 && N.eqb a3 b3 && N.eqb a4 b4 && N.eqb a5 b5 && N.eqb a6 b6.
Definition mcuev_eqb (a b : mcuev) : bool :=
  match a, b with
  | MCreate k t o s p, MCreate k' t' o' s' p' => N.eqb k k' && N.eqb t t' && N.eqb o o' && N.eqb s s' && N.eqb p p'
  | MCreated t, MCreated t' => N.eqb t t'
  | MClose t, MClose t' => N.eqb t t'
  | MFailed t, MFailed t' => N.eqb t t'
  | _, _ => false
  end.

(* multiset equality by removing matches *)
Fixpoint remove_first {A} (eq : A -> A -> bool) (x : A) (l : list A) : option (list A) :=
  match l with
  | [] => None
  | y :: r => if eq x y then Some r else match remove_first eq x r with Some r' => Some (y :: r') | None => None end
  end.
Fixpoint mset_eqb {A} (eq : A -> A -> bool) (a b : list A) : bool :=
  match a with
  | [] => match b with [] => true | _ => false end
  | x :: r => match remove_first eq x b with Some b' => mset_eqb eq r b' | None => false end
  end.

Definition obs_match (o : obs) (outs : list out) : bool :=
  forallb (fun c => list_eqb smsg_eqb (impl_msgs_for c o) (msgs_for c outs)) (map fst o.(o_recv) ++ conns_of outs)
  && mset_eqb N.eqb o.(o_closed) (closed_of outs)
  && mset_eqb breq_eqb o.(o_breqs) (breqs_of outs)
  && mset_eqb mcuev_eqb o.(o_mcu) (mcu_of outs).

(* A housekeeping tick closes every session that is due; the server walks a map, so the order in which
   independent sessions are closed - and with it the order of the resulting notices on a connection - is
   not determined. For ticks the messages of a connection are compared as a multiset. *)
Definition obs_match_unordered (o : obs) (outs : list out) : bool :=
  forallb (fun c => mset_eqb smsg_eqb (impl_msgs_for c o) (msgs_for c outs)) (map fst o.(o_recv) ++ conns_of outs)
  && mset_eqb N.eqb o.(o_closed) (closed_of outs)
  && mset_eqb breq_eqb o.(o_breqs) (breqs_of outs)
  && mset_eqb mcuev_eqb o.(o_mcu) (mcu_of outs).

(* The same holds for a disinvite that ends several sessions at once (a user with two sessions in the room, or
   several listed sessions): each is closed by a goroutine of its own once the notice is written (client.go: `go
   session.Close()`), so the order of the leave notices the others get is not determined either. *)
Definition unordered_op (o : op) : bool :=
  match o with OTick _ | OApi _ _ _ (ADisinvite _ _) => true | _ => false end.

(* More generally: a step that ends two or more sessions (an internal client and its virtual sessions - closed by
   a goroutine that walks a map, clientsession.go closeAndWait -, a kick that takes virtual sessions along) writes
   their leave notices in an order the server does not determine. *)
Definition ends_several (h h' : hub) : bool :=
  match filter (fun e => negb (ahas h'.(h_sessions) (fst e))) h.(h_sessions) with _ :: _ :: _ => true | _ => false end.

(* ---- digest of the model state ---- *)
Definition pending_len (l : list smsg) : N := N.of_nat (length (filter compared l)).
Definition pubs_mask (l : list (N * N)) : N := fold_left (fun acc e => N.lor acc (N.shiftl 1 (fst e))) l 0.

Definition sd_of (h : hub) (e : N * session) : sd :=
  let '(sid, s) := e in
  mksd sid s.(s_backend) (kind_num s.(s_kind))
       (match s.(s_kind) with KVirtual _ _ => s.(s_user) | _ => sess_userid h sid s end)
       (match s.(s_kind) with KVirtual _ _ => 0 | _ => s.(s_user) end)
       s.(s_room) (if is_virtual s.(s_kind) then 0 else s.(s_rs)) s.(s_conn) (in_call h sid s) s.(s_perms) (pubs_mask s.(s_pubs))
       (N.of_nat (length s.(s_subs))) (pending_len s.(s_pending))
       (nmem sid (counted_of h s.(s_backend)))
       (match s.(s_kind) with KVirtual p _ => p | _ => 0 end)
       (fold_left (fun acc e => if N.eqb (fst e) 2 then acc
                                else N.lor acc (N.land (match aget s.(s_pubmedia) (snd e) with Some m => m | None => 0 end) 3))
                  s.(s_pubs) 0).

Definition sd_eqb (a b : sd) : bool :=
  N.eqb a.(d_sid) b.(d_sid) && N.eqb a.(d_backend) b.(d_backend) && N.eqb a.(d_kind) b.(d_kind) &&
  N.eqb a.(d_user) b.(d_user) && N.eqb a.(d_authuser) b.(d_authuser) && opt_pair_eqb a.(d_room) b.(d_room) && N.eqb a.(d_rs) b.(d_rs) &&
  optN_eqb a.(d_conn) b.(d_conn) && Bool.eqb a.(d_incall) b.(d_incall) && optN_eqb a.(d_perms) b.(d_perms) &&
  N.eqb a.(d_pubs) b.(d_pubs) && N.eqb a.(d_nsubs) b.(d_nsubs) && N.eqb a.(d_pending) b.(d_pending) &&
  Bool.eqb a.(d_counted) b.(d_counted) && N.eqb a.(d_parent) b.(d_parent) && N.eqb a.(d_pubmedia) b.(d_pubmedia).

Definition room_entry_eqb (a b : (N * N) * list N * list N) : bool :=
  let '(k, m, i) := a in let '(k', m', i') := b in
  pair_eqb k k' && list_eqb N.eqb (nsort m) (nsort m') && list_eqb N.eqb (nsort i) (nsort i').
Definition tdata_eqb (a b : (N * N) * list (N * N)) : bool :=
  pair_eqb (fst a) (fst b) && list_eqb pair_eqb (sort_join (snd a)) (sort_join (snd b)).
Definition triple_eqb (a b : N * N * N) : bool :=
  let '(x, y, z) := a in let '(x', y', z') := b in N.eqb x x' && N.eqb y y' && N.eqb z z'.

Definition is_client_sess (s : session) : bool := negb (is_virtual s.(s_kind)).

Definition digest_of (h : hub) : digest :=
  mkdigest (map (sd_of h) h.(h_sessions))
           (map (fun e => (fst e, (snd e).(r_members), (snd e).(r_incall))) h.(h_rooms))
           h.(h_rs1) h.(h_rs2)
           (map (fun e => (fst (fst e), snd (fst e), snd e)) h.(h_vtable))
           h.(h_expired) h.(h_anonymous) h.(h_dialout) h.(h_clients)
           (N.of_nat (length (filter (fun e => (snd e).(c_expect)) h.(h_conns))))
           (N.of_nat (length h.(h_rooms)))
           (N.of_nat (length (filter (fun e => is_client_sess (snd e) && match (snd e).(s_room) with Some _ => true | None => false end) h.(h_sessions))))
           (N.of_nat (length (filter (fun e => is_client_sess (snd e) && negb (N.eqb (snd e).(s_user) 0)) h.(h_sessions))))
           (N.of_nat (length h.(h_sessions)))
           (N.of_nat (length h.(h_mcuopen)))
           (N.of_nat (length h.(h_mcupending)))
           (map (fun b => N.of_nat (length (match aget h.(h_counted) b with Some l => l | None => [] end)))
                (map N.of_nat (seq 0 (N.to_nat h.(h_nb)))))
           (map (fun e => (fst e, (snd e).(r_transient))) h.(h_rooms)).

Definition digest_match (a b : digest) : bool :=
  mset_eqb sd_eqb a.(g_sessions) b.(g_sessions) &&
  mset_eqb room_entry_eqb a.(g_rooms) b.(g_rooms) &&
  mset_eqb pair_eqb a.(g_rs1) b.(g_rs1) && mset_eqb pair_eqb a.(g_rs2) b.(g_rs2) &&
  mset_eqb triple_eqb a.(g_vt) b.(g_vt) &&
  mset_eqb N.eqb a.(g_expired) b.(g_expired) && mset_eqb N.eqb a.(g_anonymous) b.(g_anonymous) &&
  mset_eqb N.eqb a.(g_dialout) b.(g_dialout) && mset_eqb N.eqb a.(g_clients) b.(g_clients) &&
  N.eqb a.(g_expect) b.(g_expect) &&
  N.eqb a.(g_nbackendroom) b.(g_nbackendroom) && N.eqb a.(g_nroom) b.(g_nroom) &&
  N.eqb a.(g_nuser) b.(g_nuser) && N.eqb a.(g_nsession) b.(g_nsession) &&
  N.eqb a.(g_mcuopen) b.(g_mcuopen) && N.eqb a.(g_mcupending) b.(g_mcupending) &&
  list_eqb N.eqb a.(g_counts) b.(g_counts) &&
  mset_eqb tdata_eqb a.(g_transient) b.(g_transient).

(* which part of the digest differs (for the report): 1..15 *)
Definition digest_diff (a b : digest) : N :=
  if negb (mset_eqb sd_eqb a.(g_sessions) b.(g_sessions)) then 1
  else if negb (mset_eqb room_entry_eqb a.(g_rooms) b.(g_rooms)) then 2
  else if negb (mset_eqb pair_eqb a.(g_rs1) b.(g_rs1)) then 3
  else if negb (mset_eqb pair_eqb a.(g_rs2) b.(g_rs2)) then 4
  else if negb (mset_eqb triple_eqb a.(g_vt) b.(g_vt)) then 5
  else if negb (mset_eqb N.eqb a.(g_expired) b.(g_expired)) then 6
  else if negb (mset_eqb N.eqb a.(g_anonymous) b.(g_anonymous)) then 7
  else if negb (mset_eqb N.eqb a.(g_dialout) b.(g_dialout)) then 8
  else if negb (mset_eqb N.eqb a.(g_clients) b.(g_clients)) then 9
  else if negb (N.eqb a.(g_expect) b.(g_expect)) then 10
  else if negb (N.eqb a.(g_nbackendroom) b.(g_nbackendroom)) then 11
  else if negb (N.eqb a.(g_nroom) b.(g_nroom)) then 12
  else if negb (N.eqb a.(g_nuser) b.(g_nuser)) then 13
  else if negb (N.eqb a.(g_nsession) b.(g_nsession)) then 14
  else if negb (N.eqb a.(g_mcuopen) b.(g_mcuopen)) then 15
  else if negb (N.eqb a.(g_mcupending) b.(g_mcupending)) then 16
  else if negb (list_eqb N.eqb a.(g_counts) b.(g_counts)) then 17
  else if negb (mset_eqb tdata_eqb a.(g_transient) b.(g_transient)) then 18 else 0.

(* ---- cases ---- *)
Definition trace := list (op * obs * digest).
(* k_inflight: indices of the steps of the trace that lie inside one request of the real hub which the driver holds
   open (a forced schedule: the room join of a connection is held at the fake backend, the connection is cut, other
   ops run, the backend answers).  The model has no state for the inside of a request: such a schedule is written as
   the sequential history it must be equivalent to (the cut as ODrop, ..., the held join last, as an OJoin of the
   connection the session then has); every step's observations are compared with the model's as usual, the tables
   are compared from the step on at which the held request has finished (a connection that is closed while its
   handler is busy stays attached to its session until the handler returns: during those steps the implementation's
   digest shows the session with its old connection and not yet in the expiry list, and the trace predicates, which
   read the implementation's digests, treat that connection as one the server can no longer write to). *)
Record hcase := mkcasef { k_id : N; k_mode : N; k_limits : list N; k_gated : bool; k_trace : trace; k_inflight : list N }.
Notation mkcase a b c d e := (mkcasef a b c d e []).

Definition sem_step (mode : N) (h : hub) (o : op) : hub * list out :=
  if N.eqb mode 2 then step h o else qstep h o.

(* first step at which model and implementation differ: (index, what) with
   what = 1 observations, 100 + k digest part k *)
(* The driver's way of saying "from now on the server's writes to connection c fail, while it still
   believes the client connected" (it shut the write half of the server's socket): an OConnect for a
   connection that exists, which is a no-op of the model. The model has no such state; from that op on
   a case is judged by the trace predicates only (they treat the session as disconnected for delivery:
   what is addressed to it must be queued and delivered, in order, by the next resume). *)
Definition is_wfail (h : hub) (o : op) : option N :=
  match o with
  | OConnect c _ => match aget h.(h_conns) c with Some _ => Some c | None => None end
  | _ => None
  end.

Fixpoint first_diff (mode : N) (infl : list N) (i : N) (h : hub) (tr : trace) : option (N * N) :=
  match tr with
  | [] => None
  | (o, ob, dg) :: r =>
      match is_wfail h o with Some _ => None | None =>
      let '(h', outs) := sem_step mode h o in
      if negb (if unordered_op o || ends_several h h' then obs_match_unordered ob outs else obs_match ob outs) then Some (i, 1)
      else if negb (nmem i infl) && negb (digest_match dg (digest_of h')) then Some (i, 100 + digest_diff dg (digest_of h'))
      else first_diff mode infl (i + 1) h' r
      end
  end.

Definition compare_case (c : hcase) : list (N * N * N) :=
  match first_diff c.(k_mode) c.(k_inflight) 0 (init c.(k_limits) c.(k_gated)) c.(k_trace) with
  | Some (i, what) => [(c.(k_id), if what <? 100 then 1 else 3, i * 1000 + what)]
  | None => []
  end.

(* debugging aid used by the harness when a case fails: the model's view of one step *)
Fixpoint model_run (mode : N) (h : hub) (ops : list op) : list (list out * digest) :=
  match ops with
  | [] => []
  | o :: r => let '(h', outs) := sem_step mode h o in (outs, digest_of h') :: model_run mode h' r
  end.
