(* C14: specification of the transient store, the trace predicate P_C14 (the
   property itself as a decision procedure over (operation, observation)
   traces, written from the property text) and the judge used by the generated
   cases files.  No proofs. *)
From Coq Require Import List ZArith NArith Bool.
From Verif Require Export model.Transient.
Import ListNotations.
Open Scope Z_scope.

(* ---- builders used by the cases files ------------------------------------------- *)
Definition jarr (l : list json) : json := fold_right JACons JANil l.
Definition jobj (l : list (N * json)) : json := fold_right (fun e t => JOCons (fst e) (snd e) t) JONil l.

Definition opt_json_eqb (a b : option json) : bool :=
  match a, b with
  | Some x, Some y => json_eqb x y
  | None, None => true
  | _, _ => false
  end.

(* ---- specification: the store and one deadline per key; the latest request on
        a key governs -------------------------------------------------------------- *)
Record spec := mkSpec { sdata : dmap; sdl : key -> option Z; snow : Z }.
Definition spec_init : spec := mkSpec [] (fun _ => None) 0.

(* a request that stores v under k with time-to-live ttl (none if ttl <= 0) *)
Definition spec_put (a : spec) (k : key) (v : json) (ttl : Z) : spec :=
  mkSpec (dset (sdata a) k v) (upd (sdl a) k (if ttl <=? 0 then None else Some (snow a + ttl))) (snow a).
Definition spec_del (a : spec) (k : key) : spec :=
  mkSpec (ddel (sdata a) k) (upd (sdl a) k None) (snow a).
(* has the time-to-live of k passed at time t *)
Definition expired (a : spec) (t : Z) (k : key) : bool :=
  match sdl a k with Some d => d <=? t | None => false end.

Definition spec_step (a : spec) (o : op) : spec :=
  match o with
  | OSet k None _ => spec_del a k
  | OSet k (Some v) ttl => spec_put a k v ttl
  | OCas k old (Some v) ttl =>                 (* old = None: only if the key is absent *)
      if opt_json_eqb (dget (sdata a) k) old then spec_put a k v ttl else a
  | OCas k old None _ | OCasRemove k old =>
      match old with
      | Some o => if opt_json_eqb (dget (sdata a) k) (Some o) then spec_del a k else a
      | None => a
      end
  | ORemove k => spec_del a k
  | OAddL _ | ORemoveL _ => a
  | OFireLate _ => a                           (* a superseded timer has no say *)
  | OAdvance dt =>
      if dt <? 0 then a
      else let t := snow a + dt in
           mkSpec (filter (fun e => negb (expired a t (fst e))) (sdata a))
                  (fun k => if expired a t k then None else sdl a k) t
  end.

(* ---- observations ------------------------------------------------------------------
   per operation: the return value (false for methods without one), the
   messages sent to listeners during the operation (the harness and the judge
   order them by listener, keeping each listener's order), GetData() afterwards *)
Definition obs := (bool * outs * dmap)%type.
Definition trace := list (op * obs).

Definition msgs_for (l : lid) (o : outs) : list msg :=
  map snd (filter (fun e => N.eqb l (fst e)) o).

(* what a client does with a message *)
Definition apply_msg (r : dmap) (m : msg) : dmap :=
  match m with
  | MInitial d => d
  | MSet k _ v => dset r k v
  | MRemove k _ => ddel r k
  end.
Definition apply_all (r : dmap) (ms : list msg) : dmap := fold_left apply_msg ms r.

(* the replica of listener l along a trace: None while it is not joined; on
   joining it starts from the empty map (what a client has before anything is
   received), then every message it receives is applied in order *)
Definition join_leave (l : lid) (o : op) (r : option dmap) : option dmap :=
  match o with
  | OAddL l' => if N.eqb l' l then Some [] else r
  | ORemoveL l' => if N.eqb l' l then None else r
  | _ => r
  end.
Fixpoint replica (l : lid) (r : option dmap) (tr : list (op * (bool * outs * dmap))) : option dmap :=
  match tr with
  | [] => r
  | (o, (_, ms, _)) :: rest =>
      replica l (option_map (fun x => apply_all x (msgs_for l ms)) (join_leave l o r)) rest
  end.

(* same map (as functions from keys) *)
Definition dmap_sim (a b : dmap) : bool :=
  forallb (fun k => opt_json_eqb (dget a k) (dget b k)) (map fst a ++ map fst b).

Definition is_remove_of (k : key) (m : msg) : bool :=
  match m with MRemove k' _ => N.eqb k k' | _ => false end.

(* ---- P_C14 -------------------------------------------------------------------------
   State of the checker: the specification state and, for every listener that is
   joined, its replica (what it received on joining, with every later set/remove
   notification applied in order). *)
Record pstate := mkP { p_spec : spec; p_reps : list (lid * dmap) }.
Definition p_init : pstate := mkP spec_init [].

Definition rep_remove (l : lid) (reps : list (lid * dmap)) : list (lid * dmap) :=
  filter (fun e => negb (N.eqb l (fst e))) reps.
Definition joined_after (reps : list (lid * dmap)) (o : op) : list (lid * dmap) :=
  match o with
  | OAddL l => (l, []) :: rep_remove l reps
  | ORemoveL l => rep_remove l reps
  | _ => reps
  end.

(* "setting an unchanged value sends nothing" (and neither does a late callback) *)
Definition silent_ok (a : spec) (o : op) (ms : outs) : bool :=
  match o with
  | OSet k (Some v) _ =>
      if opt_json_eqb (dget (sdata a) k) (Some v) then match ms with [] => true | _ => false end else true
  | OFireLate _ => match ms with [] => true | _ => false end
  | _ => true
  end.

(* "receives the current transient data when it joins" *)
Definition join_ok (a : spec) (o : op) (ms : outs) : bool :=
  match o with
  | OAddL l =>
      match sdata a, msgs_for l ms with
      | [], [] => true
      | _ :: _, [MInitial d] => dmap_sim d (sdata a)
      | _, _ => false
      end
  | _ => true
  end.

(* "disappears (with a notification) once that time has passed" *)
Definition expiry_ok (a : spec) (o : op) (reps : list (lid * dmap)) (ms : outs) : bool :=
  match o with
  | OAdvance dt =>
      if dt <? 0 then true
      else forallb (fun k =>
             negb (expired a (snow a + dt) k) ||
             forallb (fun e => existsb (is_remove_of k) (msgs_for (fst e) ms)) reps)
           (map fst (sdata a))
  | _ => true
  end.

Definition P_step (p : pstate) (e : op * obs) : option pstate :=
  let '(o, (_, ms, snap)) := e in
  let a := p_spec p in
  let a' := spec_step a o in
  let reps0 := joined_after (p_reps p) o in
  let reps1 := map (fun e => (fst e, apply_all (snd e) (msgs_for (fst e) ms))) reps0 in
  if dmap_sim snap (sdata a')                                            (* the store is what the latest requests and the expiries say *)
     && forallb (fun m => existsb (fun e => N.eqb (fst m) (fst e)) reps0) ms   (* only joined listeners are sent anything *)
     && forallb (fun e => dmap_sim (snd e) snap) reps1                    (* every replica reproduces the current data *)
     && silent_ok a o ms && join_ok a o ms && expiry_ok a o reps0 ms
  then Some (mkP a' reps1) else None.

Fixpoint P_from (p : pstate) (tr : trace) : bool :=
  match tr with
  | [] => true
  | e :: r => match P_step p e with Some p' => P_from p' r | None => false end
  end.
Definition P_C14 (tr : trace) : bool := P_from p_init tr.

(* index of the first step at which P_C14 fails *)
Fixpoint P_first (i : N) (p : pstate) (tr : trace) : option N :=
  match tr with
  | [] => None
  | e :: r => match P_step p e with Some p' => P_first (N.succ i) p' r | None => Some i end
  end.

(* concurrent runs: only the replicas are judged.  The log is every message in
   the order it was sent (sending happens under the store's lock); [final] is
   GetData() after all goroutines have finished and every pending timer has
   fired or was stopped.  Every listener of [ls] joined once and did not leave. *)
Definition P_C14_replicas (ls : list lid) (log : outs) (final : dmap) : bool :=
  forallb (fun l => dmap_sim (apply_all [] (msgs_for l log)) final) ls.

(* ---- the model's trace -------------------------------------------------------------- *)
(* messages ordered by listener (stable insertion sort) *)
Fixpoint ins_out (e : lid * msg) (l : outs) : outs :=
  match l with
  | [] => [e]
  | x :: r => if N.leb (fst e) (fst x) then e :: l else x :: ins_out e r
  end.
Definition sort_outs (l : outs) : outs := fold_right ins_out [] l.

Fixpoint trace_from (fixed : bool) (s : state) (ops : list op) : trace :=
  match ops with
  | [] => []
  | o :: r => let '(s', (ret, ms)) := step fixed s o in
              (o, (ret, sort_outs ms, data s')) :: trace_from fixed s' r
  end.
Definition trace_of (fixed : bool) (ops : list op) : trace := trace_from fixed init ops.

(* ---- comparing observations ------------------------------------------------------------ *)
Fixpoint dmap_eqb (a b : dmap) : bool :=
  match a, b with
  | [], [] => true
  | (k, v) :: a', (k', v') :: b' => N.eqb k k' && json_eqb v v' && dmap_eqb a' b'
  | _, _ => false
  end.
Definition msg_eqb (a b : msg) : bool :=
  match a, b with
  | MInitial x, MInitial y => dmap_eqb x y
  | MSet k o v, MSet k' o' v' => N.eqb k k' && opt_json_eqb o o' && json_eqb v v'
  | MRemove k o, MRemove k' o' => N.eqb k k' && json_eqb o o'
  | _, _ => false
  end.
Fixpoint outs_eqb (a b : outs) : bool :=
  match a, b with
  | [], [] => true
  | (l, m) :: a', (l', m') :: b' => N.eqb l l' && msg_eqb m m' && outs_eqb a' b'
  | _, _ => false
  end.
Definition obs_eqb (a b : obs) : bool :=
  let '(r, ms, d) := a in let '(r', ms', d') := b in
  Bool.eqb r r' && outs_eqb ms ms' && dmap_eqb d d'.

(* ---- judging one case of the correspondence run -------------------------------------------
   mode 0 : sequential history; the implementation's observations are compared
            step by step with the model of the repaired code and judged by P_C14
   mode 1 : judged by P_C14 only
   mode 2 : concurrent run: entries (OAddL l, _) name the listeners that are
            joined, one entry (OAdvance 0, (_, log, final)) carries a consistent
            cut; P_C14_replicas only
   verdict codes: 1 model <> implementation, 2 P_C14 false on the
   implementation's trace, 3 reflect.DeepEqual <> json_eqb (extra file) *)
Definition case := (N * N * trace)%type.
Definition mkcase (id mode : N) (tr : trace) : case := (id, mode, tr).

Fixpoint first_diff (i : N) (s : state) (tr : trace) : option N :=
  match tr with
  | [] => None
  | (o, ob) :: r =>
      let '(s', (ret, ms)) := step true s o in
      if obs_eqb ob (ret, sort_outs ms, data s') then first_diff (N.succ i) s' r else Some i
  end.

Definition judge (c : case) : list (N * N * N) :=
  let '(id, mode, tr) := c in
  match mode with
  | 2%N =>
      let ls := flat_map (fun e => match fst e with OAddL l => [l] | _ => [] end) tr in
      flat_map (fun e => match e with
                         | (OAdvance _, (_, log, final)) =>
                             if P_C14_replicas ls log final then [] else [(id, 2%N, 0%N)]
                         | _ => []
                         end) tr
  | _ =>
      (match mode with
       | 0%N => match first_diff 0 init tr with Some i => [(id, 1%N, i)] | None => [] end
       | _ => []
       end) ++
      (match P_first 0 p_init tr with Some i => [(id, 2%N, i)] | None => [] end)
  end.

Definition judge_all (cs : list case) : list (N * N * N) := flat_map judge cs.

(* reflect.DeepEqual on the harness's value pool against structural equality *)
Definition eq_mismatches (vals : list json) (tbl : list (N * N * bool)) : list (N * N * N) :=
  flat_map (fun e => let '(i, j, b) := e in
     if Bool.eqb (json_eqb (nth (N.to_nat i) vals JNull) (nth (N.to_nat j) vals JNull)) b then []
     else [(i, 3%N, j)]) tbl.

(* ---- the three histories that go wrong in the unrepaired code --------------------------- *)
Definition msec : Z := 1000000.
(* the time-to-live is cleared by a later set of the same value *)
Definition h_clear : list op :=
  [OSet 1 (Some (JStr 7)) (50 * msec); OSet 1 (Some (JStr 7)) 0; OAdvance (150 * msec)].
(* the value is replaced and set back without time-to-live *)
Definition h_aba : list op :=
  [OSet 1 (Some (JStr 7)) (50 * msec); OSet 1 (Some (JStr 8)) 0; OSet 1 (Some (JStr 7)) 0; OAdvance (150 * msec)].
(* the time-to-live is extended while the callback of the first timer is
   already waiting for the mutex *)
Definition h_late : list op :=
  [OSet 1 (Some (JStr 7)) (50 * msec); OAdvance (50 * msec - 1); OSet 1 (Some (JStr 7)) (10000 * msec); OFireLate 0; OAdvance (100 * msec)].
