(* Trace predicate P_C11 (the property itself, written from the property text and
   the API documentation docs/standalone-signaling-api-v1.md, not from the
   model) and the judge used by the generated cases files.  No proofs. *)
From Coq Require Import List ZArith NArith String Bool.
From Verif Require Export lib.Json lib.Decode model.RoomApi.
Import ListNotations.
Open Scope string_scope.
Open Scope list_scope.

(* ---- "malformed request", as a reader of the API documentation would say it ------------
   (1) the body is not a JSON document;
   (2) it is not an object;
   (3) a member the protocol defines is there with the wrong kind of value: "type"
       not a string, or the sub-object of *any* request type not an object;
   (4) there is no "type", or it names no request type of the room API;
   (5) the sub-object named after the type is missing (or null);
   (6) "switchto": "sessions" is neither a list of strings nor an object.
   A repeated member name is looked at in every occurrence for (3); the
   *effective* value for (4)-(6) is the last occurrence that is not null (for (6)
   only documents with a single "switchto" and a single "sessions" are judged).
   One direction only is claimed: malformed => 4xx and silence. *)
Definition api_types : list string :=
  ["invite"; "disinvite"; "update"; "delete"; "incall"; "participants"; "message"; "switchto"; "dialout"].

(* all sub-object names the wire format knows (the "transient" one is part of the
   message format although the API rejects the type) *)
Definition sub_names : list string := api_types ++ ["transient"].

Definition wrong_kind_member (ms : members) : bool :=
  existsb (fun v => negb (is_string v)) (nonnull_occurrences "type" ms) ||
  existsb (fun k => existsb (fun v => negb (is_object v)) (nonnull_occurrences k ms)) sub_names.

Definition effective_type (ms : members) : option string :=
  match last_nonnull "type" ms with Some (JStr s) => Some s | _ => None end.

Definition bad_sessions (ms : members) : bool :=
  match occurrences "switchto" ms with
  | [JObj sw] =>
      match occurrences "sessions" sw with
      | [JStr _] | [JNum _] | [JFloat _ _] | [JBool _] => true
      | [JArr l] => existsb (fun x => negb (is_string x || is_null x)) l
      | _ => false
      end
  | _ => false
  end.

Definition malformed_doc (j : json) : bool :=
  match j with
  | JObj ms =>
      wrong_kind_member ms ||
      match effective_type ms with
      | None => true
      | Some ty =>
          negb (existsb (String.eqb ty) api_types) ||
          match nonnull_occurrences ty ms with [] => true | _ => false end ||
          (String.eqb ty "switchto" && bad_sessions ms)
      end
  | _ => true
  end.

Definition malformed (b : body) : bool :=
  match b with BadSyntax => true | Doc j => malformed_doc j end.

(* ---- a second class of requests that must reach no client -----------------------------------
   "In call state of all participants changed" (API documentation):
       {"type": "incall", "incall": {"incall": new-incall-state, "all": true}}
   The new state is the flags value: a number, or (older Talk) a boolean.  A
   request of this form whose "incall" member is missing, null, a string, a list,
   an object, a number with a fractional part or an integer that does not fit 64
   bits names no state: it is malformed in the sense of the property's last
   sentence ("a malformed request causes no event to be sent to clients") although
   the server answers it with 200 rather than 400 - which is why it is a class of
   its own next to [malformed] (whose theorem also promises the 400).
   Judged only when the document has a single "incall" sub-object with a single
   "all": true and at most one "incall" member (repeated names are not judged). *)
Definition float_integral (m e : Z) : bool :=
  ((0 <=? e) || ((m mod (10 ^ (- e))) =? 0))%Z.

Definition unreadable_flags (ic : members) : bool :=
  match occurrences "incall" ic with
  | [] => true
  | [JNum z] => negb ((- 2 ^ 63 <=? z) && (z <=? 2 ^ 63 - 1))%Z
  | [JFloat m e] => negb (float_integral m e)
  | [JBool _] => false
  | [_] => true
  | _ => false
  end.

Definition incall_all_unreadable (j : json) : bool :=
  match j with
  | JObj ms =>
      match effective_type ms with
      | Some ty =>
          String.eqb ty "incall" &&
          match occurrences "incall" ms with
          | [JObj ic] =>
              match occurrences "all" ic with
              | [JBool true] => unreadable_flags ic
              | _ => false
              end
          | _ => false
          end
      | None => false
      end
  | _ => false
  end.

Definition names_no_state (b : body) : bool :=
  match b with BadSyntax => false | Doc j => incall_all_unreadable j end.

(* ---- a third class: user lists that name nobody ----------------------------------------------
   "In call state of participants changed" / "Participants list changed" (API documentation):
       {"type": "incall", "incall": {"incall": state, "changed": [entries], "users": [entries]}}
       {"type": "participants", "participants": {"changed": [entries], "users": [entries]}}
   Every entry is an object describing one participant; "sessionId" is the
   Nextcloud room session id of that participant, "0" meaning "not in the
   meeting".  The server replaces it by the id of the signaling session and drops
   entries it finds no session for.  An entry names somebody only if its
   "sessionId" is a string, not "0", that is the room session id of a session known
   to the server.  A request of one of the two types in which no entry of
   "users" or "changed" names somebody (no "sessionId", one that is not a string,
   "0", an unknown id, an entry that is not an object, lists missing or empty)
   tells nothing about anybody: whatever the server answers, no client must
   receive an event because of it.
   [known]: the room session ids that exist on the server.  Judged when the document
   has a single sub-object of its type; in it *every* occurrence of "users" /
   "changed" must be free of entries naming somebody, every occurrence of
   "sessionId" inside an entry is looked at, and for "incall" no occurrence of
   "all" may be true (that form is the other message of the documentation). *)
Definition names_session (known : list string) (v : json) : bool :=
  match v with
  | JStr s => negb (String.eqb s "0") && existsb (String.eqb s) known
  | _ => false
  end.

Definition entry_names_nobody (known : list string) (e : json) : bool :=
  match e with
  | JObj ems => negb (existsb (names_session known) (occurrences "sessionId" ems))
  | _ => true
  end.

Definition list_names_nobody (known : list string) (v : json) : bool :=
  match v with
  | JArr l => forallb (entry_names_nobody known) l
  | _ => true
  end.

Definition is_true (v : json) : bool := match v with JBool true => true | _ => false end.

Definition sub_names_nobody (known : list string) (incall : bool) (sub : members) : bool :=
  (negb incall || negb (existsb is_true (occurrences "all" sub))) &&
  forallb (list_names_nobody known) (occurrences "users" sub) &&
  forallb (list_names_nobody known) (occurrences "changed" sub).

Definition doc_names_nobody (known : list string) (j : json) : bool :=
  match j with
  | JObj ms =>
      match effective_type ms with
      | Some ty =>
          (String.eqb ty "incall" || String.eqb ty "participants") &&
          match occurrences ty ms with
          | [JObj sub] => sub_names_nobody known (String.eqb ty "incall") sub
          | _ => false
          end
      | None => false
      end
  | _ => false
  end.

Definition names_nobody (known : list string) (b : body) : bool :=
  match b with BadSyntax => false | Doc j => doc_names_nobody known j end.

(* the fixture of the harness: three client sessions (public ids written "@SID@",
   "@SID2@", "@SID3@" in the cases files, the harness substitutes the real ids in
   the request text).
   - the observer, user "c11-user", Nextcloud room session "c11-rs": in the
     addressed room (exists = true, fresh room with the properties the test backend
     hands out) or in some other room (exists = false);
   - a session ELSEWHERE, user "c11-user2", room session "c11-rs2": always in a room
     that is neither the addressed one nor the observer's.  Its room session id
     resolves, so requests for the addressed room can name it;
   - a session in NO room, user "c11-user3": known to the hub, without a room
     session id (only its public id can be written into a request). *)
Definition fixture_sid : string := "@SID@".
Definition fixture_user : string := "c11-user".
Definition fixture_rs : string := "c11-rs".
Definition fixture_sid2 : string := "@SID2@".
Definition fixture_user2 : string := "c11-user2".
Definition fixture_rs2 : string := "c11-rs2".
Definition fixture_sid3 : string := "@SID3@".
Definition fixture_user3 : string := "c11-user3".
Definition fixture_props : json := JObj [("prop1", JStr "value1")].

(* the room session ids that exist during a run of the harness: those of the two
   fixture sessions that are in a room (requests never create any; a deleted room
   takes its sessions' ids with it) *)
Definition run_known : list string := [fixture_rs; fixture_rs2].

(* ---- observations of the implementation ---------------------------------------------------- *)
(* what the harness saw for one request: HTTP status (0 = the connection was closed
   without a reply), did the process die, is the server responsive afterwards, the
   events the observer in the room (or next to it) received, the events the session
   elsewhere received.
   [i_responsive] is a direct observation, made after every request once it was
   answered: (1) the probes that delimit the observer's events came back (an
   "invite" through the user subject; a "participants" request through the Room
   object and the hub's main loop as long as the observer is in a room - whether it
   still is, is read from the hub, not guessed from a missing answer); (2) a
   further room request for the room of the session elsewhere is processed by the
   hub's main loop and its event arrives there; (3) a session can join the addressed
   room and leave it again (needs the lock of that Room object); (4) a new client
   can connect, say hello and good-bye (writers of the hub's tables); (5) the hub's
   and the rooms' tables can be read - each within a bound.  false = "blocked": the
   process lives, but somebody holds a lock for ever or the main loop stands. *)
Record iobs := { i_status : Z; i_died : bool; i_responsive : bool; i_closed : bool; i_events : list evkind;
                 i_events2 : list evkind }.
Definition mkobs2 (status : Z) (died responsive closed : bool) (evs evs2 : list evkind) : iobs :=
  {| i_status := status; i_died := died; i_responsive := responsive; i_closed := closed; i_events := evs;
     i_events2 := evs2 |}.
Definition mkobs (status : Z) (died responsive closed : bool) (evs : list evkind) : iobs :=
  mkobs2 status died responsive closed evs [].

Definition trace := list (body * iobs).

(* no client received anything: neither the observer nor the session elsewhere *)
Definition quiet (o : iobs) : bool :=
  match i_events o, i_events2 o with [], [] => true | _, _ => false end.

(* the property, per request: answered with 2xx or 4xx, server running and
   responsive afterwards (whatever the request was: [i_responsive] has no
   premise), and a malformed request reached no client - neither
   one the server refuses (malformed) nor an "incall all" request that names no
   state (names_no_state) nor an "incall" / "participants" request whose lists name
   nobody (names_nobody) *)
Definition P_one (b : body) (o : iobs) : bool :=
  let c := i_status o in
  (((200 <=? c) && (c <? 300)) || ((400 <=? c) && (c <? 500)))%Z &&
  negb (i_died o) && i_responsive o &&
  (negb (malformed b) || quiet o) &&
  (negb (names_no_state b) || quiet o) &&
  (negb (names_nobody run_known b) || quiet o).

Definition P_C11 (tr : trace) : bool := forallb (fun e => P_one (fst e) (snd e)) tr.

(* ---- comparison with the model ------------------------------------------------------------------ *)
Definition evkind_eqb (a b : evkind) : bool :=
  match a, b with
  | KInvite, KInvite | KDisinvite, KDisinvite | KRoomlistUpdate, KRoomlistUpdate
  | KRoomProps, KRoomProps | KRoomMessage, KRoomMessage | KSwitchTo, KSwitchTo
  | KRoomLeft, KRoomLeft => true
  | KParticipants x, KParticipants y => Z.eqb x y
  | KInCallAll x, KInCallAll y => Z.eqb x y
  | KOther x, KOther y => N.eqb x y
  | _, _ => false
  end.

Fixpoint remove_one (k : evkind) (l : list evkind) : option (list evkind) :=
  match l with
  | [] => None
  | x :: r => if evkind_eqb k x then Some r
              else match remove_one k r with Some r' => Some (x :: r') | None => None end
  end.
(* same events, in any order (they travel on independent subjects) *)
Fixpoint same_events (a b : list evkind) : bool :=
  match a with
  | [] => match b with [] => true | _ => false end
  | k :: r => match remove_one k b with Some b' => same_events r b' | None => false end
  end.

(* a is a sub-multiset of b *)
Fixpoint sub_events (a b : list evkind) : bool :=
  match a with
  | [] => true
  | k :: r => match remove_one k b with Some b' => sub_events r b' | None => false end
  end.
Definition is_disinvite (k : evkind) : bool := match k with KDisinvite => true | _ => false end.

(* A roomlist/disinvite for the room a session is in makes the server close that
   session's connection after sending it (api_signaling.go CloseAfterSend; intended).
   What was queued behind it is not seen by the client any more, so for such a
   step the client's events are compared as a sub-multiset that contains the
   disinvite, and the history of the case ends there. *)
Definition events_agree (st : state) (expected : list evkind) (o : iobs) : bool :=
  if i_closed o then
    st_room st && existsb is_disinvite (i_events o) && sub_events (i_events o) expected
  else same_events expected (i_events o).

(* the fixture state (names above, before P_one) *)
Definition fixture (exists_ numeric : bool) : state := {|
  st_room := exists_;
  st_members := if exists_ then [fixture_sid] else [];
  st_incall := [];
  st_props := if exists_ then Some fixture_props else None;
  st_rs := [(fixture_rs, fixture_sid); (fixture_rs2, fixture_sid2)];
  st_known := [fixture_sid; fixture_sid2; fixture_sid3];
  st_users := [(fixture_sid, fixture_user); (fixture_sid2, fixture_user2); (fixture_sid3, fixture_user3)];
  st_numeric := numeric;
  st_dialout := None
|}.

Definition reply_code (r : reply) : Z := match r with Status c => c | NoReply => 0%Z end.

(* id, does the tree under test contain fixes/C11/01, room exists, room id numeric, trace *)
Definition case := (N * bool * bool * bool * trace)%type.
Definition mkcase (id : N) (fixed exists_ numeric : bool) (tr : trace) : case := (id, fixed, exists_, numeric, tr).

Fixpoint first_diff (fixed : bool) (i : N) (st : state) (tr : trace) : option N :=
  match tr with
  | [] => None
  | (b, o) :: r =>
      let '(st', m) := step fixed st b in
      (* the model has no locks and no goroutines: nothing in it can block, so an
         answered request that did not kill the process leaves the server responsive;
         the session elsewhere keeps its connection, its events are compared exactly *)
      if Z.eqb (reply_code (o_reply m)) (i_status o) && Bool.eqb (o_exit m) (i_died o) &&
         (i_died o || i_responsive o) &&
         (i_died o || events_agree st (events_for st fixture_sid (o_pubs m)) o) &&
         (i_died o || negb (i_responsive o) || same_events (events_for st fixture_sid2 (o_pubs m)) (i_events2 o))
      then (if i_died o || i_closed o then (match r with [] => None | _ => Some (N.succ i) end)
            else first_diff fixed (N.succ i) st' r)
      else Some i
  end.

Fixpoint first_bad (i : N) (tr : trace) : option N :=
  match tr with
  | [] => None
  | (b, o) :: r => if P_one b o then first_bad (N.succ i) r else Some i
  end.

Definition judge (c : case) : list (N * N * N) :=
  let '(id, fixed, exists_, numeric, tr) := c in
  (match first_diff fixed 0 (fixture exists_ numeric) tr with Some i => [(id, 1%N, i)] | None => [] end) ++
  (match first_bad 0 tr with Some i => [(id, 2%N, i)] | None => [] end).

Definition judge_all (cs : list case) : list (N * N * N) := flat_map judge cs.

(* ---- compact constructors for big documents in cases files ------------------------------------ *)
Definition jrep (n : nat) (x : json) : list json := List.repeat x n.
Definition jnest (n : nat) (x : json) : json := Nat.iter n (fun j => JArr [j]) x.

(* ---- translator self-test: the schema read by reflection from the running package
        must be the generated one ------------------------------------------------------------------ *)
Definition field_eqb (a b : string * string * string * bool) : bool :=
  let '(a1, a2, a3, a4) := a in let '(b1, b2, b3, b4) := b in
  String.eqb a1 b1 && String.eqb a2 b2 && String.eqb a3 b3 && Bool.eqb a4 b4.
Fixpoint schema_eqb (a b : list (string * string * string * bool)) : bool :=
  match a, b with
  | [], [] => true
  | x :: r, y :: r' => field_eqb x y && schema_eqb r r'
  | _, _ => false
  end.
Definition schema_mismatches (l : list (N * list (string * string * string * bool) * list (string * string * string * bool)))
  : list (N * N * N) :=
  flat_map (fun e => let '(i, a, b) := e in if schema_eqb a b then [] else [(i, 3%N, 0%N)]) l.
