(* C09 at the level of the real mcuJanus (scenario C09J): observations and digests, the trace predicate
   P_C09J (written from the property text, evaluated on the implementation's own digests) and the judge of
   the generated cases files.  No proofs. *)
From Coq Require Import List NArith Bool.
From Verif Require Export model.Janus.
Import ListNotations.
Open Scope N_scope.

(* ---- what is recorded after every operation --------------------------------------------------
   observation: result of the call, what the listeners were told (any order)
   digest:  d_up       the gateway answers requests of the MCU's Janus session
            d_handles  the handles the gateway holds, each named by the client it was attached for (0 = the MCU's
                       own handle, 999999 = a handle nobody's)
            d_rooms    the rooms the gateway holds, each named by the publisher it was created for
            d_clients  mcu.clients (ids), d_pubs  mcu.publishers ((session, stream) -> id)
            d_objs     every client object ever handed out: id, kind, owner, session, stream, handle != nil, roomId != 0 *)
Record orow := { r_id : N; r_kind : kind; r_owner : N; r_sid : N; r_stream : N; r_hasH : bool; r_hasR : bool }.
Record digest := {
  d_up : bool; d_handles : list N; d_rooms : list N; d_clients : list N;
  d_pubs : list (N * N * N); d_objs : list orow }.
Record obs := { o_res : result; o_events : list event }.
Definition trace := list (op * obs * digest).

Definition row_of (x : client) : orow :=
  {| r_id := c_id x; r_kind := c_kind x; r_owner := c_owner x; r_sid := c_sid x; r_stream := c_stream x;
     r_hasH := negb (hs_is_none (c_handle x)); r_hasR := negb (hs_is_none (c_room x)) |}.
Definition digest_of (st : state) : digest :=
  {| d_up := reachable st; d_handles := g_handles st; d_rooms := g_rooms st; d_clients := m_clients st;
     d_pubs := m_pubs st; d_objs := map row_of (m_objs st) |}.
Definition digest0 : digest := digest_of init.

(* ---- the property as a checker over (operation, observation, digest) traces -----------------------
   Written from the property text (C09: "every publisher and subscriber created at the media server on behalf of
   a session is closed there when ...; at most one publisher exists per session and stream type ...; no unowned
   duplicate stays open"), for the media server's side of a Close:
   (a) a client that was closed -- Close was called by its owner, or the MCU told the listener that it is closed --
       is in no table of the MCU: not in mcu.clients, not the value of a key of mcu.publishers;
   (b) no handle and no room at the gateway belongs to a closed client, except what it had when its Close could not
       be carried out (the gateway was not reachable, or refused the "destroy" / "detach"): that may stay until the
       gateway forgets the session, and is gone after the next reconnect;
   (c) nothing is ever created at the gateway for a closed client (its handles and rooms never become more);
   (d) at most one registered publisher per (session, stream type) -- as long as nobody asked for a second one
       while the first was registered (the callers of mcuJanus, ClientSession, never do: C09_one_publisher_per_stream);
   (e) whenever the gateway is reachable every handle and room it holds belongs to a registered client that was not
       closed (or is the MCU's own handle, or a leftover of (b)): no unowned object.
   The harness observes at quiescence, so nothing is in flight. *)
Record pstate := { p_closed : list N; p_exempt : list N; p_waived : list (N * N) }.
Definition pstate0 : pstate := {| p_closed := []; p_exempt := []; p_waived := [] |}.

Fixpoint countN (x : N) (l : list N) : N :=
  match l with [] => 0 | y :: r => (if N.eqb x y then 1 else 0) + countN x r end.
Definition is_pub (k : kind) : bool := match k with Pub => true | Sub => false end.
Definition closed_events (ev : list event) : list N :=
  flat_map (fun e => match e with EPubClosed c | ESubClosed c => [c] | ESidUpdated _ => [] end) ev.
Definition ids_of_owner (d : digest) (o : N) : list N :=
  map r_id (filter (fun r => N.eqb (r_owner r) o) (d_objs d)).
Definition has_obj (d : digest) (c : N) : bool := existsb (fun r => N.eqb (r_id r) c) (d_objs d).
Definition reg_pub_keys (d : digest) : list (N * N) :=
  map (fun r => (r_sid r, r_stream r)) (filter (fun r => is_pub (r_kind r) && memN (r_id r) (d_clients d)) (d_objs d)).
Fixpoint nodup_keys (waived : list (N * N)) (l : list (N * N)) : bool :=
  match l with
  | [] => true
  | k :: r => (mem_key k waived || negb (mem_key k r)) && nodup_keys waived r
  end.

(* the clients this operation closes (as far as the operation says), and those whose close meets a fault *)
Definition closes (dp : digest) (o : op) : list N :=
  match o with
  | OClose c _ _ => if has_obj dp c then [c] else []
  | OCloseAll ow => ids_of_owner dp ow
  | _ => []
  end.
Definition faulty (dp : digest) (o : op) : list N :=
  match o with
  | OClose c rd rt => if rd || rt || negb (d_up dp) then [c] else []
  | OCloseAll ow => if negb (d_up dp) then ids_of_owner dp ow else []
  | _ => []
  end.

Definition pnext (ps : pstate) (dp : digest) (o : op) (ob : obs) : pstate :=
  {| p_closed := p_closed ps ++ closes dp o ++ closed_events (o_events ob);
     p_exempt := match o with OReconnect _ => [] | _ => p_exempt ps ++ faulty dp o end;
     p_waived := match o with
                 | ONewPub s t _ => if mem_key (s, t) (reg_pub_keys dp) then (s, t) :: p_waived ps else p_waived ps
                 | _ => p_waived ps
                 end |}.

Definition chk_a (ps' : pstate) (d : digest) : bool :=
  forallb (fun c => negb (memN c (d_clients d)) && negb (memN c (map snd (d_pubs d)))) (p_closed ps').
Definition chk_b (ps' : pstate) (d : digest) : bool :=
  forallb (fun c => memN c (p_exempt ps') || (negb (memN c (d_handles d)) && negb (memN c (d_rooms d)))) (p_closed ps').
Definition chk_c (ps' : pstate) (dp d : digest) : bool :=
  forallb (fun c => N.leb (countN c (d_handles d)) (countN c (d_handles dp)) &&
                    N.leb (countN c (d_rooms d)) (countN c (d_rooms dp))) (p_closed ps').
Definition chk_d (ps' : pstate) (d : digest) : bool := nodup_keys (p_waived ps') (reg_pub_keys d).
Definition owned_ok (ps' : pstate) (d : digest) (c : N) : bool :=
  memN c (p_exempt ps') || (memN c (d_clients d) && negb (memN c (p_closed ps'))).
Definition chk_e (ps' : pstate) (d : digest) : bool :=
  if d_up d then
    forallb (fun c => N.eqb c 0 || owned_ok ps' d c) (d_handles d) && forallb (owned_ok ps' d) (d_rooms d)
  else true.

Definition chk_step (ps : pstate) (dp : digest) (o : op) (ob : obs) (d : digest) : bool :=
  let ps' := pnext ps dp o ob in
  chk_a ps' d && chk_b ps' d && chk_c ps' dp d && chk_d ps' d && chk_e ps' d.

Fixpoint P_from (ps : pstate) (dp : digest) (tr : trace) : bool :=
  match tr with
  | [] => true
  | (o, ob, d) :: r => chk_step ps dp o ob d && P_from (pnext ps dp o ob) d r
  end.
Definition P_C09J (tr : trace) : bool := P_from pstate0 digest0 tr.

Fixpoint P_first (i : N) (ps : pstate) (dp : digest) (tr : trace) : option N :=
  match tr with
  | [] => None
  | (o, ob, d) :: r => if chk_step ps dp o ob d then P_first (N.succ i) (pnext ps dp o ob) d r else Some i
  end.

(* ---- the model's own trace ------------------------------------------------------------------------------ *)
Definition obs_of (res : result) (ev : list event) : obs := {| o_res := res; o_events := ev |}.
Fixpoint trace_from (st : state) (ops : list op) : trace :=
  match ops with
  | [] => []
  | o :: r => let '(st', res, ev) := step st o in (o, obs_of res ev, digest_of st') :: trace_from st' r
  end.
Definition trace_of (ops : list op) : trace := trace_from init ops.

(* ---- comparison up to order ------------------------------------------------------------------------------ *)
Fixpoint ins_by {A} (key : A -> N) (x : A) (l : list A) : list A :=
  match l with
  | [] => [x]
  | y :: r => if N.leb (key x) (key y) then x :: l else y :: ins_by key x r
  end.
Definition sort_by {A} (key : A -> N) (l : list A) : list A := fold_right (ins_by key) [] l.
Fixpoint list_eqb {A} (eqb : A -> A -> bool) (a b : list A) : bool :=
  match a, b with
  | [], [] => true
  | x :: r, y :: s => eqb x y && list_eqb eqb r s
  | _, _ => false
  end.
Definition kind_eqb (a b : kind) : bool := match a, b with Pub, Pub | Sub, Sub => true | _, _ => false end.
Definition event_key (e : event) : N :=
  match e with EPubClosed c => 4 * c | ESubClosed c => 4 * c + 1 | ESidUpdated c => 4 * c + 2 end.
Definition event_eqb (a b : event) : bool := N.eqb (event_key a) (event_key b).
Definition result_eqb (a b : result) : bool :=
  match a, b with
  | RNone, RNone | RErrGateway, RErrGateway | RErrTimeout, RErrTimeout => true
  | ROk x, ROk y => N.eqb x y
  | _, _ => false
  end.
Definition obs_eqb (a b : obs) : bool :=
  result_eqb (o_res a) (o_res b) &&
  list_eqb event_eqb (sort_by event_key (o_events a)) (sort_by event_key (o_events b)).
Definition row_eqb (a b : orow) : bool :=
  N.eqb (r_id a) (r_id b) && kind_eqb (r_kind a) (r_kind b) && N.eqb (r_owner a) (r_owner b) &&
  N.eqb (r_sid a) (r_sid b) && N.eqb (r_stream a) (r_stream b) &&
  Bool.eqb (r_hasH a) (r_hasH b) && Bool.eqb (r_hasR a) (r_hasR b).
Definition pub_eqb (a b : N * N * N) : bool := key_eqb (fst a) (fst b) && N.eqb (snd a) (snd b).
Definition pub_key (e : N * N * N) : N := (fst (fst e)) * 4 + snd (fst e).
Definition idN (x : N) : N := x.
Definition digest_eqb (a b : digest) : bool :=
  Bool.eqb (d_up a) (d_up b) &&
  list_eqb N.eqb (sort_by idN (d_handles a)) (sort_by idN (d_handles b)) &&
  list_eqb N.eqb (sort_by idN (d_rooms a)) (sort_by idN (d_rooms b)) &&
  list_eqb N.eqb (sort_by idN (d_clients a)) (sort_by idN (d_clients b)) &&
  list_eqb pub_eqb (sort_by pub_key (d_pubs a)) (sort_by pub_key (d_pubs b)) &&
  list_eqb row_eqb (sort_by r_id (d_objs a)) (sort_by r_id (d_objs b)).

(* first step at which observations (code 1) / digests (code 3) differ *)
Fixpoint first_diff (i : N) (st : state) (tr : trace) : option (N * N) :=
  match tr with
  | [] => None
  | (o, ob, d) :: r =>
      let '(st', res, ev) := step st o in
      if negb (obs_eqb (obs_of res ev) ob) then Some (1, i)
      else if negb (digest_eqb (digest_of st') d) then Some (3, i)
      else first_diff (N.succ i) st' r
  end.

Definition case := (N * trace)%type.
Definition mkcase (id : N) (tr : trace) : case := (id, tr).
Definition judge (c : case) : list (N * N * N) :=
  let '(id, tr) := c in
  (match first_diff 0 init tr with Some (code, i) => [(id, code, i)] | None => [] end) ++
  (match P_first 0 pstate0 digest0 tr with Some i => [(id, 2, i)] | None => [] end).
Definition judge_all (cs : list case) : list (N * N * N) := flat_map judge cs.

(* compact constructors for the generated files *)
Definition ob (r : result) (ev : list event) : obs := obs_of r ev.
Definition rw (id : N) (k : kind) (ow s t : N) (h r : bool) : orow :=
  {| r_id := id; r_kind := k; r_owner := ow; r_sid := s; r_stream := t; r_hasH := h; r_hasR := r |}.
Definition dg (up : bool) (hs rs cl : list N) (ps : list (N * N * N)) (objs : list orow) : digest :=
  {| d_up := up; d_handles := hs; d_rooms := rs; d_clients := cl; d_pubs := ps; d_objs := objs |}.
