(* Observations, the trace predicate P_C18 (the property itself, written from
   the property text) and the judge used by generated cases files.  No proofs. *)
From Coq Require Import List ZArith NArith Bool String.
From Verif Require Export model.Proxy.
Import ListNotations.
Open Scope N_scope.

(* ---- what is observed after every operation, at quiescence -----------------
   ob_applied  : the operation was executed (see model: closed / blocked connection)
   ob_msgs     : messages received, grouped by connection (ascending), in order
   ob_sessions : ProxyServer.sessions with each session's publisher / subscriber ids
   ob_clients  : ProxyServer.clients (id, kind, creating session)
   ob_open     : objects open at the media server (id, kind, creating session)
   ob_pending  : creations in flight at the media server
   all lists ascending by id                                                   *)
Record obs := {
  ob_applied : bool;
  ob_msgs : list (N * msg);
  ob_sessions : list (N * list N * list N);
  ob_clients : list entry;
  ob_open : list entry;
  ob_pending : list N }.

(* ---- sorting (insertion sort, stable) -------------------------------------- *)
Fixpoint ins_by {A} (key : A -> N) (x : A) (l : list A) : list A :=
  match l with
  | [] => [x]
  | y :: r => if N.leb (key x) (key y) then x :: l else y :: ins_by key x r
  end.
Definition sort_by {A} (key : A -> N) (l : list A) : list A :=
  fold_right (ins_by key) [] l.

Definition canon (l : list (N * msg)) : list (N * msg) := sort_by fst l.

(* projection of a model state and outcome; lists in the model's own order *)
Definition obs_of (st : state) (out : outcome) : obs :=
  {| ob_applied := applied out;
     ob_msgs := msgs out;
     ob_sessions := map (fun s => (ss_sid s, ss_pubs s, ss_subs s)) (sessions st);
     ob_clients := clients st;
     ob_open := mopen st;
     ob_pending := map p_tok (pendings st) |}.

(* canonical order: messages grouped by connection (order per connection kept),
   everything else ascending *)
Definition norm (o : obs) : obs :=
  {| ob_applied := ob_applied o;
     ob_msgs := canon (ob_msgs o);
     ob_sessions := sort_by (fun x => fst (fst x))
                      (map (fun x => (fst (fst x), sort_by (fun y => y) (snd (fst x)), sort_by (fun y => y) (snd x))) (ob_sessions o));
     ob_clients := sort_by e_id (ob_clients o);
     ob_open := sort_by e_id (ob_open o);
     ob_pending := sort_by (fun y => y) (ob_pending o) |}.

(* ---- decidable equalities --------------------------------------------------- *)
Definition err_eqb (a b : err) : bool :=
  match a, b with
  | EHelloExpected, EHelloExpected | EInvalidFormat, EInvalidFormat | EAuthFailed, EAuthFailed
  | ETokenExpired, ETokenExpired | ETokenNotValidYet, ETokenNotValidYet | ENoSuchSession, ENoSuchSession
  | EUnknownClient, EUnknownClient | EBadRequest, EBadRequest | EUnsupportedPayload, EUnsupportedPayload
  | EInternal, EInternal | ETimeout, ETimeout => true
  | EOtherErr x, EOtherErr y => N.eqb x y
  | _, _ => false
  end.
Definition reason_eqb (a b : reason) : bool :=
  match a, b with
  | RClosed, RClosed | RExpired, RExpired | RResumed, RResumed => true
  | ROtherReason x, ROtherReason y => N.eqb x y
  | _, _ => false
  end.
Definition msg_eqb (a b : msg) : bool :=
  match a, b with
  | MHello x, MHello y => N.eqb x y
  | MErr x, MErr y => err_eqb x y
  | MBye x, MBye y => reason_eqb x y
  | MCmd x, MCmd y => N.eqb x y
  | MPayload x, MPayload y => N.eqb x y
  | MEvLoad, MEvLoad | MEvBackendDisc, MEvBackendDisc => true
  | MOther x, MOther y => N.eqb x y
  | _, _ => false
  end.
Fixpoint list_eqb {A} (eqb : A -> A -> bool) (a b : list A) : bool :=
  match a, b with
  | [], [] => true
  | x :: r, y :: s => eqb x y && list_eqb eqb r s
  | _, _ => false
  end.
Definition entry_eqb (a b : entry) : bool :=
  N.eqb (e_id a) (e_id b) && kind_eqb (e_kind a) (e_kind b) && N.eqb (e_owner a) (e_owner b).
Definition cmsg_eqb (a b : N * msg) : bool := N.eqb (fst a) (fst b) && msg_eqb (snd a) (snd b).
Definition srow_eqb (a b : N * list N * list N) : bool :=
  N.eqb (fst (fst a)) (fst (fst b)) && list_eqb N.eqb (snd (fst a)) (snd (fst b)) && list_eqb N.eqb (snd a) (snd b).

(* the tables only *)
Definition same_state (a b : obs) : bool :=
  list_eqb srow_eqb (ob_sessions a) (ob_sessions b) &&
  list_eqb entry_eqb (ob_clients a) (ob_clients b) &&
  list_eqb entry_eqb (ob_open a) (ob_open b) &&
  list_eqb N.eqb (ob_pending a) (ob_pending b).

Definition obs_eqb_raw (a b : obs) : bool :=
  Bool.eqb (ob_applied a) (ob_applied b) && list_eqb cmsg_eqb (ob_msgs a) (ob_msgs b) && same_state a b.
(* equality up to the canonical order *)
Definition obs_eqb (a b : obs) : bool := obs_eqb_raw (norm a) (norm b).

(* ---- the property, as a checker over (operation, observation) traces --------
   Written from the property text:
   (1) a session is created only for a hello whose token is RS256/384/512-signed
       by the key configured for its issuer and was issued within the accepted
       age window (at most five minutes old, one minute of clock difference
       allowed either way);
   (2) every command or payload (any message that is not a hello) of a
       connection that has not been welcomed is refused: only errors are
       answered, nothing changes;
   (3) when a session ends (bye) or expires it is gone, and no publisher or
       subscriber, open at the media server or resolvable through the client
       table, belongs to a session that is gone; when the media server
       connection is lost every object that existed is closed and unresolvable;
       at every quiet point everything open at the media server (publishers,
       subscribers, and the remote publishers behind remote subscribers) is in
       the table of the session that created it, so that the end of that session
       closes it
       (OByeIn / OExpireIn: the same bye / expiry with creations completing while
       the close runs; observed when the close has returned);
   (4) a delete that has any effect (confirmation, or the object disappears) was
       asked by the session that created the object;
   (5) an id that does not resolve is answered with an error.                    *)
Section Spec.
Context (sigvalid : string -> N -> N -> N -> bool).
Context (keys : N -> option N).

Definition spec_algs : list string := ["RS256"; "RS384"; "RS512"]%string.
Definition spec_max_age : Z := (5 * 60 * 1000000000)%Z.
Definition spec_leeway : Z := (60 * 1000000000)%Z.

Definition token_ok (now : Z) (t : token) : bool :=
  t_wf t && str_mem (t_alg t) spec_algs &&
  match keys (t_iss t) with
  | Some k => sigvalid (t_alg t) k (t_text t) (t_sig t)
  | None => false
  end &&
  match t_iat t with
  | Some i => ((now - (spec_max_age + spec_leeway) <=? i) && (i <=? now + spec_leeway))%Z
  | None => false
  end.

Definition sids (ob : obs) : list N := map (fun x => fst (fst x)) (ob_sessions ob).
Definition ids (l : list entry) : list N := map e_id l.

Definition is_err (m : msg) : bool := match m with MErr _ => true | _ => false end.
Definition only_errors_to (c : N) (l : list (N * msg)) : bool :=
  forallb (fun x => N.eqb (fst x) c && is_err (snd x)) l.
Definition hello_sids (l : list (N * msg)) : list N :=
  flat_map (fun x => match snd x with MHello s => [s] | _ => [] end) l.
Definition null {A} (l : list A) : bool := match l with [] => true | _ => false end.

Definition bindings := list (N * N).        (* connection -> session it was welcomed to *)
Fixpoint bound (b : bindings) (c : N) : option N :=
  match b with
  | [] => None
  | (c', s) :: r => if N.eqb c' c then Some s else bound r c
  end.
Definition bind_step (b : bindings) (l : list (N * msg)) : bindings :=
  flat_map (fun x => match snd x with MHello s => [(fst x, s)] | _ => [] end) l ++ b.

Definition optN_eqb (a b : option N) : bool :=
  match a, b with Some x, Some y => N.eqb x y | None, None => true | _, _ => false end.

(* (1) *)
Definition chk_sessions (prev : obs) (o : op) (ob : obs) : bool :=
  let new := filter (fun s => negb (memN s (sids prev))) (sids ob) in
  match o with
  | OHello c now t =>
      if null new && null (hello_sids (ob_msgs ob)) then true else token_ok now t
  | OResume _ _ =>
      null new && forallb (fun s => memN s (sids prev)) (hello_sids (ob_msgs ob))
  | _ => null new && null (hello_sids (ob_msgs ob))
  end.

(* (2) *)
Definition client_msg_conn (o : op) : option N :=
  match o with
  | OCmd c _ | OPayload c _ _ | OBye c | OUnknownType c | OMalformed c _ | OByeIn c _ => Some c
  | _ => None
  end.
Definition chk_prehello (b : bindings) (prev : obs) (o : op) (ob : obs) : bool :=
  match client_msg_conn o with
  | Some c =>
      match bound b c with
      | None => only_errors_to c (ob_msgs ob) && same_state prev ob
      | Some _ => true
      end
  | None => true
  end.

(* (3) *)
(* e is in the publisher / subscriber table of the session that created it.  An
   object open at the media server that is in no table has no owner: no close of
   a session, no delete and no loss of the media server will ever close it (this
   is how a remote publisher whose creation reference was not given back shows:
   the harness lists a remote publisher that is still referenced under the
   creation request it was made for, see model/Proxy.v "remote subscribers"). *)
Definition owned_in (rows : list (N * list N * list N)) (e : entry) : bool :=
  existsb (fun x => N.eqb (fst (fst x)) (e_owner e) &&
                    match e_kind e with
                    | Pub => memN (e_id e) (snd (fst x))
                    | Sub => memN (e_id e) (snd x)
                    end) rows.

Definition chk_cleanup (b : bindings) (prev : obs) (o : op) (ob : obs) : bool :=
  forallb (fun e => memN (e_owner e) (sids ob)) (ob_clients ob ++ ob_open ob) &&
  forallb (owned_in (ob_sessions ob)) (ob_open ob) &&
  match o with
  | OMcuLost =>
      forallb (fun e => negb (memN (e_id e) (ids (ob_clients ob))) && negb (memN (e_id e) (ids (ob_open ob))))
              (ob_clients prev ++ ob_open prev)
  | OBye c | OByeIn c _ =>
      match bound b c with Some sid => negb (memN sid (sids ob)) | None => true end
  | OExpire sid | OExpireIn sid _ => negb (memN sid (sids ob))
  | _ => true
  end.

(* (4) and (5) *)
Definition named_id (o : op) : option (N * N) :=      (* connection, id *)
  match o with
  | OCmd c (CDeletePub id) | OCmd c (CDeleteSub id) | OCmd c (CStreams id) | OPayload c id _ => Some (c, id)
  | _ => None
  end.
Definition is_delete (o : op) : bool :=
  match o with OCmd _ (CDeletePub _) | OCmd _ (CDeleteSub _) => true | _ => false end.
Definition chk_ids (b : bindings) (prev : obs) (o : op) (ob : obs) : bool :=
  match named_id o with
  | None => true
  | Some (c, id) =>
      (if memN id (ids (ob_clients prev)) then true else only_errors_to c (ob_msgs ob)) &&
      (if is_delete o then
         let gone := (memN id (ids (ob_clients prev)) && negb (memN id (ids (ob_clients ob)))) ||
                     (memN id (ids (ob_open prev)) && negb (memN id (ids (ob_open ob)))) in
         let confirmed := existsb (cmsg_eqb (c, MCmd id)) (ob_msgs ob) in
         if gone || confirmed then
           match find_entry id (ob_clients prev) with
           | Some e => optN_eqb (bound b c) (Some (e_owner e))
           | None => false
           end
         else true
       else true)
  end.

Definition chk_step (b : bindings) (prev : obs) (o : op) (ob : obs) : bool :=
  if ob_applied ob then
    chk_sessions prev o ob && chk_prehello b prev o ob && chk_cleanup b prev o ob && chk_ids b prev o ob
  else null (ob_msgs ob) && same_state prev ob.

Definition trace := list (op * obs).

Fixpoint P_from (b : bindings) (prev : obs) (tr : trace) : bool :=
  match tr with
  | [] => true
  | (o, ob) :: r => chk_step b prev o ob && P_from (bind_step b (ob_msgs ob)) ob r
  end.

Definition obs0 : obs :=
  {| ob_applied := true; ob_msgs := []; ob_sessions := []; ob_clients := []; ob_open := []; ob_pending := [] |}.

Definition P_C18 (tr : trace) : bool := P_from [] obs0 tr.

(* index of the first step at which the predicate fails *)
Fixpoint P_first (i : N) (b : bindings) (prev : obs) (tr : trace) : option N :=
  match tr with
  | [] => None
  | (o, ob) :: r => if chk_step b prev o ob then P_first (N.succ i) (bind_step b (ob_msgs ob)) ob r else Some i
  end.

(* ---- the model's own trace ---------------------------------------------------- *)
Context (recheck : bool).

Fixpoint trace_from (st : state) (ops : list op) : trace :=
  match ops with
  | [] => []
  | o :: r => let '(st', out) := step sigvalid keys recheck st o in (o, obs_of st' out) :: trace_from st' r
  end.
Definition trace_of (ops : list op) : trace := trace_from init ops.

Fixpoint first_diff (i : N) (st : state) (tr : trace) : option N :=
  match tr with
  | [] => None
  | (o, ob) :: r =>
      let '(st', out) := step sigvalid keys recheck st o in
      if obs_eqb (obs_of st' out) ob then first_diff (N.succ i) st' r else Some i
  end.

End Spec.

(* ---- judging one case of the correspondence run --------------------------------
   A case carries the finite tables of the oracles for exactly the tokens that
   occur in it (computed by the real library): the (alg, key, text, signature)
   combinations that verify, and the configured issuer -> key table.
   Verdict codes: 1 = model and implementation differ at that step,
                  2 = the implementation's own trace violates P_C18.              *)
Definition sigtable := list (string * N * N * N).
Definition sv_of (tb : sigtable) : string -> N -> N -> N -> bool :=
  fun alg k t s => existsb (fun e => let '(a, k', t', s') := e in
     String.eqb a alg && N.eqb k' k && N.eqb t' t && N.eqb s' s) tb.
Definition keys_of (tb : list (N * N)) : N -> option N :=
  fun i => match find (fun e => N.eqb (fst e) i) tb with Some e => Some (snd e) | None => None end.

Definition case := (N * sigtable * list (N * N) * trace)%type.
Definition mkcase (id : N) (sv : sigtable) (ks : list (N * N)) (tr : trace) : case := (id, sv, ks, tr).

Definition judge (c : case) : list (N * N * N) :=
  let '(id, sv, ks, tr) := c in
  (match first_diff (sv_of sv) (keys_of ks) true 0 init tr with Some i => [(id, 1, i)] | None => [] end) ++
  (match P_first (sv_of sv) (keys_of ks) 0 [] obs0 tr with Some i => [(id, 2, i)] | None => [] end).

Definition judge_all (cs : list case) : list (N * N * N) := flat_map judge cs.

(* compact constructors for generated files *)
Definition ob (a : bool) (m : list (N * msg)) (s : list (N * list N * list N)) (cl op : list entry) (p : list N) : obs :=
  {| ob_applied := a; ob_msgs := m; ob_sessions := s; ob_clients := cl; ob_open := op; ob_pending := p |}.
Definition tk (wf : bool) (alg : string) (sd : bool) (iss : N) (iat exp nbf : option Z) (tx sg : N) : token :=
  {| t_wf := wf; t_alg := alg; t_sigdec := sd; t_iss := iss; t_iat := iat; t_exp := exp; t_nbf := nbf; t_text := tx; t_sig := sg |}.
