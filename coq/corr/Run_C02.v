(* Trace predicate P_C02 (the property itself, stated with the words and the
   numbers of the property text) and the judges used by generated cases files.
   No proofs. *)
From Coq Require Import List ZArith NArith Bool String Ascii.
From Verif Require Export model.Checksum model.Throttle model.RoomAuth.
From Verif Require model.BackendCfg.
From Verif Require Import model.OutReq.
Import ListNotations.
Open Scope Z_scope.

(* ---- one request as the harness executed it ------------------------------
   The library behaviour is recorded next to the request by the harness, which
   computes it with the real library for exactly the strings of this request:
     x_macs    backend id |-> HMAC-SHA256 (secret of that backend, random ++ body)
     x_parse   url.Parse(backend header) succeeded
     x_lookup  id of GetBackend(parsed header), if any
     x_kind    what json.Unmarshal and the type switch make of the body
   x_claim is not an oracle: it is what the generator meant the backend header
   to name (Some (Some i): backend i; Some None: no configured backend;
   None: the generator does not know, e.g. a mutated URL). *)
Record opx := {
  x_t : Z; x_addr : addr; x_req : request; x_kind : bkind;
  x_macs : list (N * bytes);
  x_parse : bool; x_lookup : option N;
  x_claim : option (option N)
}.

(* HTTP status, ids of the backends whose client in the room received an event, delay served *)
Definition obs := (N * list N * Z)%type.
Definition trace := list (opx * obs).

Definition all_backends (cfg : config) : list backend :=
  match cfg_compat cfg with Some c => [c] | None => cfg_backends cfg end.
Definition ids (cfg : config) : list N := map b_id (all_backends cfg).
Definition backend_of (cfg : config) (i : N) : option backend :=
  find (fun b => N.eqb (b_id b) i) (all_backends cfg).

Fixpoint assoc {A} (i : N) (l : list (N * A)) : option A :=
  match l with
  | [] => None
  | (j, v) :: r => if N.eqb i j then Some v else assoc i r
  end.

(* ======================= the property, from its text ======================= *)

(* numbers of the property / protocol text, NOT taken from the source *)
Definition spec_attempts : nat := 10.                (* C17: ten failures ... *)
Definition spec_max_body : Z := 262144.              (* 256 KiB request limit *)
Definition spec_min_random : nat := 32.              (* "a fresh random of at least 32 bytes" *)

(* "its checksum header equals HMAC-SHA256 over random||body under the secret of backend i" *)
Definition mac_ok (x : opx) (i : N) : bool :=
  match assoc i (x_macs x) with
  | Some m => String.eqb (q_chk (x_req x)) (hex m)
  | None => false
  end.

(* "the backend the request claims to come from": None = no backend header *)
Definition claim_of (x : opx) : option (option N) :=
  if is_empty (q_bhdr (x_req x)) then None
  else Some (match x_claim x with
             | Some c => c
             | None => if x_parse x then x_lookup x else None
             end).

(* the backends under which the property lets this request be accepted *)
Definition accept_set (cfg : config) (x : opx) : list N :=
  if is_empty (q_rnd (x_req x)) || is_empty (q_chk (x_req x)) then []
  else match claim_of x with
       | None => filter (mac_ok x) (ids cfg)
       | Some (Some i) => if existsb (N.eqb i) (ids cfg) && mac_ok x i then [i] else []
       | Some None => []
       end.

(* a POST with a JSON body of admissible, declared length *)
Definition wellformed (x : opx) : bool :=
  let q := x_req x in
  q_post q && (0 <=? q_clen q) && (q_clen q <=? spec_max_body) && prefix "application/json" (q_ctype q).

Definition status (o : obs) : N := fst (fst o).
Definition delivered (o : obs) : list N := snd (fst o).

Definition accepted (xo : opx * obs) : bool :=
  wellformed (fst xo) && negb (N.eqb (status (snd xo)) 403) && negb (N.eqb (status (snd xo)) 429).

Definition same_pair (x y : opx) : bool :=
  String.eqb (q_rnd (x_req x)) (q_rnd (x_req y)) && String.eqb (q_body (x_req x)) (q_body (x_req y)).

(* earlier requests of the same address (kind) that were answered 403 *)
Definition refusals_before (pre : trace) (x : opx) : nat :=
  List.length (filter (fun xo => ipkey_eqb (throttle_ip (x_addr (fst xo))) (throttle_ip (x_addr x))
                                 && N.eqb (status (snd xo)) 403) pre).

Definition is_empty_list {A} (l : list A) : bool := match l with [] => true | _ => false end.

(* no event reaches any client unless the checksum matches under the claimed backend's
   secret, and then only the clients of that backend *)
Definition ok_delivered (cfg : config) (x : opx) (o : obs) : bool :=
  match delivered o with
  | [] => true
  | [i] => existsb (N.eqb i) (accept_set cfg x)
  | _ => false
  end.

(* only a POST is ever accepted *)
Definition ok_post (x : opx) (o : obs) : bool :=
  q_post (x_req x) || is_empty_list (delivered o).

(* 429 only as the throttle of C17: after ten refused requests of this address; silent *)
Definition ok_429 (pre : trace) (x : opx) (o : obs) : bool :=
  negb (N.eqb (status o) 429) || (is_empty_list (delivered o) && (spec_attempts <=? refusals_before pre x)%nat).

(* a well-formed POST is answered 403 exactly when the checksum does not match *)
Definition ok_iff (cfg : config) (x : opx) (o : obs) : bool :=
  negb (wellformed x) || N.eqb (status o) 429 ||
  Bool.eqb (N.eqb (status o) 403) (is_empty_list (accept_set cfg x)).

(* "any change to body, random ... yields 403": a checksum that was accepted once is not
   accepted with another (random, body) *)
Definition ok_tamper (pre : trace) (x : opx) (o : obs) : bool :=
  negb (accepted (x, o)) ||
  forallb (fun xo => negb (accepted xo) || negb (String.eqb (q_chk (x_req (fst xo))) (q_chk (x_req x)))
                     || same_pair (fst xo) x) pre.

Definition step_ok (cfg : config) (pre : trace) (x : opx) (o : obs) : bool :=
  ok_delivered cfg x o && ok_post x o && ok_429 pre x o && ok_iff cfg x o && ok_tamper pre x o.

Fixpoint P_from (cfg : config) (pre : trace) (tr : trace) : bool :=
  match tr with
  | [] => true
  | (x, o) :: r => step_ok cfg pre x o && P_from cfg (pre ++ [(x, o)]) r
  end.

Definition P_C02 (cfg : config) (tr : trace) : bool := P_from cfg [] tr.

(* index of the first request at which the property fails *)
Fixpoint P_first (cfg : config) (i : N) (pre : trace) (tr : trace) : option N :=
  match tr with
  | [] => None
  | (x, o) :: r => if step_ok cfg pre x o then P_first cfg (N.succ i) (pre ++ [(x, o)]) r else Some i
  end.

(* outgoing direction: "every request the server sends to a backend carries a
   fresh random of at least 32 bytes and the matching checksum under that
   backend's secret".  "That backend" is the backend the configuration IN FORCE
   when the request is sent resolves the request URL to: the configuration changes
   between requests (Reload, etcd events), and a secret that was changed, or the
   secret of a backend that was removed or moved to another URL, is not that
   backend's secret any more.
     r_cur     secret of the backend that the configuration in force when the fake
               backend received the request has at the URL of the receiving endpoint,
               from the GENERATOR's own bookkeeping of what it configured
               (None: no backend is configured there now: nothing may be sent)
     r_mac     HMAC-SHA256 (r_cur, random ++ body), recomputed by the harness
     r_lookup  oracle for the model: the secret of BackendConfiguration.GetBackend(url)
               of the running server at that moment (the backend table is C13's);
     r_lmac    HMAC-SHA256 (r_lookup, random ++ body) *)
Record orec := { r_id : N; r_cur : option bytes; r_lookup : option bytes;
                 r_rnd : bytes; r_chk : bytes; r_body : bytes; r_mac : bytes; r_lmac : bytes }.

Definition P_out_one (r : orec) : bool :=
  match r_cur r with
  | Some _ => (spec_min_random <=? String.length (r_rnd r))%nat && String.eqb (r_chk r) (hex (r_mac r))
  | None => false
  end.

(* "... carries a FRESH random": a random is used for one request only.  Over the requests that
   ARRIVED at the backends of one server (a request the server sends again - after a failure,
   a closed connection, a timeout - arrives again and is a request it sent): no two of them carry
   the same random.  Compared as the header values the backend sees. *)
Fixpoint fresh_from (seen : list bytes) (l : list orec) : bool :=
  match l with
  | [] => true
  | r :: rest => negb (existsb (String.eqb (r_rnd r)) seen) && fresh_from (r_rnd r :: seen) rest
  end.

(* the outgoing half of the property on everything a server sent *)
Definition P_out (l : list orec) : bool := forallb P_out_one l && fresh_from [] l.

(* ====================== running the model on a case ======================== *)

Definition hmac_x (cfg : config) (x : opx) (k m : bytes) : bytes :=
  if String.eqb m (q_rnd (x_req x) ++ q_body (x_req x)) then
    match find (fun b => String.eqb (b_secret b) k) (all_backends cfg) with
    | Some b => match assoc (b_id b) (x_macs x) with Some mac => mac | None => EmptyString end
    | None => EmptyString
    end
  else EmptyString.

Definition url_parse_x (x : opx) (h : bytes) : option bytes :=
  if x_parse x && String.eqb h (q_bhdr (x_req x)) then Some h else None.

Definition get_backend_x (cfg : config) (x : opx) (u : bytes) : option backend :=
  match x_lookup x with Some i => backend_of cfg i | None => None end.

Definition model_step (cfg : config) (th : Throttle.state) (x : opx) : Throttle.state * obs :=
  let '(th', r) := handle (hmac_x cfg x) (url_parse_x x) (get_backend_x cfg x) cfg th (x_t x) (x_addr x) (x_req x) in
  (th', (status_of (fun _ => x_kind x) r (q_body (x_req x)),
         match client_event (fun _ => x_kind x) r (q_body (x_req x)) with Some b => [b_id b] | None => [] end,
         delay_of r)).

Fixpoint model_trace_from (cfg : config) (th : Throttle.state) (xs : list opx) : trace :=
  match xs with
  | [] => []
  | x :: r => let '(th', o) := model_step cfg th x in (x, o) :: model_trace_from cfg th' r
  end.
Definition model_trace (cfg : config) (xs : list opx) : trace := model_trace_from cfg Throttle.init xs.

Definition list_N_eqb (a b : list N) : bool :=
  (List.length a =? List.length b)%nat && forallb (fun p => N.eqb (fst p) (snd p)) (combine a b).

Definition obs_eqb (a b : obs) : bool :=
  N.eqb (status a) (status b) && list_N_eqb (delivered a) (delivered b) && Z.eqb (snd a) (snd b).

Fixpoint first_diff (cfg : config) (i : N) (th : Throttle.state) (tr : trace) : option N :=
  match tr with
  | [] => None
  | (x, o) :: r => let '(th', o') := model_step cfg th x in
                   if obs_eqb o o' then first_diff cfg (N.succ i) th' r else Some i
  end.

(* the generator's intent and the lookup oracle must name the same backend *)
Definition claim_agrees (x : opx) : bool :=
  match x_claim x with
  | None => true
  | Some c => is_empty (q_bhdr (x_req x)) ||
              match (if x_parse x then x_lookup x else None), c with
              | Some i, Some j => N.eqb i j
              | None, None => true
              | _, _ => false
              end
  end.
Fixpoint first_false {A} (f : A -> bool) (i : N) (l : list A) : option N :=
  match l with [] => None | a :: r => if f a then first_false f (N.succ i) r else Some i end.

(* ---- cases ------------------------------------------------------------------
   Verdict codes: 1 = model and implementation answer differently at that request,
   2 = the implementation's trace violates P_C02, 3 = the backend lookup does not
   name the backend the generator configured for that URL. *)
Definition case := (N * config * trace)%type.

(* configuration: compat mode (one shared secret) or a list of per-backend secrets,
   ids 1, 2, ...; literals are hexadecimal *)
Definition cfg_compat_of (secret_hex : string) : config :=
  let c := {| b_id := 1%N; b_secret := unhex secret_hex |} in
  {| cfg_compat := Some c; cfg_backends := [c] |}.
Fixpoint number_from (i : N) (l : list string) : list backend :=
  match l with [] => [] | s :: r => {| b_id := i; b_secret := unhex s |} :: number_from (N.succ i) r end.
Definition cfg_list_of (secrets_hex : list string) : config :=
  {| cfg_compat := None; cfg_backends := number_from 1%N secrets_hex |}.

Definition mkcase (id : N) (cfg : config) (tr : trace) : case := (id, cfg, tr).

(* one executed request; rnd chk bhdr body and the macs are hexadecimal literals *)
Definition mkop (t : Z) (a : addr) (post : bool) (clen : Z) (ctype rnd chk bhdr body : string) (kind : bkind)
           (macs : list (N * string)) (parse : bool) (lookup : option N) (claim : option (option N))
           (st : N) (dl : list N) (delay : Z) : opx * obs :=
  ({| x_t := t; x_addr := a;
      x_req := {| q_post := post; q_clen := clen; q_ctype := ctype; q_rnd := unhex rnd; q_chk := unhex chk;
                  q_bhdr := unhex bhdr; q_body := unhex body |};
      x_kind := kind; x_macs := map (fun p => (fst p, unhex (snd p))) macs;
      x_parse := parse; x_lookup := lookup; x_claim := claim |},
   (st, dl, delay)).

Definition opt_code (id code : N) (r : option N) : list (N * N * N) :=
  match r with Some i => [(id, code, i)] | None => [] end.

Definition judge (c : case) : list (N * N * N) :=
  let '(id, cfg, tr) := c in
  opt_code id 1%N (first_diff cfg 0%N Throttle.init tr) ++
  opt_code id 2%N (P_first cfg 0%N [] tr) ++
  opt_code id 3%N (first_false claim_agrees 0%N (map fst tr)).

Definition judge_all (cs : list case) : list (N * N * N) := flat_map judge cs.

(* ---- outgoing requests -------------------------------------------------------
   5 = the headers differ from what the model of AddBackendChecksum sets (given the
       random bytes the implementation drew), 6 = P_out_one false, 7 = the freshness
       clause of P_out fails: the request carries the random of an earlier request of
       the same server (third component: the id of that request) *)
Definition opt_unhex (o : option string) : option bytes :=
  match o with Some h => Some (unhex h) | None => None end.
Definition mkout (id : N) (cur lookup : option string) (rnd chk body mac lmac : string) : orec :=
  {| r_id := id; r_cur := opt_unhex cur; r_lookup := opt_unhex lookup; r_rnd := unhex rnd; r_chk := unhex chk;
     r_body := unhex body; r_mac := unhex mac; r_lmac := unhex lmac |}.

(* the model of PerformJSONRequest (model/OutReq.v) on the answer of the lookup oracle: a URL
   without backend is not sent to, otherwise the headers of AddBackendChecksum under the
   secret of the answer.  Every record IS a request that was sent. *)
Definition out_model_ok (r : orec) : bool :=
  let raw := unhex (r_rnd r) in       (* the bytes crypto/rand delivered, read back from the header *)
  let rand := fun i => nth i (list_ascii_of_string raw) zero in
  let key := match r_lookup r with Some s => s | None => EmptyString end in
  let hm := fun (k m : bytes) => if String.eqb k key && String.eqb m (r_rnd r ++ r_body r) then r_lmac r else EmptyString in
  let a := match r_lookup r with
           | Some _ => BackendCfg.ASome (1%N, 1%N, 0, 0, 0, false)
           | None => BackendCfg.ANone
           end in
  match OutReq.sign hm (fun _ => key) rand a (r_body r) with
  | SSent (rnd, chk) => String.eqb rnd (r_rnd r) && String.eqb chk (r_chk r)
  | _ => false
  end.

Definition opt_bytes_eqb (a b : option bytes) : bool :=
  match a, b with
  | Some x, Some y => String.eqb x y
  | None, None => true
  | _, _ => false
  end.

Fixpoint dup_randoms (seen : list bytes) (l : list orec) : list (N * N * N) :=
  match l with
  | [] => []
  | r :: rest => (if existsb (String.eqb (r_rnd r)) seen then [(r_id r, 7%N, 0%N)] else [])
                 ++ dup_randoms (r_rnd r :: seen) rest
  end.

(* the earlier record that carried this random *)
Fixpoint dup_of (seen : list orec) (r : orec) : option N :=
  match seen with
  | [] => None
  | p :: rest => match dup_of rest r with
                 | Some i => Some i          (* seen is newest first: report the earliest *)
                 | None => if String.eqb (r_rnd p) (r_rnd r) then Some (r_id p) else None
                 end
  end.
Fixpoint dup_records (seen : list orec) (l : list orec) : list (N * N * N) :=
  match l with
  | [] => []
  | r :: rest => opt_code (r_id r) 7%N (dup_of seen r) ++ dup_records (r :: seen) rest
  end.

(* 3: the lookup oracle and the generator's bookkeeping disagree about the backend at this URL *)
Definition judge_out (l : list orec) : list (N * N * N) :=
  flat_map (fun r => (if out_model_ok r then [] else [(r_id r, 5%N, 0%N)]) ++
                     (if P_out_one r then [] else [(r_id r, 6%N, 0%N)]) ++
                     (if opt_bytes_eqb (r_cur r) (r_lookup r) then [] else [(r_id r, 3%N, 0%N)])) l
  ++ dup_randoms [] l.

(* all requests that arrived at the backends of one server (one world of the outgoing scenario), in
   the order of arrival: every one judged on its own as above, and the freshness clause of P_out
   over all of them; P_out l = false  <->  a verdict 6 or 7 (checked by the last component) *)
Definition judge_out_world (l : list orec) : list (N * N * N) :=
  let v := flat_map (fun r => (if out_model_ok r then [] else [(r_id r, 5%N, 0%N)]) ++
                              (if P_out_one r then [] else [(r_id r, 6%N, 0%N)]) ++
                              (if opt_bytes_eqb (r_cur r) (r_lookup r) then [] else [(r_id r, 3%N, 0%N)])) l
           ++ dup_records [] l in
  v ++ (if Bool.eqb (P_out l) (negb (existsb (fun t => N.eqb (snd (fst t)) 6 || N.eqb (snd (fst t)) 7) v))
        then [] else [(match l with r :: _ => r_id r | [] => 0%N end, 6%N, 999999%N)]).

(* what the client of the server saw of a call whose request met the fate f at the backend (hello, room
   join: the client is answered or told about the error): as model/OutReq.v says - every fate but an
   answer is an error for the caller.  ok = the client was answered as if the backend had answered. *)
Definition fate_model_ok (f : fate) (ok : bool) : bool :=
  match snd (deliver (SSent (EmptyString, EmptyString)) f) with
  | OResponse => ok
  | OError => negb ok
  end.
(* fates in cases files: 1 connection closed without a response byte, 2 closed in the middle of the
   response, 3 answered 500, 4 no answer within the timeout of the call, else answered *)
Definition fate_of (n : N) : fate :=
  match n with 1%N => FClosed | 2%N => FCut | 3%N => FStatus500 | 4%N => FSilent | _ => FAnswered end.
Definition judge_fates (l : list (N * fate * bool)) : list (N * N * N) :=
  flat_map (fun t => if fate_model_ok (snd (fst t)) (snd t) then [] else [(fst (fst t), 5%N, 1%N)]) l.
