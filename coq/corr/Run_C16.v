(* Trace predicate P_C16 (the property itself, written from the property text,
   not from the model) and the judge used by generated cases files.  No proofs.

   Property text: "Forwarding headers are trusted only from trusted proxies.
   The client address the server uses for throttling, logging and access
   control is the socket peer unless that peer is a configured trusted proxy;
   only then is it taken from X-Real-IP or the right-most untrusted hop of
   X-Forwarded-For.  Consequently a client that connects directly can never
   change its apparent address, and the stats, metrics and serverinfo
   endpoints answer only to addresses on the allow-list." *)
From Coq Require Import List NArith Bool String Ascii.
From Verif Require Export model.RealIP.
Import ListNotations.
Open Scope string_scope.

(* ---- "address a lies in network (base, len)": the top len bits of the
        w-bit addresses are equal.  Written with division and remainder; the
        model works with a bit mask. ---------------------------------------- *)
Definition top_bits (w len x : N) : N := ((x / 2 ^ (w - len)) mod 2 ^ len)%N.

Definition in_net (n : net) (a : ip) : bool :=
  match fst n, a with
  | V4 x, V4 y => N.eqb (top_bits 32 (snd n) x) (top_bits 32 (snd n) y)
  | V6 x, V6 y => N.eqb (top_bits 128 (snd n) x) (top_bits 128 (snd n) y)
  | _, _ => false
  end.
Definition on_list (nets : list net) (a : ip) : bool := existsb (fun n => in_net n a) nets.

Definition last_opt {A} (l : list A) : option A :=
  match rev l with x :: _ => Some x | [] => None end.

Section Spec.
Context (parse_ip : string -> option ip) (split_host_port : string -> option string).

(* the host part of "host:port" / "[host]:port", the text itself otherwise *)
Definition host_of (s : string) : string :=
  match split_host_port s with Some h => h | None => s end.

Definition is_addr (s : string) : bool :=
  match parse_ip s with Some _ => true | None => false end.

(* s is the address of a configured trusted proxy (no list = nobody is) *)
Definition is_proxy (trusted : option (list net)) (s : string) : bool :=
  match parse_ip s, trusted with
  | Some a, Some l => on_list l a
  | _, _ => false
  end.

(* the hops of all X-Forwarded-For header lines, left to right, without
   surrounding white space and without port *)
Definition hops (xff : list string) : list string :=
  map (fun h => host_of (trim h)) (flat_map split_comma xff).

(* the client address the property describes *)
Definition spec_addr (trusted : option (list net)) (peer : string) (xr xff : list string) : string :=
  let host := host_of peer in
  if negb (is_proxy trusted host) then host                 (* the socket peer *)
  else
    let cands := filter is_addr (hops xff) in
    let forwarded :=
      match last_opt (filter (fun h => negb (is_proxy trusted h)) cands) with
      | Some h => h                                           (* right-most untrusted hop *)
      | None => match cands with
                | h :: _ => h                                 (* all hops are proxies: the left-most *)
                | [] => host                                  (* nothing usable: the socket peer *)
                end
      end in
    match xr with
    | v :: _ => if is_addr v then v else forwarded            (* X-Real-IP *)
    | [] => forwarded
    end.

(* the gated endpoints answer only to addresses on the allow-list *)
Definition spec_gate (trusted allow : list net) (peer : string) (xr xff : list string) : bool :=
  match parse_ip (spec_addr (Some trusted) peer xr xff) with
  | Some a => on_list allow a
  | None => false
  end.

Definition trace := list (op * out).

Definition P_step (e : op * out) : bool :=
  match e with
  | (ORealIP t peer xr xff, VAddr s) => String.eqb s (spec_addr t peer xr xff)
  | (OStats ep t al peer xr xff, VStatus c) =>
      Bool.eqb (N.eqb c 200) (spec_gate t al peer xr xff)
  | (OAllowed nets a, VBool b) => Bool.eqb b (on_list nets a)
  | (ODefaults, VNets _ _) => true
  | _ => false
  end.

Definition P_C16 (tr : trace) : bool := forallb P_step tr.

Definition trace_of (ops : list op) : trace :=
  map (fun o => (o, step parse_ip split_host_port o)) ops.
End Spec.

(* ---- judging one case of the correspondence run ---------------------------
   The oracles of a case are finite tables computed by Go's net.ParseIP and
   net.SplitHostPort for the strings that occur in it (a string that is not in
   a table did not parse / did not split).
   Verdict codes: 1 = model and implementation answer differently at that step,
   2 = the implementation's own answer violates P_C16,
   4 = the oracle tables do not meet the hypothesis of the theorems
       (the empty string is an address or splits). *)
Fixpoint lookup {A} (tbl : list (string * A)) (s : string) : option A :=
  match tbl with
  | [] => None
  | (k, v) :: r => if String.eqb k s then Some v else lookup r s
  end.

Definition ip_eqb (a b : ip) : bool :=
  match a, b with
  | V4 x, V4 y | V6 x, V6 y => N.eqb x y
  | _, _ => false
  end.
Definition net_eqb (a b : net) : bool := ip_eqb (fst a) (fst b) && N.eqb (snd a) (snd b).
Fixpoint list_eqb {A} (eqb : A -> A -> bool) (a b : list A) : bool :=
  match a, b with
  | [], [] => true
  | x :: a', y :: b' => eqb x y && list_eqb eqb a' b'
  | _, _ => false
  end.
Definition out_eqb (a b : out) : bool :=
  match a, b with
  | VAddr x, VAddr y => String.eqb x y
  | VStatus x, VStatus y => N.eqb x y
  | VBool x, VBool y => Bool.eqb x y
  | VNets t s, VNets t' s' => list_eqb net_eqb t t' && list_eqb net_eqb s s'
  | _, _ => false
  end.

Definition case := (N * list (string * ip) * list (string * string) * list (op * out))%type.
Definition mkcase (id : N) (ptbl : list (string * ip)) (stbl : list (string * string))
           (tr : list (op * out)) : case := (id, ptbl, stbl, tr).

Fixpoint judge_steps (pi : string -> option ip) (sh : string -> option string)
         (id i : N) (tr : list (op * out)) : list (N * N * N) :=
  match tr with
  | [] => []
  | (o, v) :: r =>
      (if out_eqb v (step pi sh o) then [] else [(id, 1%N, i)]) ++
      (if P_step pi sh (o, v) then [] else [(id, 2%N, i)]) ++
      judge_steps pi sh id (N.succ i) r
  end.

Definition judge (c : case) : list (N * N * N) :=
  let '(id, ptbl, stbl, tr) := c in
  let pi := lookup ptbl in
  let sh := lookup stbl in
  (match pi "", sh "" with None, None => [] | _, _ => [(id, 4%N, 0%N)] end) ++
  judge_steps pi sh id 0 tr.

Definition judge_all (cs : list case) : list (N * N * N) := flat_map judge cs.
