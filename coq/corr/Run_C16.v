(* Trace predicate P_C16 (the property itself, written from the property text,
   not from the model) and the judge used by generated cases files.  No proofs.

   Property text: "Forwarding headers are trusted only from trusted proxies.
   The client address the server uses for throttling, logging and access
   control is the socket peer unless that peer is a configured trusted proxy;
   only then is it taken from X-Real-IP or the right-most untrusted hop of
   X-Forwarded-For.  Consequently a client that connects directly can never
   change its apparent address, and the stats, metrics and serverinfo
   endpoints answer only to addresses on the allow-list." *)
From Coq Require Import List NArith Bool String Ascii.
From Verif Require Export model.RealIP.
Import ListNotations.
Open Scope string_scope.

(* ---- "address a lies in network (base, len)": the top len bits of the
        w-bit addresses are equal.  Written with division and remainder; the
        model works with a bit mask. ---------------------------------------- *)
Definition top_bits (w len x : N) : N := ((x / 2 ^ (w - len)) mod 2 ^ len)%N.

Definition in_net (n : net) (a : ip) : bool :=
  match fst n, a with
  | V4 x, V4 y => N.eqb (top_bits 32 (snd n) x) (top_bits 32 (snd n) y)
  | V6 x, V6 y => N.eqb (top_bits 128 (snd n) x) (top_bits 128 (snd n) y)
  | _, _ => false
  end.
Definition on_list (nets : list net) (a : ip) : bool := existsb (fun n => in_net n a) nets.

Definition last_opt {A} (l : list A) : option A :=
  match rev l with x :: _ => Some x | [] => None end.

Definition ip_eqb (a b : ip) : bool :=
  match a, b with
  | V4 x, V4 y | V6 x, V6 y => N.eqb x y
  | _, _ => false
  end.

Section Spec.
Context (parse_ip : string -> option ip) (split_host_port : string -> option string)
        (parse_cidr : string -> option net).

(* the host part of "host:port" / "[host]:port", the text itself otherwise *)
Definition host_of (s : string) : string :=
  match split_host_port s with Some h => h | None => s end.

Definition is_addr (s : string) : bool :=
  match parse_ip s with Some _ => true | None => false end.

(* s is the address of a configured trusted proxy (no list = nobody is) *)
Definition is_proxy (trusted : option (list net)) (s : string) : bool :=
  match parse_ip s, trusted with
  | Some a, Some l => on_list l a
  | _, _ => false
  end.

(* the hops of all X-Forwarded-For header lines, left to right, without
   surrounding white space and without port *)
Definition hops (xff : list string) : list string :=
  map (fun h => host_of (trim h)) (flat_map split_comma xff).

(* the client address the property describes *)
Definition spec_addr (trusted : option (list net)) (peer : string) (xr xff : list string) : string :=
  let host := host_of peer in
  if negb (is_proxy trusted host) then host                 (* the socket peer *)
  else
    let cands := filter is_addr (hops xff) in
    let forwarded :=
      match last_opt (filter (fun h => negb (is_proxy trusted h)) cands) with
      | Some h => h                                           (* right-most untrusted hop *)
      | None => match cands with
                | h :: _ => h                                 (* all hops are proxies: the left-most *)
                | [] => host                                  (* nothing usable: the socket peer *)
                end
      end in
    match xr with
    | v :: _ => if is_addr v then v else forwarded            (* X-Real-IP *)
    | [] => forwarded
    end.

(* the gated endpoints answer only to addresses on the allow-list *)
Definition spec_gate (trusted allow : list net) (peer : string) (xr xff : list string) : bool :=
  match parse_ip (spec_addr (Some trusted) peer xr xff) with
  | Some a => on_list allow a
  | None => false
  end.

(* ---- "configured": the lists as the administrator writes them -------------
   "a comma separated list of IP addresses / subnets": an entry with a prefix
   length is that subnet (net.ParseCIDR says which), an entry without is that
   one address and nothing else, blanks around entries and empty entries do not
   count, an entry that is neither makes the configuration invalid. *)
Inductive entry := EAddr (a : ip) | ESubnet (n : net) | EBad.

Definition spec_entry (s : string) : entry :=
  if existsb (fun c => Ascii.eqb c "/") (list_ascii_of_string s)
  then match parse_cidr s with Some n => ESubnet n | None => EBad end
  else match parse_ip s with Some a => EAddr a | None => EBad end.

Definition spec_entries (cfg : string) : list entry :=
  map spec_entry (filter (fun s => negb (String.eqb s "")) (map trim (split_comma cfg))).

(* the address lies on the configured list *)
Definition entry_has (e : entry) (a : ip) : bool :=
  match e with
  | EAddr b => ip_eqb a b                 (* that address, nothing else *)
  | ESubnet n => in_net n a
  | EBad => false
  end.
Definition configured (cfg : string) (a : ip) : bool := existsb (fun e => entry_has e a) (spec_entries cfg).
Definition config_valid (cfg : string) : bool :=
  forallb (fun e => match e with EBad => false | _ => true end) (spec_entries cfg).

(* the same list as networks, for [spec_addr] / [spec_gate] / [on_list]: one
   address is the network of full prefix length (C16_configured_iff: [on_list]
   of this list is [configured], for all well-formed addresses) *)
Definition entry_net (e : entry) : list net :=
  match e with
  | EAddr (V4 x) => [(V4 x, 32%N)]
  | EAddr (V6 x) => [(V6 x, 128%N)]
  | ESubnet n => [n]
  | EBad => []
  end.
Definition spec_nets (cfg : string) : option (list net) :=
  if config_valid cfg then Some (flat_map entry_net (spec_entries cfg)) else None.
(* nothing configured: the built-in default applies *)
Definition spec_or_default (d l : list net) : list net := match l with [] => d | _ => l end.

(* ---- "configured" after reloads ---------------------------------------------
   The lists in effect are those of the configuration the server loaded last: the file it
   was started with, replaced by every later file it was told to reload.  An option that
   is not in a file configures nothing (the same as an empty text: the built-in default
   applies - in particular an option that was REMOVED from the file no longer configures
   anything).  A text that is invalid is not loaded: at start there is no server then, on
   a reload the option keeps the meaning it had.  Written with filter / last, not as a
   fold over the reloads. *)
Definition cfg_text (o : option string) : string := match o with Some s => s | None => "" end.
Definition in_effect (start : option string) (reloads : list (option string)) : option string :=
  if config_valid (cfg_text start)
  then match last_opt (filter config_valid (map cfg_text reloads)) with
       | Some c => Some c
       | None => Some (cfg_text start)
       end
  else None.

Definition trace := list (op * out).

Definition P_step (e : op * out) : bool :=
  match e with
  | (ORealIP t peer xr xff, VAddr s) => String.eqb s (spec_addr t peer xr xff)
  | (OStats ep t al peer xr xff, VStatus c) =>
      Bool.eqb (N.eqb c 200) (spec_gate t al peer xr xff)
  | (OAllowed nets a, VBool b) => Bool.eqb b (on_list nets a)
  | (ODefaults, VNets _ _) => true
  (* configuration given as text: an invalid configuration is refused; otherwise
     the clauses above with the configured lists *)
  | (OCfgRealIP None peer xr xff, VAddr s) => String.eqb s (spec_addr None peer xr xff)
  | (OCfgRealIP (Some cfg) peer xr xff, v) =>
      match spec_nets cfg, v with
      | Some t, VAddr s => String.eqb s (spec_addr (Some t) peer xr xff)
      | None, VReject => true
      | _, _ => false
      end
  | (OCfgHub cfg peer xr xff, v) =>
      match spec_nets cfg, v with
      | Some t, VAddr s => String.eqb s (spec_addr (Some (spec_or_default default_trusted t)) peer xr xff)
      | None, VReject => true
      | _, _ => false
      end
  | (OCfgStats ep tcfg acfg peer xr xff, v) =>
      match spec_nets tcfg, spec_nets acfg, v with
      | Some t, Some al, VStatus c =>
          Bool.eqb (N.eqb c 200)
            (spec_gate (spec_or_default default_trusted t) (spec_or_default default_stats_allowed al) peer xr xff)
      | Some _, Some _, _ => false
      | _, _, VReject => true
      | _, _, _ => false
      end
  | (OCfgAllowed cfg a, v) =>
      match spec_nets cfg, v with
      | Some l, VBool b => Bool.eqb b (on_list l a)
      | None, VReject => true
      | _, _ => false
      end
  | (OCfgParse cfg, v) =>
      match spec_nets cfg, v with
      | Some _, VParsed _ => true
      | None, VReject => true
      | _, _ => false
      end
  (* a server with a configuration history answers as the configuration in effect says
     (the clauses of OCfgHub / OCfgStats for that text) *)
  | (OHistHub st rl peer xr xff, v) =>
      match in_effect st rl, v with
      | Some cfg, VAddr s =>
          match spec_nets cfg with
          | Some t => String.eqb s (spec_addr (Some (spec_or_default default_trusted t)) peer xr xff)
          | None => false
          end
      | None, VReject => true
      | _, _ => false
      end
  | (OHistStats ep st rl peer xr xff, v) =>
      match in_effect (fst st) (map fst rl), in_effect (snd st) (map snd rl), v with
      | Some tcfg, Some acfg, VStatus c =>
          match spec_nets tcfg, spec_nets acfg with
          | Some t, Some al =>
              Bool.eqb (N.eqb c 200)
                (spec_gate (spec_or_default default_trusted t) (spec_or_default default_stats_allowed al) peer xr xff)
          | _, _ => false
          end
      | Some _, Some _, _ => false
      | _, _, VReject => true
      | _, _, _ => false
      end
  | _ => false
  end.

Definition P_C16 (tr : trace) : bool := forallb P_step tr.

Definition trace_of (ops : list op) : trace :=
  map (fun o => (o, step parse_ip split_host_port parse_cidr o)) ops.
End Spec.

(* ---- judging one case of the correspondence run ---------------------------
   The oracles of a case are finite tables computed by Go's net.ParseIP and
   net.SplitHostPort for the strings that occur in it (a string that is not in
   a table did not parse / did not split).
   Verdict codes: 1 = model and implementation answer differently at that step,
   2 = the implementation's own answer violates P_C16,
   4 = the oracle tables do not meet the hypothesis of the theorems
       (the empty string is an address or splits). *)
Fixpoint lookup {A} (tbl : list (string * A)) (s : string) : option A :=
  match tbl with
  | [] => None
  | (k, v) :: r => if String.eqb k s then Some v else lookup r s
  end.

Definition net_eqb (a b : net) : bool := ip_eqb (fst a) (fst b) && N.eqb (snd a) (snd b).
Fixpoint list_eqb {A} (eqb : A -> A -> bool) (a b : list A) : bool :=
  match a, b with
  | [], [] => true
  | x :: a', y :: b' => eqb x y && list_eqb eqb a' b'
  | _, _ => false
  end.
Definition out_eqb (a b : out) : bool :=
  match a, b with
  | VAddr x, VAddr y => String.eqb x y
  | VStatus x, VStatus y => N.eqb x y
  | VBool x, VBool y => Bool.eqb x y
  | VNets t s, VNets t' s' => list_eqb net_eqb t t' && list_eqb net_eqb s s'
  | VReject, VReject => true
  | VParsed l, VParsed l' => list_eqb net_eqb l l'
  | _, _ => false
  end.

(* the third table: net.ParseCIDR for the entries of the case's configuration
   strings that contain a "/" (absent = error) *)
Definition case := (N * list (string * ip) * list (string * string) * list (string * net) * list (op * out))%type.
Definition mkcase_cfg (id : N) (ptbl : list (string * ip)) (stbl : list (string * string))
           (ctbl : list (string * net)) (tr : list (op * out)) : case := (id, ptbl, stbl, ctbl, tr).
Definition mkcase (id : N) (ptbl : list (string * ip)) (stbl : list (string * string))
           (tr : list (op * out)) : case := mkcase_cfg id ptbl stbl [] tr.

Fixpoint judge_steps (pi : string -> option ip) (sh : string -> option string) (pc : string -> option net)
         (id i : N) (tr : list (op * out)) : list (N * N * N) :=
  match tr with
  | [] => []
  | (o, v) :: r =>
      (if out_eqb v (step pi sh pc o) then [] else [(id, 1%N, i)]) ++
      (if P_step pi sh pc (o, v) then [] else [(id, 2%N, i)]) ++
      judge_steps pi sh pc id (N.succ i) r
  end.

Definition judge (c : case) : list (N * N * N) :=
  let '(id, ptbl, stbl, ctbl, tr) := c in
  let pi := lookup ptbl in
  let sh := lookup stbl in
  let pc := lookup ctbl in
  (match pi "", sh "" with None, None => [] | _, _ => [(id, 4%N, 0%N)] end) ++
  judge_steps pi sh pc id 0 tr.

Definition judge_all (cs : list case) : list (N * N * N) := flat_map judge cs.
