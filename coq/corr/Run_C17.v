(* Trace predicate P_C17 (the property itself, stated with the numbers of the
   property text) and the judge used by generated cases files.  No proofs. *)
From Coq Require Import List ZArith NArith Bool.
From Verif Require Export model.Throttle.
Import ListNotations.
Open Scope Z_scope.

(* numbers of the property statement, NOT taken from the source *)
Definition spec_attempts : nat := 10.
Definition spec_window : Z := 1800000000000.        (* thirty minutes *)
Definition spec_maxdelay : Z := 25000000000.        (* 25 seconds *)
Definition spec_age : Z := 43200000000000.          (* twelve hours *)

Definition trace := list (op * out).

Definition op_key (o : op) : option key :=
  match o with
  | OCheck _ a act | OFail _ a act | OProbe _ a act => Some (throttle_ip a, act)
  | OCleanup _ => None
  end.
Definition op_time (o : op) : Z :=
  match o with OCheck t _ _ | OFail t _ _ | OCleanup t | OProbe t _ _ => t end.

(* recorded failures so far: (key, time), oldest first *)
Definition hist := list (key * Z).
Definition hist_of (k : key) (h : hist) : list Z :=
  map snd (filter (fun e => key_eqb k (fst e)) h).
Definition within (w now : Z) (l : list Z) : list Z := filter (fun t => now - t <=? w) l.

Definition out_eqb (a b : out) : bool :=
  match a, b with
  | VBlocked, VBlocked | VAllowed, VAllowed | VNone, VNone => true
  | VDelay x, VDelay y => Z.eqb x y
  | VCount x, VCount y => Z.eqb x y
  | _, _ => false
  end.

(* (1) sliding window: a check is refused iff ten recorded failures of that
       address-kind lie within thirty minutes
   (2) every delay is positive and at most 25 s
   (3) delays grow with the number of recent (<= 12 h) failures of the key:
       checked against all earlier failures of the same key in the trace *)
Definition recent_count (k : key) (t : Z) (h : hist) : nat :=
  length (within spec_age t (hist_of k h)).

(* earlier delays of this key with the count they were given at: (key, count, delay) *)
Definition dlog := list (key * nat * Z).

Definition mono_ok (k : key) (n : nat) (d : Z) (l : dlog) : bool :=
  forallb (fun e => let '(k', n', d') := e in
     if key_eqb k k' then
       ((negb (n' <=? n)%nat) || (d' <=? d)) && ((negb (n <=? n')%nat) || (d <=? d'))
     else true) l.

Fixpoint P_gen (m : bool) (h : hist) (l : dlog) (tr : trace) : bool :=
  match tr with
  | [] => true
  | (o, v) :: r =>
      match o with
      | OCheck t a act =>
          let k := (throttle_ip a, act) in
          let b := (spec_attempts <=? length (within spec_window t (hist_of k h)))%nat in
          out_eqb v (if b then VBlocked else VAllowed) && P_gen m h l r
      | OFail t a act =>
          let k := (throttle_ip a, act) in
          let h' := h ++ [(k, t)] in
          let n := recent_count k t h' in
          match v with
          | VDelay d => (0 <? d) && (d <=? spec_maxdelay) && (negb m || mono_ok k n d l) && P_gen m h' ((k, n, d) :: l) r
          | _ => false
          end
      | OCleanup _ => out_eqb v VNone && P_gen m h l r
      | OProbe _ _ _ => P_gen m h l r
      end
  end.

(* full property (sequential histories) and its part (1)+(2) (any interleaving
   of checks and recordings whose time stamps are in order) *)
Definition P_C17 (tr : trace) : bool := P_gen true [] [] tr.
Definition P_C17_window (tr : trace) : bool := P_gen false [] [] tr.

(* ---- sequential histories: an attempt is a check followed, when it was
        allowed and the attempt failed, by the recording of the failure ------ *)
Inductive sop :=
| Attempt (t : Z) (a : addr) (action : N) (fails : bool)
| Cleanup (t : Z).

Definition act_time (x : sop) : Z := match x with Attempt t _ _ _ | Cleanup t => t end.

Fixpoint arun_from (s : state) (xs : list sop) : trace :=
  match xs with
  | [] => []
  | Attempt t a action fails :: r =>
      let '(s1, v) := step s (OCheck t a action) in
      match v with
      | VAllowed =>
          if fails then
            let '(s2, v2) := step s1 (OFail t a action) in
            (OCheck t a action, v) :: (OFail t a action, v2) :: arun_from s2 r
          else (OCheck t a action, v) :: arun_from s1 r
      | _ => (OCheck t a action, v) :: arun_from s1 r
      end
  | Cleanup t :: r =>
      let '(s1, v) := step s (OCleanup t) in (OCleanup t, v) :: arun_from s1 r
  end.
Definition arun (xs : list sop) : trace := arun_from init xs.

(* interleaved histories: any op list *)
Fixpoint trace_from (s : state) (ops : list op) : trace :=
  match ops with
  | [] => []
  | o :: r => let '(s', v) := step s o in (o, v) :: trace_from s' r
  end.
Definition trace_of (ops : list op) : trace := trace_from init ops.

(* ---- isolation as a predicate over TWO runs of the implementation ------------
   "Failures of one address or kind never throttle another": what the attempts
   on one (address,kind) are answered (refused / allowed, the delay, and the
   number of records kept for it) in a history equals what they are answered in
   the history restricted to that (address,kind) (clean-ups stay: they are the
   clock of the housekeeping, not attempts).  The harness executes the
   restricted history on a fresh throttler and hands over its answers; the
   restriction itself is recomputed here ([outs_for] selects the answers of the
   ops that touch the key), so an answer of a foreign op can never be compared. *)
Definition touches (k : key) (o : op) : bool :=
  match op_key o with Some k' => key_eqb k k' | None => true end.

Fixpoint outs_for (k : key) (tr : trace) : list out :=
  match tr with
  | [] => []
  | (o, v) :: r => if touches k o then v :: outs_for k r else outs_for k r
  end.

Fixpoint outs_eqb (a b : list out) : bool :=
  match a, b with
  | [], [] => true
  | x :: a', y :: b' => out_eqb x y && outs_eqb a' b'
  | _, _ => false
  end.

(* answers of the restricted run, per key *)
Definition projections := list (key * list out).

Definition iso_ok (k : key) (tr : trace) (alone : list out) : bool := outs_eqb (outs_for k tr) alone.
Definition P_C17_iso (tr : trace) (ps : projections) : bool :=
  forallb (fun e => iso_ok (fst e) tr (snd e)) ps.

(* ---- judging one case of the correspondence run ---------------------------
   A case is the op list the implementation executed together with what it
   answered.  Verdict codes: 1 = model and implementation differ at that step,
   2 = the implementation's own trace violates P_C17,
   5 = the implementation's answers to one (address,kind) depend on the ops of
       another one (P_C17_iso false; the step index is the position of the key
       in the case's projection list). *)
(* id, mode (0: compare with the model only; 1: sequential history, full
   predicate; 2: ordered time stamps, window predicate), trace, answers of the
   restricted runs *)
Definition case := (N * N * list (op * out) * projections)%type.
Definition mkcase_iso (id mode : N) (tr : trace) (ps : projections) : case := (id, mode, tr, ps).
Definition mkcase (id mode : N) (tr : trace) : case := mkcase_iso id mode tr [].

Fixpoint first_diff (i : N) (s : state) (tr : trace) : option N :=
  match tr with
  | [] => None
  | (o, v) :: r => let '(s', v') := step s o in
                   if out_eqb v v' then first_diff (N.succ i) s' r else Some i
  end.

Fixpoint first_iso_fail (i : N) (tr : trace) (ps : projections) : option N :=
  match ps with
  | [] => None
  | (k, alone) :: r => if iso_ok k tr alone then first_iso_fail (N.succ i) tr r else Some i
  end.

Definition judge (c : case) : list (N * N * N) :=
  let '(id, mode, tr, ps) := c in
  (match first_diff 0 init tr with Some i => [(id, 1%N, i)] | None => [] end) ++
  (if (match mode with 1%N => P_C17 tr | 2%N => P_C17_window tr | _ => true end) then [] else [(id, 2%N, 0%N)]) ++
  (match first_iso_fail 0 tr ps with Some i => [(id, 5%N, i)] | None => [] end).

Definition judge_all (cs : list case) : list (N * N * N) := flat_map judge cs.

(* getDelay table, compared for every count the implementation is asked *)
Definition delay_mismatches (tbl : list (Z * Z)) : list (N * N * N) :=
  flat_map (fun e => let '(c, d) := e in
     if Z.eqb (get_delay c) d then [] else [(Z.to_N c, 3%N, 0%N)]) tbl.
