(* lib/Json.v — JSON documents as trees.  Shared by C10, C11, C12.

   A value of type [json] is a *syntactically valid* JSON document after
   lexing: string escapes are resolved (member names and strings are the
   unescaped byte strings), white space is gone, number literals are kept in
   the two lexical classes Go's decoders distinguish:

     JNum z       an integer literal   -?digits            (strconv.ParseInt succeeds
                                                            iff z is in range)
     JFloat m e   any other number literal (it has a fraction or an exponent);
                  its value is m * 10^e; the harness prints it as "<m>e<e>".
                  strconv.ParseInt fails on every such literal, ParseFloat
                  succeeds iff the value rounds to a finite float64.

   Objects are *lists* of members: order and duplicates are part of the
   document (the decoders process members in order, see Decode.v).  What is
   not a tree (truncated text, bad escapes, trailing garbage, nesting deeper
   than encoding/json allows) is a separate "syntax error" input of the models.

   Contents: induction principle [json_ind'], structural equality [json_eqb]
   (+ spec), depth/size, member lookup ([lookup_last]: last duplicate wins, the
   behaviour of Go maps filled in document order; [occurrences];
   [nonnull_occurrences]; [last_nonnull]), kinds. *)
From Coq Require Import List ZArith String Bool Lia.
Import ListNotations.
Open Scope string_scope.
Open Scope list_scope.

Inductive json :=
| JNull
| JBool (b : bool)
| JNum (z : Z)
| JFloat (m e : Z)
| JStr (s : string)
| JArr (l : list json)
| JObj (ms : list (string * json)).

(* ---- induction over the nested lists ---------------------------------------- *)
Section json_induction.
  Context (P : json -> Prop)
          (Hnull : P JNull) (Hbool : forall b, P (JBool b)) (Hnum : forall z, P (JNum z))
          (Hfloat : forall m e, P (JFloat m e)) (Hstr : forall s, P (JStr s))
          (Harr : forall l, Forall P l -> P (JArr l))
          (Hobj : forall ms, Forall (fun kv => P (snd kv)) ms -> P (JObj ms)).

  Fixpoint json_ind' (j : json) : P j :=
    match j with
    | JNull => Hnull
    | JBool b => Hbool b
    | JNum z => Hnum z
    | JFloat m e => Hfloat m e
    | JStr s => Hstr s
    | JArr l =>
        Harr l ((fix go (l : list json) : Forall P l :=
                   match l with
                   | [] => Forall_nil _
                   | x :: r => Forall_cons x (json_ind' x) (go r)
                   end) l)
    | JObj ms =>
        Hobj ms ((fix go (ms : list (string * json)) : Forall (fun kv => P (snd kv)) ms :=
                    match ms with
                    | [] => Forall_nil _
                    | (k, v) :: r => Forall_cons (k, v) (json_ind' v) (go r)
                    end) ms)
    end.
End json_induction.

(* ---- kinds -------------------------------------------------------------------- *)
Inductive jkind := KNull | KBool | KNumber | KString | KArray | KObject.

Definition kind_of (j : json) : jkind :=
  match j with
  | JNull => KNull | JBool _ => KBool | JNum _ | JFloat _ _ => KNumber
  | JStr _ => KString | JArr _ => KArray | JObj _ => KObject
  end.

Definition is_null (j : json) : bool := match j with JNull => true | _ => false end.
Definition is_object (j : json) : bool := match j with JObj _ => true | _ => false end.
Definition is_string (j : json) : bool := match j with JStr _ => true | _ => false end.
Definition is_array (j : json) : bool := match j with JArr _ => true | _ => false end.

(* ---- structural equality --------------------------------------------------------
   Equality of documents as trees (member order and duplicates matter).  For
   two byte strings produced by one printer this is equality of the texts
   (bytes.Equal on json.RawMessage). *)
Fixpoint json_eqb (a b : json) {struct a} : bool :=
  match a, b with
  | JNull, JNull => true
  | JBool x, JBool y => Bool.eqb x y
  | JNum x, JNum y => Z.eqb x y
  | JFloat m e, JFloat m' e' => Z.eqb m m' && Z.eqb e e'
  | JStr x, JStr y => String.eqb x y
  | JArr l, JArr l' =>
      (fix go (l l' : list json) : bool :=
         match l, l' with
         | [], [] => true
         | x :: r, y :: r' => json_eqb x y && go r r'
         | _, _ => false
         end) l l'
  | JObj ms, JObj ms' =>
      (fix go (ms ms' : list (string * json)) : bool :=
         match ms, ms' with
         | [], [] => true
         | (k, x) :: r, (k', y) :: r' => String.eqb k k' && json_eqb x y && go r r'
         | _, _ => false
         end) ms ms'
  | _, _ => false
  end.

Lemma json_eqb_refl : forall j, json_eqb j j = true.
Proof.
  induction j using json_ind'; cbn; auto using Bool.eqb_reflx, Z.eqb_refl, String.eqb_refl.
  - now rewrite !Z.eqb_refl.
  - induction H as [|x r Hx _ IH]; [reflexivity|]. now rewrite Hx, IH.
  - induction H as [|[k v] r Hx _ IH]; [reflexivity|]. cbn in Hx. now rewrite String.eqb_refl, Hx, IH.
Qed.

Lemma json_eqb_eq : forall a b, json_eqb a b = true <-> a = b.
Proof.
  intros a b; split; [|intros ->; apply json_eqb_refl].
  revert b; induction a using json_ind'; intros [] Hq; cbn in Hq; try discriminate; try reflexivity.
  - apply Bool.eqb_prop in Hq; now subst.
  - apply Z.eqb_eq in Hq; now subst.
  - apply andb_prop in Hq as [H1 H2]. apply Z.eqb_eq in H1, H2. now subst.
  - apply String.eqb_eq in Hq; now subst.
  - f_equal. revert l0 Hq. induction H as [|x r Hx _ IH]; intros [|y r'] Hq; try discriminate; [reflexivity|].
    apply andb_prop in Hq as [H1 H2]. f_equal; [now apply Hx | now apply IH].
  - f_equal. revert ms0 Hq. induction H as [|[k v] r Hx _ IH]; intros [|[k' y] r'] Hq; try discriminate; [reflexivity|].
    apply andb_prop in Hq as [H12 H3]. apply andb_prop in H12 as [H1 H2].
    apply String.eqb_eq in H1. cbn in Hx. apply Hx in H2. subst. f_equal. now apply IH.
Qed.

Lemma json_eq_dec : forall a b : json, {a = b} + {a <> b}.
Proof.
  intros a b. destruct (json_eqb a b) eqn:E.
  - left; now apply json_eqb_eq.
  - right; intros ->. now rewrite json_eqb_refl in E.
Qed.

(* ---- depth and size --------------------------------------------------------------
   json_depth: nesting of arrays/objects (scalars 0, [] and {} 1).  encoding/json
   refuses documents nested deeper than 10000. *)
Fixpoint json_depth (j : json) : nat :=
  match j with
  | JArr l => S (fold_right (fun x acc => Nat.max (json_depth x) acc) 0%nat l)
  | JObj ms => S ((fix go (ms : list (string * json)) : nat :=
                     match ms with
                     | [] => 0%nat
                     | (_, v) :: r => Nat.max (json_depth v) (go r)
                     end) ms)
  | _ => 0%nat
  end.

Fixpoint json_size (j : json) : nat :=
  match j with
  | JArr l => S (fold_right (fun x acc => (json_size x + acc)%nat) 0%nat l)
  | JObj ms => S ((fix go (ms : list (string * json)) : nat :=
                     match ms with
                     | [] => 0%nat
                     | (_, v) :: r => (json_size v + go r)%nat
                     end) ms)
  | _ => 1%nat
  end.

(* ---- members ----------------------------------------------------------------------- *)
Definition members := list (string * json).

(* every value stored under name k, in document order *)
Definition occurrences (k : string) (ms : members) : list json :=
  map snd (filter (fun kv => String.eqb k (fst kv)) ms).

(* ... without the nulls (easyjson skips a null member before looking at its name) *)
Definition nonnull_occurrences (k : string) (ms : members) : list json :=
  filter (fun v => negb (is_null v)) (occurrences k ms).

(* last duplicate wins: what m[k] holds after filling a Go map in document order *)
Fixpoint lookup_last (k : string) (ms : members) : option json :=
  match ms with
  | [] => None
  | (k', v) :: r =>
      match lookup_last k r with
      | Some x => Some x
      | None => if String.eqb k k' then Some v else None
      end
  end.

Definition lookup_first (k : string) (ms : members) : option json :=
  match occurrences k ms with [] => None | v :: _ => Some v end.

(* the last non-null value under k: what a scalar struct field holds after an
   easyjson decode (when the decode succeeds) *)
Definition last_nonnull (k : string) (ms : members) : option json :=
  match rev (nonnull_occurrences k ms) with [] => None | v :: _ => Some v end.

Definition jget (k : string) (j : json) : option json :=
  match j with JObj ms => lookup_last k ms | _ => None end.

Definition has_dup_keys (ms : members) : bool :=
  (fix go (ms : members) : bool :=
     match ms with
     | [] => false
     | (k, _) :: r => existsb (fun kv => String.eqb k (fst kv)) r || go r
     end) ms.

Lemma lookup_last_occurrences : forall k ms,
  lookup_last k ms = match rev (occurrences k ms) with [] => None | v :: _ => Some v end.
Proof.
  intros k ms. induction ms as [|[k' v] r IH]; [reflexivity|].
  cbn [lookup_last]. rewrite IH. unfold occurrences. cbn [filter fst].
  destruct (String.eqb k k'); cbn [map snd rev].
  - destruct (rev (map snd (filter (fun kv => String.eqb k (fst kv)) r))); reflexivity.
  - destruct (rev (map snd (filter (fun kv => String.eqb k (fst kv)) r))); reflexivity.
Qed.

Lemma occurrences_app : forall k a b, occurrences k (a ++ b) = occurrences k a ++ occurrences k b.
Proof. intros. unfold occurrences. now rewrite filter_app, map_app. Qed.

Lemma nonnull_occurrences_app : forall k a b,
  nonnull_occurrences k (a ++ b) = nonnull_occurrences k a ++ nonnull_occurrences k b.
Proof. intros. unfold nonnull_occurrences. now rewrite occurrences_app, filter_app. Qed.

Lemma in_occurrences : forall k v ms, In v (occurrences k ms) <-> In (k, v) ms.
Proof.
  intros k v ms. unfold occurrences. rewrite in_map_iff. split.
  - intros [[k' v'] [E Hin]]. cbn in E; subst v'. apply filter_In in Hin as [Hin Hk].
    cbn in Hk. apply String.eqb_eq in Hk. now subst.
  - intros Hin. exists (k, v). split; [reflexivity|]. apply filter_In. split; [assumption|].
    cbn. apply String.eqb_refl.
Qed.

Lemma in_nonnull_occurrences : forall k v ms,
  In v (nonnull_occurrences k ms) <-> In (k, v) ms /\ v <> JNull.
Proof.
  intros. unfold nonnull_occurrences. rewrite filter_In, in_occurrences.
  split; intros [H1 H2]; split; auto.
  - intros ->. discriminate.
  - destruct v; try reflexivity. congruence.
Qed.
