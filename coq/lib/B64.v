(* Base64, URL alphabet with padding: the encoder of Go's encoding/base64
   (URLEncoding.Encode) and its decoder with the decoder's actual laxness
   (URLEncoding.Decode / DecodeString, non-strict):
     - '\r' and '\n' are skipped wherever they occur (also between and after
       the padding characters),
     - the unused low bits of the last sextet of a padded quantum are not
       checked,
     - padding is required ("QQ" is an error, "QQ==" is not), nothing but line
       breaks may follow the padding.
   Bytes are [ascii] (exactly 8 bits), sextets are 6 booleans, so that the
   3-bytes <-> 4-sextets regrouping is a permutation of bits and its
   round trip holds by computation.  Definitions first, lemmas after. *)
From Coq Require Import List Ascii String Bool Arith NArith Lia.
Import ListNotations.

Definition bytes := list ascii.

(* equality of byte strings *)
Fixpoint beqb (a b : bytes) : bool :=
  match a, b with
  | [], [] => true
  | x :: a', y :: b' => Ascii.eqb x y && beqb a' b'
  | _, _ => false
  end.

Inductive sextet := Sx (b5 b4 b3 b2 b1 b0 : bool).

Definition N_of_sextet (s : sextet) : N :=
  let '(Sx b5 b4 b3 b2 b1 b0) := s in N_of_ascii (Ascii b0 b1 b2 b3 b4 b5 false false).
Definition sextet_of_N (n : N) : sextet :=
  let '(Ascii b0 b1 b2 b3 b4 b5 _ _) := ascii_of_N n in Sx b5 b4 b3 b2 b1 b0.

(* "ABCDEFGHIJKLMNOPQRSTUVWXYZabcdefghijklmnopqrstuvwxyz0123456789-_" *)
Definition enc_char (s : sextet) : ascii :=
  let n := N_of_sextet s in
  ascii_of_N (if n <? 26 then n + 65 else if n <? 52 then n + 71
              else if n <? 62 then n - 4 else if n =? 62 then 45 else 95)%N.

Definition dec_char (c : ascii) : option sextet :=
  let n := N_of_ascii c in
  (if (65 <=? n) && (n <=? 90) then Some (sextet_of_N (n - 65))
   else if (97 <=? n) && (n <=? 122) then Some (sextet_of_N (n - 71))
   else if (48 <=? n) && (n <=? 57) then Some (sextet_of_N (n + 4))
   else if n =? 45 then Some (sextet_of_N 62)
   else if n =? 95 then Some (sextet_of_N 63) else None)%N.

Definition pad : ascii := "="%char.
Definition LF : ascii := "010"%char.
Definition CR : ascii := "013"%char.
Definition is_pad (c : ascii) : bool := Ascii.eqb c pad.
Definition is_nl (c : ascii) : bool := Ascii.eqb c LF || Ascii.eqb c CR.

(* ---- regrouping of bits (most significant bit first) ---------------------- *)
Definition pack3 (a b c : ascii) : sextet * sextet * sextet * sextet :=
  let '(Ascii a0 a1 a2 a3 a4 a5 a6 a7) := a in
  let '(Ascii b0 b1 b2 b3 b4 b5 b6 b7) := b in
  let '(Ascii c0 c1 c2 c3 c4 c5 c6 c7) := c in
  (Sx a7 a6 a5 a4 a3 a2, Sx a1 a0 b7 b6 b5 b4, Sx b3 b2 b1 b0 c7 c6, Sx c5 c4 c3 c2 c1 c0).
Definition pack2 (a b : ascii) : sextet * sextet * sextet :=
  let '(Ascii a0 a1 a2 a3 a4 a5 a6 a7) := a in
  let '(Ascii b0 b1 b2 b3 b4 b5 b6 b7) := b in
  (Sx a7 a6 a5 a4 a3 a2, Sx a1 a0 b7 b6 b5 b4, Sx b3 b2 b1 b0 false false).
Definition pack1 (a : ascii) : sextet * sextet :=
  let '(Ascii a0 a1 a2 a3 a4 a5 a6 a7) := a in
  (Sx a7 a6 a5 a4 a3 a2, Sx a1 a0 false false false false).

Definition unpack4 (s1 s2 s3 s4 : sextet) : bytes :=
  let '(Sx a7 a6 a5 a4 a3 a2) := s1 in
  let '(Sx a1 a0 b7 b6 b5 b4) := s2 in
  let '(Sx b3 b2 b1 b0 c7 c6) := s3 in
  let '(Sx c5 c4 c3 c2 c1 c0) := s4 in
  [Ascii a0 a1 a2 a3 a4 a5 a6 a7; Ascii b0 b1 b2 b3 b4 b5 b6 b7; Ascii c0 c1 c2 c3 c4 c5 c6 c7].
(* the low two bits of s3 are dropped without a check (non-strict decoder) *)
Definition unpack3 (s1 s2 s3 : sextet) : bytes :=
  let '(Sx a7 a6 a5 a4 a3 a2) := s1 in
  let '(Sx a1 a0 b7 b6 b5 b4) := s2 in
  let '(Sx b3 b2 b1 b0 _ _) := s3 in
  [Ascii a0 a1 a2 a3 a4 a5 a6 a7; Ascii b0 b1 b2 b3 b4 b5 b6 b7].
(* the low four bits of s2 are dropped without a check *)
Definition unpack2 (s1 s2 : sextet) : bytes :=
  let '(Sx a7 a6 a5 a4 a3 a2) := s1 in
  let '(Sx a1 a0 _ _ _ _) := s2 in
  [Ascii a0 a1 a2 a3 a4 a5 a6 a7].

(* ---- encoder -------------------------------------------------------------- *)
Fixpoint b64enc (l : bytes) : bytes :=
  match l with
  | [] => []
  | [a] => let '(s1, s2) := pack1 a in [enc_char s1; enc_char s2; pad; pad]
  | [a; b] => let '(s1, s2, s3) := pack2 a b in [enc_char s1; enc_char s2; enc_char s3; pad]
  | a :: b :: c :: r =>
      let '(s1, s2, s3, s4) := pack3 a b c in
      enc_char s1 :: enc_char s2 :: enc_char s3 :: enc_char s4 :: b64enc r
  end.

(* ---- decoder (decodeQuantum in a loop) ------------------------------------- *)
Fixpoint skip_nl (l : bytes) : bytes :=
  match l with
  | c :: r => if is_nl c then skip_nl r else l
  | [] => []
  end.
Definition all_nl (l : bytes) : bool := forallb is_nl l.

(* sextets collected so far in the current quantum *)
Inductive qacc := A0 | A1 (s1 : sextet) | A2 (s1 s2 : sextet) | A3 (s1 s2 s3 : sextet).

Fixpoint dec_go (a : qacc) (l : bytes) : option bytes :=
  match l with
  | [] => match a with A0 => Some [] | _ => None end     (* input ends inside a quantum: padding is required *)
  | c :: r =>
      match dec_char c with
      | Some s =>
          match a with
          | A0 => dec_go (A1 s) r
          | A1 s1 => dec_go (A2 s1 s) r
          | A2 s1 s2 => dec_go (A3 s1 s2 s) r
          | A3 s1 s2 s3 => option_map (app (unpack4 s1 s2 s3 s)) (dec_go A0 r)
          end
      | None =>
          if is_nl c then dec_go a r
          else if is_pad c then
            match a with
            | A0 | A1 _ => None                             (* incorrect padding *)
            | A2 s1 s2 =>                                   (* "==" expected, line breaks may sit in between *)
                match skip_nl r with
                | c2 :: r2 => if is_pad c2 && all_nl r2 then Some (unpack2 s1 s2) else None
                | [] => None
                end
            | A3 s1 s2 s3 => if all_nl r then Some (unpack3 s1 s2 s3) else None
            end
          else None
      end
  end.

Definition b64dec (l : bytes) : option bytes := dec_go A0 l.

(* the string is exactly what the encoder prints for the bytes it decodes to *)
Definition is_canonical (s : bytes) : bool :=
  match b64dec s with Some x => beqb (b64enc x) s | None => false end.

Definition strip_nl (l : bytes) : bytes := filter (fun c => negb (is_nl c)) l.

(* ======================================================================== *)
(*                                  lemmas                                   *)
(* ======================================================================== *)

Lemma beqb_eq : forall a b, beqb a b = true <-> a = b.
Proof.
  induction a as [|x a IH]; destruct b as [|y b]; cbn; split; intro H; try congruence; try discriminate.
  - apply andb_true_iff in H as [H1 H2]. apply Ascii.eqb_eq in H1. apply IH in H2. congruence.
  - injection H as -> ->. rewrite Ascii.eqb_refl. cbn. apply IH. reflexivity.
Qed.
Lemma beqb_refl : forall a, beqb a a = true.
Proof. intro a. apply beqb_eq. reflexivity. Qed.
Lemma beqb_neq : forall a b, beqb a b = false <-> a <> b.
Proof.
  intros a b. split.
  - intros H E. apply beqb_eq in E. congruence.
  - intro H. destruct (beqb a b) eqn:E; [apply beqb_eq in E; contradiction | reflexivity].
Qed.

Lemma dec_enc_char : forall s, dec_char (enc_char s) = Some s.
Proof. intros [[] [] [] [] [] []]; vm_compute; reflexivity. Qed.

Lemma enc_dec_char : forall c s, dec_char c = Some s -> enc_char s = c.
Proof.
  intros [[] [] [] [] [] [] [] []] s H; vm_compute in H; try discriminate H;
    injection H as <-; vm_compute; reflexivity.
Qed.

Lemma enc_char_not_nl : forall s, is_nl (enc_char s) = false.
Proof. intros [[] [] [] [] [] []]; vm_compute; reflexivity. Qed.
Lemma enc_char_not_pad : forall s, is_pad (enc_char s) = false.
Proof. intros [[] [] [] [] [] []]; vm_compute; reflexivity. Qed.
Lemma enc_char_not_pipe : forall s, enc_char s <> "|"%char.
Proof. intros [[] [] [] [] [] []]; vm_compute; discriminate. Qed.
Lemma dec_char_pad : dec_char pad = None. Proof. reflexivity. Qed.
Lemma dec_char_nl : forall c, is_nl c = true -> dec_char c = None.
Proof.
  intros c H. unfold is_nl in H. apply orb_true_iff in H as [H|H]; apply Ascii.eqb_eq in H; subst c; reflexivity.
Qed.
Lemma pad_not_nl : is_nl pad = false. Proof. reflexivity. Qed.

Lemma unpack_pack3 : forall a b c s1 s2 s3 s4, pack3 a b c = (s1, s2, s3, s4) -> unpack4 s1 s2 s3 s4 = [a; b; c].
Proof. intros [] [] [] s1 s2 s3 s4 H. injection H as <- <- <- <-. reflexivity. Qed.
Lemma unpack_pack2 : forall a b s1 s2 s3, pack2 a b = (s1, s2, s3) -> unpack3 s1 s2 s3 = [a; b].
Proof. intros [] [] s1 s2 s3 H. injection H as <- <- <-. reflexivity. Qed.
Lemma unpack_pack1 : forall a s1 s2, pack1 a = (s1, s2) -> unpack2 s1 s2 = [a].
Proof. intros [] s1 s2 H. injection H as <- <-. reflexivity. Qed.

Lemma bytes_ind3 (P : list ascii -> Prop) :
  P [] -> (forall a, P [a]) -> (forall a b, P [a; b]) ->
  (forall a b c r, P r -> P (a :: b :: c :: r)) -> forall l : list ascii, P l.
Proof.
  intros H0 H1 H2 H3. fix IH 1. intros [|a [|b [|c r]]]; [exact H0 | apply H1 | apply H2 | apply H3; apply IH].
Qed.

(* ---- round trip ------------------------------------------------------------ *)
Lemma dec_go_sextet : forall a c s r, dec_char c = Some s ->
  dec_go a (c :: r) =
  match a with
  | A0 => dec_go (A1 s) r
  | A1 s1 => dec_go (A2 s1 s) r
  | A2 s1 s2 => dec_go (A3 s1 s2 s) r
  | A3 s1 s2 s3 => option_map (app (unpack4 s1 s2 s3 s)) (dec_go A0 r)
  end.
Proof. intros a c s r H. cbn [dec_go]. rewrite H. reflexivity. Qed.

Lemma dec_go_quantum : forall s1 s2 s3 s4 r,
  dec_go A0 (enc_char s1 :: enc_char s2 :: enc_char s3 :: enc_char s4 :: r) =
  option_map (app (unpack4 s1 s2 s3 s4)) (dec_go A0 r).
Proof.
  intros. rewrite (dec_go_sextet A0 _ s1) by apply dec_enc_char.
  rewrite (dec_go_sextet (A1 s1) _ s2) by apply dec_enc_char.
  rewrite (dec_go_sextet (A2 s1 s2) _ s3) by apply dec_enc_char.
  rewrite (dec_go_sextet (A3 s1 s2 s3) _ s4) by apply dec_enc_char.
  reflexivity.
Qed.

Lemma dec_go_pad : forall a r,
  dec_go a (pad :: r) =
  match a with
  | A0 | A1 _ => None
  | A2 s1 s2 => match skip_nl r with
                | c2 :: r2 => if is_pad c2 && all_nl r2 then Some (unpack2 s1 s2) else None
                | [] => None
                end
  | A3 s1 s2 s3 => if all_nl r then Some (unpack3 s1 s2 s3) else None
  end.
Proof. intros. reflexivity. Qed.

Theorem b64_roundtrip : forall x, b64dec (b64enc x) = Some x.
Proof.
  unfold b64dec. induction x as [|a|a b|a b c r IH] using bytes_ind3.
  - reflexivity.
  - cbn [b64enc]. destruct (pack1 a) as [s1 s2] eqn:E.
    rewrite (dec_go_sextet A0 _ s1) by apply dec_enc_char.
    rewrite (dec_go_sextet (A1 s1) _ s2) by apply dec_enc_char.
    rewrite dec_go_pad. cbn. rewrite (unpack_pack1 _ _ _ E). reflexivity.
  - cbn [b64enc]. destruct (pack2 a b) as [[s1 s2] s3] eqn:E.
    rewrite (dec_go_sextet A0 _ s1) by apply dec_enc_char.
    rewrite (dec_go_sextet (A1 s1) _ s2) by apply dec_enc_char.
    rewrite (dec_go_sextet (A2 s1 s2) _ s3) by apply dec_enc_char.
    rewrite dec_go_pad. cbn. rewrite (unpack_pack2 _ _ _ _ _ E). reflexivity.
  - cbn [b64enc]. destruct (pack3 a b c) as [[[s1 s2] s3] s4] eqn:E.
    rewrite dec_go_quantum, IH. cbn. rewrite (unpack_pack3 _ _ _ _ _ _ _ E). reflexivity.
Qed.

Corollary b64enc_inj : forall x y, b64enc x = b64enc y -> x = y.
Proof.
  intros x y H. assert (E : b64dec (b64enc x) = b64dec (b64enc y)) by (rewrite H; reflexivity).
  rewrite !b64_roundtrip in E. congruence.
Qed.

(* ---- output alphabet --------------------------------------------------------- *)
Definition b64_out_char (c : ascii) : Prop := c <> "|"%char /\ is_nl c = false.

Lemma enc_char_out : forall s, b64_out_char (enc_char s).
Proof. intro s. split; [apply enc_char_not_pipe | apply enc_char_not_nl]. Qed.
Lemma pad_out : b64_out_char pad.
Proof. split; [discriminate | reflexivity]. Qed.

Lemma b64enc_alphabet : forall x, Forall b64_out_char (b64enc x).
Proof.
  induction x as [|a|a b|a b c r IH] using bytes_ind3; cbn [b64enc].
  - constructor.
  - destruct (pack1 a) as [s1 s2]. repeat constructor; try apply enc_char_out; apply pad_out.
  - destruct (pack2 a b) as [[s1 s2] s3]. repeat constructor; try apply enc_char_out; apply pad_out.
  - destruct (pack3 a b c) as [[[s1 s2] s3] s4]. repeat (constructor; [apply enc_char_out|]). exact IH.
Qed.

Lemma b64enc_no_pipe : forall x, ~ In "|"%char (b64enc x).
Proof.
  intros x H. pose proof (b64enc_alphabet x) as F. rewrite Forall_forall in F.
  destruct (F _ H) as [N _]. apply N. reflexivity.
Qed.

Lemma b64enc_no_nl : forall x, strip_nl (b64enc x) = b64enc x.
Proof.
  intro x. pose proof (b64enc_alphabet x) as F. unfold strip_nl.
  induction F as [|c l [_ Hc] F IH]; cbn; [reflexivity|]. rewrite Hc. cbn. f_equal. exact IH.
Qed.

(* the length of the encoding depends on the length only *)
Lemma b64enc_length_dep : forall x y, List.length x = List.length y -> List.length (b64enc x) = List.length (b64enc y).
Proof.
  induction x as [|a|a b|a b c r IH] using bytes_ind3; intros y H.
  - destruct y; [reflexivity | discriminate].
  - destruct y as [|a' [|]]; try discriminate. cbn [b64enc].
    destruct (pack1 a), (pack1 a'). reflexivity.
  - destruct y as [|a' [|b' [|]]]; try discriminate. cbn [b64enc].
    destruct (pack2 a b) as [[? ?] ?], (pack2 a' b') as [[? ?] ?]. reflexivity.
  - destruct y as [|a' [|b' [|c' r']]]; try discriminate. cbn [b64enc].
    destruct (pack3 a b c) as [[[? ?] ?] ?], (pack3 a' b' c') as [[[? ?] ?] ?]. cbn [List.length].
    f_equal. f_equal. f_equal. f_equal. apply IH. cbn in H. lia.
Qed.

(* ---- canonical strings --------------------------------------------------------- *)
Lemma is_canonical_spec : forall s, is_canonical s = true <-> exists x, s = b64enc x.
Proof.
  intro s. unfold is_canonical. split.
  - destruct (b64dec s) as [x|]; [|discriminate]. intro H. apply beqb_eq in H. eauto.
  - intros [x ->]. rewrite b64_roundtrip. apply beqb_refl.
Qed.

Lemma canonical_dec_enc : forall s x, is_canonical s = true -> b64dec s = Some x -> s = b64enc x.
Proof.
  intros s x H D. unfold is_canonical in H. rewrite D in H. apply beqb_eq in H. congruence.
Qed.

Lemma canonical_unique : forall s s', is_canonical s = true -> is_canonical s' = true ->
  b64dec s = b64dec s' -> s = s'.
Proof.
  intros s s' H H' E. apply is_canonical_spec in H as [x ->]. apply is_canonical_spec in H' as [y ->].
  rewrite !b64_roundtrip in E. congruence.
Qed.

(* ---- the decoder does not see line breaks ----------------------------------------- *)
Lemma all_nl_strip : forall l, all_nl l = match strip_nl l with [] => true | _ => false end.
Proof.
  induction l as [|c r IH]; [reflexivity|]. cbn. destruct (is_nl c); cbn; [exact IH | reflexivity].
Qed.
Lemma strip_skip_nl : forall l, strip_nl (skip_nl l) = strip_nl l.
Proof.
  induction l as [|c r IH]; [reflexivity|]. cbn. destruct (is_nl c) eqn:E; cbn; [exact IH | rewrite E; reflexivity].
Qed.
Lemma skip_nl_head : forall l c r, skip_nl l = c :: r -> is_nl c = false.
Proof.
  induction l as [|c' r' IH]; intros c r H; [discriminate|]. cbn in H.
  destruct (is_nl c') eqn:E; [eauto | injection H as <- <-; exact E].
Qed.
Lemma skip_nl_strip : forall l, skip_nl (strip_nl l) = strip_nl l.
Proof.
  induction l as [|c r IH]; [reflexivity|]. cbn. destruct (is_nl c) eqn:E; cbn; [exact IH | rewrite E; reflexivity].
Qed.

Lemma strip_nl_keep : forall c r, is_nl c = false -> strip_nl (c :: r) = c :: strip_nl r.
Proof. intros c r H. unfold strip_nl. cbn. rewrite H. reflexivity. Qed.
Lemma strip_nl_drop : forall c r, is_nl c = true -> strip_nl (c :: r) = strip_nl r.
Proof. intros c r H. unfold strip_nl. cbn. rewrite H. reflexivity. Qed.
Lemma strip_nl_idem : forall l, strip_nl (strip_nl l) = strip_nl l.
Proof.
  induction l as [|c r IH]; [reflexivity|]. destruct (is_nl c) eqn:E.
  - rewrite (strip_nl_drop _ _ E). exact IH.
  - rewrite (strip_nl_keep _ _ E), (strip_nl_keep _ _ E). f_equal. exact IH.
Qed.
Lemma all_nl_strip_eq : forall l, all_nl (strip_nl l) = all_nl l.
Proof. intro l. rewrite (all_nl_strip (strip_nl l)), (all_nl_strip l), strip_nl_idem. reflexivity. Qed.

Lemma pad2_strip : forall r,
  match skip_nl r with c2 :: r2 => is_pad c2 && all_nl r2 | [] => false end =
  match skip_nl (strip_nl r) with c2 :: r2 => is_pad c2 && all_nl r2 | [] => false end.
Proof.
  intro r. rewrite skip_nl_strip. rewrite <- (strip_skip_nl r).
  destruct (skip_nl r) as [|c2 r2] eqn:E; [reflexivity|].
  pose proof (skip_nl_head _ _ _ E) as Hc. rewrite (strip_nl_keep _ _ Hc), all_nl_strip_eq. reflexivity.
Qed.

Lemma dec_go_strip : forall l a, dec_go a l = dec_go a (strip_nl l).
Proof.
  induction l as [|c r IH]; intro a; [reflexivity|].
  destruct (is_nl c) eqn:Enl.
  - rewrite (strip_nl_drop _ _ Enl). cbn [dec_go]. rewrite (dec_char_nl _ Enl), Enl. apply IH.
  - rewrite (strip_nl_keep _ _ Enl).
    cbn [dec_go]. rewrite Enl. destruct (dec_char c) as [s|].
    + destruct a; rewrite <- ?IH; reflexivity.
    + destruct (is_pad c); [|reflexivity]. destruct a as [| |s1 s2|s1 s2 s3]; try reflexivity.
      * pose proof (pad2_strip r) as P.
        destruct (skip_nl r) as [|c2 r2]; destruct (skip_nl (strip_nl r)) as [|c3 r3]; try reflexivity.
        -- destruct (is_pad c3 && all_nl r3); [discriminate P | reflexivity].
        -- destruct (is_pad c2 && all_nl r2); [discriminate P | reflexivity].
        -- rewrite P. reflexivity.
      * rewrite all_nl_strip_eq. reflexivity.
Qed.

(* line breaks anywhere in the input are ignored *)
Theorem b64dec_ignores_nl : forall s, b64dec s = b64dec (strip_nl s).
Proof. intro s. apply dec_go_strip. Qed.

Corollary b64dec_insert_nl : forall s1 s2 c, is_nl c = true -> b64dec (s1 ++ c :: s2) = b64dec (s1 ++ s2).
Proof.
  intros s1 s2 c H. rewrite b64dec_ignores_nl, (b64dec_ignores_nl (s1 ++ s2)).
  unfold strip_nl. rewrite !filter_app. cbn. rewrite H. reflexivity.
Qed.

(* a string with a line break is never canonical *)
Lemma canonical_no_nl : forall s, is_canonical s = true -> strip_nl s = s.
Proof. intros s H. apply is_canonical_spec in H as [x ->]. apply b64enc_no_nl. Qed.

(* ---- unused trailing bits are not checked ----------------------------------------- *)
Lemma dec_go_full_prefix : forall x r, (Nat.modulo (List.length x) 3 = 0) ->
  dec_go A0 (b64enc x ++ r) = option_map (app x) (dec_go A0 r).
Proof.
  induction x as [|a|a b|a b c x IH] using bytes_ind3; intros r H.
  - cbn. destruct (dec_go A0 r); reflexivity.
  - discriminate.
  - discriminate.
  - cbn [b64enc]. destruct (pack3 a b c) as [[[s1 s2] s3] s4] eqn:E. cbn [app].
    rewrite dec_go_quantum, IH.
    + destruct (dec_go A0 r); cbn; [|reflexivity]. rewrite (unpack_pack3 _ _ _ _ _ _ _ E). reflexivity.
    + change (a :: b :: c :: x) with ([a; b; c] ++ x) in H. rewrite app_length in H. cbn [List.length] in H.
      rewrite <- (Nat.add_mod_idemp_l 3 (List.length x) 3) in H by lia. exact H.
Qed.

(* one padded byte: the second sextet's low four bits are free *)
Theorem b64dec_trailing4 : forall x a s1 s2 b3 b2 b1 b0, (Nat.modulo (List.length x) 3 = 0) ->
  pack1 a = (s1, s2) ->
  let '(Sx a1 a0 _ _ _ _) := s2 in
  b64dec (b64enc x ++ [enc_char s1; enc_char (Sx a1 a0 b3 b2 b1 b0); pad; pad]) = Some (x ++ [a]).
Proof.
  intros x a s1 s2 b3 b2 b1 b0 Hx E. destruct s2 as [a1 a0 z3 z2 z1 z0].
  unfold b64dec. rewrite dec_go_full_prefix by exact Hx.
  rewrite (dec_go_sextet A0 _ s1) by apply dec_enc_char.
  rewrite (dec_go_sextet (A1 s1) _ (Sx a1 a0 b3 b2 b1 b0)) by apply dec_enc_char.
  rewrite dec_go_pad. cbn [skip_nl is_nl]. cbn.
  destruct a. cbn in E. injection E as <- <- <- _ _ _ _. reflexivity.
Qed.

(* two padded bytes: the third sextet's low two bits are free *)
Theorem b64dec_trailing2 : forall x a b s1 s2 s3 c1 c0, (Nat.modulo (List.length x) 3 = 0) ->
  pack2 a b = (s1, s2, s3) ->
  let '(Sx b3 b2 b1 b0 _ _) := s3 in
  b64dec (b64enc x ++ [enc_char s1; enc_char s2; enc_char (Sx b3 b2 b1 b0 c1 c0); pad]) = Some (x ++ [a; b]).
Proof.
  intros x a b s1 s2 s3 c1 c0 Hx E. destruct s3 as [b3 b2 b1 b0 z1 z0].
  unfold b64dec. rewrite dec_go_full_prefix by exact Hx.
  rewrite (dec_go_sextet A0 _ s1) by apply dec_enc_char.
  rewrite (dec_go_sextet (A1 s1) _ s2) by apply dec_enc_char.
  rewrite (dec_go_sextet (A2 s1 s2) _ (Sx b3 b2 b1 b0 c1 c0)) by apply dec_enc_char.
  rewrite dec_go_pad. cbn.
  destruct a, b. cbn in E. injection E as <- <- <- <- <- <- _ _. reflexivity.
Qed.
