(* lib/Decode.v — shape semantics of the generated easyjson decoders, driven by
   the struct schemas of gen/Schema.v.  Shared by C10, C11, C12.

   What is modelled (github.com/mailru/easyjson v0.9.0 generated code + jlexer,
   UseMultipleErrors = false, so every error is fatal for the whole document):

   * a struct is decoded from a JSON object by walking the members in document
     order; a member whose value is `null` is skipped *before* its name is looked
     at (the field keeps what it had: zero value / nil pointer at first);
     unknown names are ignored; names are case-sensitive; a repeated name is
     decoded again into the same field: scalars, slices, maps and raw messages
     are replaced (last duplicate wins), a nested struct (or pointer to struct)
     is decoded *into the existing value* (members merge);
   * `null` in place of a struct (top level, element of a slice) leaves the zero
     struct, without error; `null` as element of a slice / value of a map gives
     nil for pointers, slices, maps, interfaces, the raw text "null" for
     json.RawMessage and an error for strings, numbers and booleans;
   * a JSON value of the wrong kind is an error (expected string / number / bool /
     "[" / "{");
   * integers: the literal must be an integer literal (no fraction, no exponent)
     inside the range of the Go type (strconv.ParseInt/ParseUint);
     float64 and numbers inside interface{}: the value must round to a finite
     float64 (strconv.ParseFloat);
   * json.RawMessage keeps the raw value (here: the tree); interface{} is filled
     by Lexer.Interface() (objects become Go maps: last duplicate wins - use
     Json.lookup_last on the kept tree).

   Reformulation used here: the generated code is one loop over the members
   with a `switch` on the name.  Every case writes only its own field and every
   error is fatal, so the result is the same as decoding, for every field of
   the schema, the non-null values stored under its JSON name in document
   order (function [decode], structural on the type).  Which of several errors
   is reported first is not preserved (all of them are "decode error").

   Types come from the translator as text ([resolve] parses "[]map[string]interface{}",
   "*BackendRoomInviteRequest", ...) against a type environment: the generated
   struct schemas plus a hand-written table of named non-struct types. *)
From Coq Require Import List ZArith String Bool Ascii Lia.
From Verif Require Import lib.Json.
Import ListNotations.
Open Scope string_scope.
Open Scope list_scope.

(* ---- Go types ------------------------------------------------------------------ *)
Inductive gty :=
| TBool
| TString
| TInt (lo hi : Z)                 (* any integer type, with its range *)
| TFloat
| TRaw                             (* json.RawMessage *)
| TIface                           (* interface{} / any *)
| TSlice (t : gty)
| TMap (t : gty)                   (* map[string]t *)
| TPtr (t : gty)
| TStruct (fs : list (string * string * gty))   (* (Go field name, JSON name, type) *)
| TOpaque (name : string).         (* a type with its own UnmarshalJSON: the raw value is kept *)

(* ---- Go values ------------------------------------------------------------------
   nil and empty are identified for slices and maps (len, range, lookup and
   delete do not distinguish them; *writing* into a map without entries is the
   one operation that needs care: a map decoded from `{}` or `null` is nil). *)
Inductive gval :=
| GNil                              (* nil pointer, nil interface *)
| GBool (b : bool)
| GInt (z : Z)
| GNumber (j : json)                (* float64 field: the literal it was parsed from *)
| GStr (s : string)
| GRaw (r : option json)            (* json.RawMessage; None = empty *)
| GIface (j : json)                 (* non-nil interface{} built by Lexer.Interface() *)
| GSlice (l : list gval)
| GMap (m : list (string * gval))   (* keys unique, in order of first insertion *)
| GPtr (v : gval)
| GStruct (fs : list (string * gval)).   (* Go field name -> value, in schema order *)

Inductive derr := EKind | ERange | EFloat.
Inductive result (A : Type) := Ok (a : A) | Err (e : derr).
Arguments Ok {A} a.
Arguments Err {A} e.

Definition is_ok {A} (r : result A) : bool := match r with Ok _ => true | Err _ => false end.

(* ---- zero values ------------------------------------------------------------------ *)
Fixpoint zero (t : gty) : gval :=
  match t with
  | TBool => GBool false
  | TString => GStr ""
  | TInt _ _ => GInt 0%Z
  | TFloat => GNumber (JNum 0%Z)
  | TRaw | TOpaque _ => GRaw None
  | TIface => GNil
  | TSlice _ => GSlice []
  | TMap _ => GMap []
  | TPtr _ => GNil
  | TStruct fs =>
      GStruct ((fix go (fs : list (string * string * gty)) : list (string * gval) :=
                  match fs with
                  | [] => []
                  | (gn, _, ft) :: r => (gn, zero ft) :: go r
                  end) fs)
  end.

(* ---- accessors ----------------------------------------------------------------------- *)
Fixpoint assoc {A} (k : string) (l : list (string * A)) : option A :=
  match l with
  | [] => None
  | (k', v) :: r => if String.eqb k k' then Some v else assoc k r
  end.

(* field of a struct value (GNil when there is no such field) *)
Definition fld (name : string) (v : gval) : gval :=
  match v with
  | GStruct fs => match assoc name fs with Some x => x | None => GNil end
  | _ => GNil
  end.

Definition sget (name : string) (v : gval) (dflt : gval) : gval :=
  match v with
  | GStruct fs => match assoc name fs with Some x => x | None => dflt end
  | _ => dflt
  end.

(* m[k] = v *)
Fixpoint map_set {A} (k : string) (v : A) (m : list (string * A)) : list (string * A) :=
  match m with
  | [] => [(k, v)]
  | (k', v') :: r => if String.eqb k k' then (k, v) :: r else (k', v') :: map_set k v r
  end.

(* ---- float64 range ------------------------------------------------------------------
   strconv.ParseFloat reports an error exactly when the decimal value rounds to
   +-Inf, i.e. when |m * 10^e| >= 2^1024 - 2^970 (half an ulp above MaxFloat64,
   ties go to the even mantissa, which is 2^1024). *)
Definition float_limit : Z := (2 ^ 1024 - 2 ^ 970)%Z.

Definition float_in_range (m e : Z) : bool :=
  (if m =? 0 then true
   else if e >? 310 then false
   else if e >=? 0 then Z.abs m * 10 ^ e <? float_limit
   else Z.abs m <? float_limit * 10 ^ (- e))%Z.

(* every number literal inside fits a float64 (Lexer.Interface) *)
Fixpoint iface_ok (j : json) : bool :=
  match j with
  | JNum z => float_in_range z 0%Z
  | JFloat m e => float_in_range m e
  | JArr l => forallb iface_ok l
  | JObj ms => (fix go (ms : list (string * json)) : bool :=
                  match ms with
                  | [] => true
                  | (_, v) :: r => iface_ok v && go r
                  end) ms
  | _ => true
  end.

(* ---- decode ----------------------------------------------------------------------------
   [decode t cur j]: decode the JSON value j into a location of type t that
   currently holds cur.  JNull is given the slice-element / top-level meaning;
   the struct case filters null members itself. *)
Fixpoint decode (t : gty) (cur : gval) (j : json) {struct t} : result gval :=
  match t with
  | TBool => match j with JBool b => Ok (GBool b) | _ => Err EKind end
  | TString => match j with JStr s => Ok (GStr s) | _ => Err EKind end
  | TInt lo hi =>
      match j with
      | JNum z => if ((lo <=? z) && (z <=? hi))%Z then Ok (GInt z) else Err ERange
      | JFloat _ _ => Err ERange
      | _ => Err EKind
      end
  | TFloat =>
      match j with
      | JNum z => if float_in_range z 0%Z then Ok (GNumber j) else Err EFloat
      | JFloat m e => if float_in_range m e then Ok (GNumber j) else Err EFloat
      | _ => Err EKind
      end
  | TRaw | TOpaque _ => Ok (GRaw (Some j))
  | TIface =>
      match j with
      | JNull => Ok GNil
      | _ => if iface_ok j then Ok (GIface j) else Err EFloat
      end
  | TPtr t' =>
      match j with
      | JNull => Ok GNil
      | _ => match decode t' (match cur with GPtr v => v | _ => zero t' end) j with
             | Ok v => Ok (GPtr v)
             | Err e => Err e
             end
      end
  | TSlice t' =>
      match j with
      | JNull => Ok (GSlice [])
      | JArr l =>
          match (fix go (l : list json) : result (list gval) :=
                   match l with
                   | [] => Ok []
                   | x :: r => match decode t' (zero t') x with
                               | Err e => Err e
                               | Ok v => match go r with Err e => Err e | Ok vs => Ok (v :: vs) end
                               end
                   end) l with
          | Ok vs => Ok (GSlice vs)
          | Err e => Err e
          end
      | _ => Err EKind
      end
  | TMap t' =>
      match j with
      | JNull => Ok (GMap [])
      | JObj ms =>
          match (fix go (ms : list (string * json)) (acc : list (string * gval)) : result (list (string * gval)) :=
                   match ms with
                   | [] => Ok acc
                   | (k, x) :: r => match decode t' (zero t') x with
                                    | Err e => Err e
                                    | Ok v => go r (map_set k v acc)
                                    end
                   end) ms [] with
          | Ok m => Ok (GMap m)
          | Err e => Err e
          end
      | _ => Err EKind
      end
  | TStruct fs =>
      match j with
      | JNull => Ok cur
      | JObj ms =>
          match (fix fields (fs : list (string * string * gty)) : result (list (string * gval)) :=
                   match fs with
                   | [] => Ok []
                   | (gn, jn, ft) :: fs' =>
                       match (fix occs (vs : list json) (c : gval) : result gval :=
                                match vs with
                                | [] => Ok c
                                | v :: r => match decode ft c v with
                                            | Err e => Err e
                                            | Ok c' => occs r c'
                                            end
                                end) (nonnull_occurrences jn ms) (sget gn cur (zero ft)) with
                       | Err e => Err e
                       | Ok v => match fields fs' with
                                 | Err e => Err e
                                 | Ok r => Ok ((gn, v) :: r)
                                 end
                       end
                   end) fs with
          | Ok vs => Ok (GStruct vs)
          | Err e => Err e
          end
      | _ => Err EKind
      end
  end.

(* the two inner loops of the struct case as top-level functions (for proofs) *)
Fixpoint decode_occs (ft : gty) (vs : list json) (c : gval) : result gval :=
  match vs with
  | [] => Ok c
  | v :: r => match decode ft c v with Err e => Err e | Ok c' => decode_occs ft r c' end
  end.

Fixpoint decode_fields (fs : list (string * string * gty)) (cur : gval) (ms : members)
  : result (list (string * gval)) :=
  match fs with
  | [] => Ok []
  | (gn, jn, ft) :: fs' =>
      match decode_occs ft (nonnull_occurrences jn ms) (sget gn cur (zero ft)) with
      | Err e => Err e
      | Ok v => match decode_fields fs' cur ms with
                | Err e => Err e
                | Ok r => Ok ((gn, v) :: r)
                end
      end
  end.

Lemma decode_struct_obj : forall fs cur ms,
  decode (TStruct fs) cur (JObj ms) =
  match decode_fields fs cur ms with Ok vs => Ok (GStruct vs) | Err e => Err e end.
Proof.
  intros fs cur ms. cbn [decode].
  assert (H : forall fs,
    (fix fields (fs : list (string * string * gty)) : result (list (string * gval)) :=
       match fs with
       | [] => Ok []
       | (gn, jn, ft) :: fs' =>
           match (fix occs (vs : list json) (c : gval) : result gval :=
                    match vs with
                    | [] => Ok c
                    | v :: r => match decode ft c v with
                                | Err e => Err e
                                | Ok c' => occs r c'
                                end
                    end) (nonnull_occurrences jn ms) (sget gn cur (zero ft)) with
           | Err e => Err e
           | Ok v => match fields fs' with
                     | Err e => Err e
                     | Ok r => Ok ((gn, v) :: r)
                     end
           end
       end) fs = decode_fields fs cur ms).
  { induction fs0 as [|[[gn jn] ft] fs' IH]; [reflexivity|].
    cbn [decode_fields]. rewrite <- IH.
    assert (Ho : forall vs c,
      (fix occs (vs : list json) (c : gval) : result gval :=
         match vs with
         | [] => Ok c
         | v :: r => match decode ft c v with
                     | Err e => Err e
                     | Ok c' => occs r c'
                     end
         end) vs c = decode_occs ft vs c).
    { induction vs as [|v r IHr]; intros c; [reflexivity|]. cbn [decode_occs].
      destruct (decode ft c v); [apply IHr | reflexivity]. }
    now rewrite Ho. }
  now rewrite H.
Qed.

(* encoding/json shapes needed next to easyjson (json.Unmarshal into []string and
   map[string]json.RawMessage): null elements become "", other kinds are errors;
   map values are kept raw, last duplicate wins. *)
Fixpoint std_string_list (l : list json) : option (list string) :=
  match l with
  | [] => Some []
  | JStr s :: r => option_map (cons s) (std_string_list r)
  | JNull :: r => option_map (cons "") (std_string_list r)
  | _ :: _ => None
  end.

Fixpoint std_raw_map (ms : members) (acc : list (string * json)) : list (string * json) :=
  match ms with
  | [] => acc
  | (k, v) :: r => std_raw_map r (map_set k v acc)
  end.

(* ---- type environment and parsing of Go type text ---------------------------------------- *)
Definition sfield := (string * string * string * bool)%type.   (* = gen.Schema.field *)

Record tyenv := {
  te_structs : list (string * list sfield);   (* struct name -> generated schema *)
  te_aliases : list (string * string);        (* named non-struct type -> its underlying type (as text) *)
  te_opaque : list string                     (* types with a hand-written UnmarshalJSON *)
}.

Definition drop (n : nat) (s : string) : string := substring n (String.length s - n) s.

Definition int_range (bits : Z) : gty := TInt (- 2 ^ (bits - 1))%Z (2 ^ (bits - 1) - 1)%Z.
Definition uint_range (bits : Z) : gty := TInt 0%Z (2 ^ bits - 1)%Z.

Definition basic_type (txt : string) : option gty :=
  if String.eqb txt "bool" then Some TBool
  else if String.eqb txt "string" then Some TString
  else if String.eqb txt "int" then Some (int_range 64%Z)
  else if String.eqb txt "int8" then Some (int_range 8%Z)
  else if String.eqb txt "int16" then Some (int_range 16%Z)
  else if String.eqb txt "int32" then Some (int_range 32%Z)
  else if String.eqb txt "int64" then Some (int_range 64%Z)
  else if String.eqb txt "uint" then Some (uint_range 64%Z)
  else if String.eqb txt "uint8" then Some (uint_range 8%Z)
  else if String.eqb txt "uint16" then Some (uint_range 16%Z)
  else if String.eqb txt "uint32" then Some (uint_range 32%Z)
  else if String.eqb txt "uint64" then Some (uint_range 64%Z)
  else if String.eqb txt "time.Duration" then Some (int_range 64%Z)
  else if String.eqb txt "float64" then Some TFloat
  else if String.eqb txt "json.RawMessage" then Some TRaw
  else if String.eqb txt "interface{}" then Some TIface
  else if String.eqb txt "any" then Some TIface
  else None.

(* Embedded structs are flattened (their fields are decoded as fields of the
   outer struct, as easyjson does); other embedded types are dropped. *)
Fixpoint resolve (fuel : nat) (E : tyenv) (txt : string) {struct fuel} : option gty :=
  match fuel with
  | O => None
  | S f =>
      match basic_type txt with
      | Some t => Some t
      | None =>
          if prefix "*" txt then option_map TPtr (resolve f E (drop 1 txt))
          else if prefix "[]" txt then option_map TSlice (resolve f E (drop 2 txt))
          else if prefix "map[string]" txt then option_map TMap (resolve f E (drop 11 txt))
          else if existsb (String.eqb txt) (te_opaque E) then Some (TOpaque txt)
          else match assoc txt (te_aliases E) with
               | Some txt' => resolve f E txt'
               | None =>
                   match assoc txt (te_structs E) with
                   | None => None
                   | Some sch =>
                       option_map TStruct
                         ((fix go (sch : list sfield) : option (list (string * string * gty)) :=
                             match sch with
                             | [] => Some []
                             | (gn, jn, ty, _) :: r =>
                                 if String.eqb gn "<embedded>" then
                                   match resolve f E ty, go r with
                                   | Some (TStruct efs), Some rest => Some (efs ++ rest)
                                   | Some (TPtr (TStruct efs)), Some rest => Some (efs ++ rest)
                                   | _, Some rest => Some rest
                                   | _, None => None
                                   end
                                 else
                                   match resolve f E ty, go r with
                                   | Some t, Some rest => Some ((gn, jn, t) :: rest)
                                   | _, _ => None
                                   end
                             end) sch)
                   end
               end
      end
  end.

(* ---- small readers used by the models (total; the defaults are never reached on
        values that came out of [decode] at the corresponding type) ------------------ *)
Definition as_str (v : gval) : string := match v with GStr s => s | _ => "" end.
Definition as_bool (v : gval) : bool := match v with GBool b => b | _ => false end.
Definition as_int (v : gval) : Z := match v with GInt z => z | _ => 0%Z end.
Definition as_list (v : gval) : list gval := match v with GSlice l => l | _ => [] end.
Definition as_map (v : gval) : list (string * gval) := match v with GMap m => m | _ => [] end.
Definition as_strs (v : gval) : list string := map as_str (as_list v).
Definition as_raw (v : gval) : option json := match v with GRaw r => r | _ => None end.

(* *p : None is the nil-pointer dereference.  A struct stored by value is its own
   dereference, so a schema in which a pointer field became a value field simply
   has no nil case any more. *)
Definition deref (v : gval) : option gval :=
  match v with
  | GNil => None
  | GPtr x => Some x
  | _ => Some v
  end.

(* nesting depth of the JSON text the easyjson encoders write for a value whose
   slices, maps and raw messages are all `omitempty` (empty ones are left out,
   nil pointers are left out, a nil map inside a list is written as null) *)
Fixpoint gdepth (v : gval) : nat :=
  match v with
  | GRaw (Some j) => json_depth j
  | GIface j => json_depth j
  | GSlice l =>
      match l with
      | [] => 0%nat
      | _ => S (fold_right (fun x acc => Nat.max (gdepth x) acc) 0%nat l)
      end
  | GMap m =>
      match m with
      | [] => 0%nat
      | _ => S ((fix go (m : list (string * gval)) : nat :=
                   match m with [] => 0%nat | (_, x) :: r => Nat.max (gdepth x) (go r) end) m)
      end
  | GPtr x => gdepth x
  | GStruct fs =>
      S ((fix go (fs : list (string * gval)) : nat :=
            match fs with [] => 0%nat | (_, x) :: r => Nat.max (gdepth x) (go r) end) fs)
  | _ => 0%nat
  end.

(* replace a field of a struct value *)
Definition sset (name : string) (x : gval) (v : gval) : gval :=
  match v with
  | GStruct fs => GStruct (map (fun kv => if String.eqb name (fst kv) then (fst kv, x) else kv) fs)
  | _ => v
  end.

(* p.f = x for p a pointer to (or a value of) struct type *)
Definition pset (name : string) (x : gval) (p : gval) : gval :=
  match p with
  | GPtr s => GPtr (sset name x s)
  | _ => sset name x p
  end.
