(* Lock programs of throttle.go with the position of the sleeping call
   (gen/LockProgs.v, locks_memoryThrottler_calls: the translator marks the call
   of doDelay between the Lock/Unlock operations of the entry point).  A thread
   that sleeps is modelled as a thread that does not take part: the program is
   cut at the sleeping calls into segments, and the threads that are awake each
   run one segment on the RWMutex model of model/BackendLocks.v.  That a sleeper
   may be left out is exactly what [sleeps_unlocked] says: every segment is
   non-reentrant, which includes that it ends with the mutex released, so a
   thread that has reached its sleep holds nothing.  No proofs here. *)
From Coq Require Import List String Bool.
From Verif Require Import gen.LockProgs model.BackendLocks.
Import ListNotations.

Fixpoint segments (p : list lockev) : list (list lockop) :=
  match p with
  | [] => [[]]
  | LOp o :: r => match segments r with s :: ss => (o :: s) :: ss | [] => [[o]] end
  | LCall _ :: r => [] :: segments r
  end.

(* no marked call is made while the mutex is held (and no segment re-enters it) *)
Definition sleeps_unlocked (p : list lockev) : bool := forallb non_reentrant (segments p).

(* what is held when each marked call is made: [Some m] = the call sleeps inside the lock *)
Fixpoint held_at_calls (h : option mode) (p : list lockev) : list (string * option mode) :=
  match p with
  | [] => []
  | LOp Lock :: r => held_at_calls (Some MW) r
  | LOp RLock :: r => held_at_calls (Some MR) r
  | LOp Unlock :: r | LOp RUnlock :: r => held_at_calls None r
  | LCall f :: r => (f, h) :: held_at_calls h r
  end.

Definition throttler_progs : list (list lockev) := map snd locks_memoryThrottler_calls.

(* the shape a lock held across the delay has (Lock; defer Unlock; ...; doDelay) *)
Definition sleeping_under_lock : list lockev := [LOp Lock; LCall "doDelay"%string; LOp Unlock].
