(* Executable model of federation.go (FederationClient): what the local server
   does with whatever a remote signaling server sends on a federation
   connection.  No proofs here.

   The model is parameterised by which of the three repairs of fixes/C12 are
   present (record [variant]); [repaired] is the code the theorems are about,
   [original] is kept for the refutations.  Every dereference of a member of a
   remote message that the code performs without a nil check is an explicit
   [Panic]; every acquisition of helloMu by the goroutine that already holds
   it is an explicit [Stuck].

   The read goroutine does not end at the FederationClient: processMessage hands
   the (rewritten) message to ClientSession.SendMessage, and filterMessage runs
   in the same goroutine.  Its dereferences are part of the model: the entries of
   a room/join event ([filter_join]) and the unchecked entry["sessionId"].(string)
   on the entries of a participants/update event ([session_filter_panics], after
   [update_users] = FederationClient.updateEventUsers). *)
From Coq Require Import List ZArith NArith Bool String.
From Verif Require Import gen.Params.
Import ListNotations.
Open Scope Z_scope.

(* ---- which repairs are applied ------------------------------------------- *)
Record variant := mkV {
  v_valid : bool;   (* 01: ServerMessage.CheckValid before processing *)
  v_lock  : bool;   (* 02: pendingMu is a leaf lock; hello is never deferred *)
  v_close : bool    (* 03: closeConnection re-checks c.conn after the bye *)
}.
Definition repaired : variant := mkV true true true.
Definition original : variant := mkV false false false.

(* ---- shape of a decoded remote message ------------------------------------
   Type tag, class of the id, and for every pointer / slice member of
   ServerMessage (and of the members the code looks into) whether it is present
   and, where the code inspects it, the class of its content. *)
Inductive mtag := TWelcome | THello | TError | TBye | TRoom | TMessage | TControl
                | TEvent | TTransient | TInternal | TDialout | TOther.
(* id of the message: equal to the id of the last hello request the local side
   has sent / empty / anything else *)
Inductive idk := IdCur | IdEmpty | IdOther.
Inductive errcode := ENoSuchSession | EAlreadyJoined | EOtherCode.
Inductive roomid := RidEmpty | RidRemote | RidOther.
Inductive etarget := GParticipants | GRoom | GRoomlist | GOther.
Inductive etype := YUpdate | YFlags | YMessage | YJoin | YLeave | YInvite | YDisinvite | YOther.
(* entry of event.join / event.change: JSON null, or an entry with a session id
   (0 = the session id the remote gave the federated session in its hello) *)
Inductive jentry := JNil | JSid (n : N).
(* entry of update.users / update.changed (a JSON object decoded into a
   map[string]interface{}, or null).  The code reads two members of it as a
   session id, "sessionId" (CheckValid, updateEventUsers, ClientSession.filterMessage)
   and "sessionid" (updateEventUsers only); each is
     VNone  missing,
     VBad   present but not a JSON string (number, null, object),
     VOwn   the string the remote gave the federated session as its id in the hello,
     VStr   any other string;
   and the pair actorType / actorId (updateEventUsers rewrites them when both are
   strings): missing, both strings of a local user, both strings of a federated
   user of the local server, actorId / actorType not a string. *)
Inductive sidv := VNone | VBad | VOwn | VStr.
Inductive actor := ANone | AUser | AFedLocal | ABadId | ABadType.
Inductive uentry := UNil | UEnt (up lo : sidv) (a : actor).
(* {} , {"sessionId":1}, {"sessionId":"x"} *)
Definition UNoSid : uentry := UEnt VNone VNone ANone.
Definition UBadSid : uentry := UEnt VBad VNone ANone.
Definition USid : uentry := UEnt VStr VNone ANone.

Record hello_s := mkH { h_sid : bool; h_resume : bool; h_server : bool }.  (* sessionid / resumeid non-empty; server present *)
Record sr_s := mkSR { sr_sender : bool; sr_recipient : bool }.
Record upd_s := mkU { u_changed : list uentry; u_users : list uentry }.
Record event_s := mkE {
  e_target : etarget; e_type : etype;
  e_join : list jentry; e_leave : list N; e_change : list jentry;
  e_switchto : bool; e_resumed : bool;
  e_invite : bool; e_disinvite : bool; e_update : option upd_s; e_flags : bool;
  e_message : bool }.
Record server_msg := mkM {
  m_tag : mtag; m_id : idk;
  m_error : option errcode;
  m_welcome : option bool;            (* Some fed: has the "federation" feature *)
  m_hello : option hello_s;
  m_bye : bool;
  m_room : option roomid;
  m_message : option sr_s;
  m_control : option sr_s;
  m_event : option event_s;
  m_transient : bool; m_internal : bool; m_dialout : bool }.

(* JSON names of the pointer / slice members the shape types stand for; compared
   with the generated schema in proofs/Federation_proofs.v *)
Definition shape_ServerMessage : list string :=
  ["error"; "welcome"; "hello"; "bye"; "room"; "message"; "control"; "event"; "transient"; "internal"; "dialout"]%string.
Definition shape_EventServerMessage : list string :=
  ["join"; "leave"; "change"; "switchto"; "resumed"; "invite"; "disinvite"; "update"; "flags"; "message"]%string.
Definition shape_RoomEventServerMessage : list string := ["changed"; "users"]%string.
Definition shape_MessageServerMessage : list string := ["sender"; "recipient"]%string.
Definition shape_HelloServerMessage : list string := ["server"]%string.

(* ---- what the client can do: the ONLY effects ------------------------------
   The action type cannot name a session, a room or a connection other than
   the federated session itself, its federation connection and its reconnect
   timer: there is no identifier in it. *)
Inductive ecode := CFedUnsupported | CNotConnected | CRemote (c : errcode) | CNoError.
Inductive cmsg :=                      (* sent to the federated session *)
| CErr (c : ecode)                     (* type "error" *)
| CInterrupted | CResumed (b : bool)   (* federation_interrupted / federation_resumed *)
| CJoin (ids : list N)                 (* forwarded room/join event, after the duplicate filter *)
| CFwd (t : mtag).                     (* any other message, forwarded *)
Inductive rmsg := RHello (resume : bool) | RRoom | RLeave | RBye | RProxied.   (* sent to the remote *)
Inductive action :=
| ToSession (m : cmsg)
| ToRemote (m : rmsg)
| CloseConn
| Reconnect (d : Z).                   (* time.AfterFunc(d, c.reconnect) *)

Inductive outcome := Ok | Panic | Stuck.

(* ---- state of one FederationClient (+ the join filter of its session) ------ *)
Record fstate := mkF {
  connected : bool;        (* c.conn != nil *)
  closed : bool;           (* c.closer closed *)
  hello_done : bool;       (* c.hello != nil *)
  hello_pending : bool;    (* c.helloMsgId != "" *)
  resume : bool;           (* c.resumeId != "" *)
  reconnecting : bool;
  pending : N;             (* len(c.pendingMessages) *)
  delay : Z;               (* c.reconnectDelay, ns *)
  has_msg : bool;          (* c.message != nil *)
  change_room : bool;      (* c.changeRoomId *)
  remote_sid : bool;       (* c.hello != nil && c.hello.SessionId != "" *)
  close_on_leave : bool;
  seen : list N            (* session.seenJoinedEvents *)
}.

Definition set_connected b s := mkF b (closed s) (hello_done s) (hello_pending s) (resume s) (reconnecting s) (pending s) (delay s) (has_msg s) (change_room s) (remote_sid s) (close_on_leave s) (seen s).
Definition set_closed b s := mkF (connected s) b (hello_done s) (hello_pending s) (resume s) (reconnecting s) (pending s) (delay s) (has_msg s) (change_room s) (remote_sid s) (close_on_leave s) (seen s).
(* c.hello.Store(h) / Swap(nil): both fields at once *)
Definition set_hello (done sid : bool) s := mkF (connected s) (closed s) done (hello_pending s) (resume s) (reconnecting s) (pending s) (delay s) (has_msg s) (change_room s) sid (close_on_leave s) (seen s).
Definition set_hello_pending b s := mkF (connected s) (closed s) (hello_done s) b (resume s) (reconnecting s) (pending s) (delay s) (has_msg s) (change_room s) (remote_sid s) (close_on_leave s) (seen s).
Definition set_resume b s := mkF (connected s) (closed s) (hello_done s) (hello_pending s) b (reconnecting s) (pending s) (delay s) (has_msg s) (change_room s) (remote_sid s) (close_on_leave s) (seen s).
Definition set_reconnecting b s := mkF (connected s) (closed s) (hello_done s) (hello_pending s) (resume s) b (pending s) (delay s) (has_msg s) (change_room s) (remote_sid s) (close_on_leave s) (seen s).
Definition set_pending n s := mkF (connected s) (closed s) (hello_done s) (hello_pending s) (resume s) (reconnecting s) n (delay s) (has_msg s) (change_room s) (remote_sid s) (close_on_leave s) (seen s).
Definition set_delay d s := mkF (connected s) (closed s) (hello_done s) (hello_pending s) (resume s) (reconnecting s) (pending s) d (has_msg s) (change_room s) (remote_sid s) (close_on_leave s) (seen s).
Definition set_has_msg b s := mkF (connected s) (closed s) (hello_done s) (hello_pending s) (resume s) (reconnecting s) (pending s) (delay s) b (change_room s) (remote_sid s) (close_on_leave s) (seen s).
Definition set_close_on_leave b s := mkF (connected s) (closed s) (hello_done s) (hello_pending s) (resume s) (reconnecting s) (pending s) (delay s) (has_msg s) (change_room s) (remote_sid s) b (seen s).
Definition set_seen l s := mkF (connected s) (closed s) (hello_done s) (hello_pending s) (resume s) (reconnecting s) (pending s) (delay s) (has_msg s) (change_room s) (remote_sid s) (close_on_leave s) l.

(* NewFederationClient after a successful connect; [chg]: the local room id
   differs from the room id at the remote *)
Definition init (chg : bool) : fstate :=
  mkF true false false false false false 0%N initialFederationReconnectInterval true chg false false [].

(* ---- results and sequencing ------------------------------------------------ *)
Definition res := (fstate * list action * outcome)%type.
Definition st_of (r : res) : fstate := fst (fst r).
Definition acts_of (r : res) : list action := snd (fst r).
Definition out_of (r : res) : outcome := snd r.
Definition ok (s : fstate) (a : list action) : res := (s, a, Ok).
Definition andthen (r : res) (f : fstate -> res) : res :=
  match r with
  | (s, a, Ok) => match f s with (s', a', o) => (s', a ++ a', o) end
  | _ => r
  end.

(* ---- scheduleReconnectLocked ------------------------------------------------ *)
Definition sched (s : fstate) : res :=
  ok (set_delay (Z.min (2 * delay s) maxFederationReconnectInterval)
        (set_connected false (set_hello false false (set_reconnecting true s))))
     ((if hello_done s then [ToSession CInterrupted] else []) ++
      (if connected s then [CloseConn] else []) ++
      [Reconnect (delay s)]).

(* ---- deferMessage; [held]: the calling goroutine holds helloMu ---------------- *)
Definition is_hello (m : rmsg) : bool := match m with RHello _ => true | _ => false end.
Definition is_room (m : rmsg) : bool := match m with RRoom | RLeave => true | _ => false end.
Definition enqueue (s : fstate) : fstate :=
  if resume s then set_pending (N.succ (pending s)) s else s.
Definition defer (v : variant) (held : bool) (s : fstate) (m : rmsg) : res :=
  if v_lock v then (if is_hello m then ok s [] else ok (enqueue s) [])
  else if held then (s, [], Stuck)        (* helloMu.Lock() by its holder *)
  else ok (enqueue s) [].

(* ---- sendMessageLocked; [wf]: writes on the connection fail (the remote has
        reset it, the reader has not noticed yet) ------------------------------ *)
Definition send_remote (v : variant) (wf held : bool) (s : fstate) (m : rmsg) : res :=
  if connected s then
    if wf then andthen (defer v held s m) sched
    else ok s [ToRemote m]
  else if is_room m then ok s []
  else defer v held s m.

(* ---- Close(): closeConnection(true) ------------------------------------------ *)
Definition close_fc (v : variant) (wf held : bool) (s : fstate) : res :=
  let s := set_closed true s in
  if connected s then
    andthen (send_remote v wf held s RBye) (fun s1 =>
      if connected s1 then ok (set_connected false s1) [CloseConn]
      else if v_close v then ok s1 []
      else (s1, [], Panic))             (* c.conn.WriteControl on the nil connection *)
  else ok s [].

Definition close_with_error (v : variant) (wf held : bool) (s : fstate) (c : ecode) : res :=
  andthen (close_fc v wf held s) (fun s1 => ok (set_has_msg false s1) [ToSession (CErr c)]).

(* ---- sendHelloLocked (always with helloMu held) -------------------------------- *)
Definition send_hello (v : variant) (wf : bool) (s : fstate) : res :=
  send_remote v wf true (set_hello_pending true s) (RHello (resume s)).

Definition join_room (v : variant) (wf held : bool) (s : fstate) : res :=
  if has_msg s then send_remote v wf held s RRoom
  else close_with_error v wf held s CNotConnected.

(* ---- processWelcome ------------------------------------------------------------- *)
Definition process_welcome (v : variant) (wf : bool) (s : fstate) (m : server_msg) : res :=
  match m_welcome m with
  | None => (s, [], Panic)                              (* msg.Welcome.HasFeature *)
  | Some fed =>
      if fed then send_hello v wf s
      else close_with_error v wf false s CFedUnsupported
  end.

(* ---- processHello ----------------------------------------------------------------- *)
Definition id_matches (s : fstate) (i : idk) : bool :=
  match i with IdCur => hello_pending s | IdEmpty => negb (hello_pending s) | IdOther => false end.

Fixpoint send_many (v : variant) (wf : bool) (s : fstate) (k : nat) : res :=
  match k with
  | O => ok s []
  | S k' => andthen (send_remote v wf false s RProxied) (fun s' => send_many v wf s' k')
  end.
(* the pending messages are sent with helloMu released *)
Definition flush (v : variant) (wf : bool) (s : fstate) : res :=
  send_many v wf (set_pending 0%N s) (N.to_nat (pending s)).

Definition process_hello (v : variant) (wf : bool) (s0 : fstate) (m : server_msg) : res :=
  let s := set_delay initialFederationReconnectInterval s0 in        (* resetReconnect *)
  if negb (id_matches s (m_id m)) then send_hello v wf s
  else
    let s := set_hello_pending false s in
    match m_tag m with
    | TError =>
        match m_error m with
        | None => (s, [], Panic)                          (* msg.Error.Code *)
        | Some ENoSuchSession => send_hello v wf (set_pending 0%N (set_resume false s))
        | Some c => close_with_error v wf true s (CRemote c)
        end
    | THello =>
        let s := match m_hello m with
                 | Some h => set_hello true (h_sid h) s
                 | None => set_hello false false s         (* c.hello.Store(nil) *)
                 end in
        if resume s then
          andthen (ok s [ToSession (CResumed true)]) (flush v wf)
        else
          match m_hello m with
          | None => (s, [], Panic)                        (* msg.Hello.ResumeId *)
          | Some h =>
              let s := set_resume (h_resume h) s in
              andthen (if reconnecting s
                       then ok (set_seen [] s) [ToSession (CResumed false)]   (* + SetFederationClient(c) *)
                       else ok s [])
                      (join_room v wf true)
          end
    | _ => send_hello v wf s
    end.

(* ---- processMessage + ClientSession.filterMessage --------------------------------- *)
(* v.(string) succeeds *)
Definition is_str (v : sidv) : bool := match v with VOwn | VStr => true | _ => false end.
(* entry["sessionId"].(string) succeeds (a null entry is a nil map: the lookup gives nil) *)
Definition is_sid (u : uentry) : bool := match u with UEnt up _ _ => is_str up | UNil => false end.

(* FederationClient.updateEventUsers(users, local, remote), called when the remote
   session id is known: the id of an entry is its string "sessionId", else its
   string "sessionid"; the FIRST entry whose id is the remote id of the federated
   session gets the local id -- always under the key "sessionId" (the inner
   [key := "sessionid"] of the source is shadowed) -- and the search stops.  The
   actor members are rewritten in place (strings stay strings). *)
Definition entry_id (u : uentry) : sidv :=
  match u with
  | UNil => VNone
  | UEnt up lo _ => if is_str up then up else if is_str lo then lo else VNone
  end.
Definition is_own (v : sidv) : bool := match v with VOwn => true | _ => false end.
Fixpoint update_users (l : list uentry) : list uentry :=
  match l with
  | [] => []
  | u :: r =>
      if is_own (entry_id u)
      then match u with UEnt _ lo a => UEnt VStr lo a :: r | UNil => u :: r end
      else u :: update_users r
  end.
(* what processMessage hands to the session: changed and users, each rewritten on its own *)
Definition rewrite_update (sid : bool) (u : upd_s) : upd_s :=
  if sid then mkU (update_users (u_changed u)) (update_users (u_users u)) else u.
(* ClientSession.filterMessage on participants/update: entry["sessionId"].(string),
   unchecked, for every entry of users and then of changed *)
Definition session_filter_panics (u : upd_s) : bool :=
  negb (forallb is_sid (u_users u ++ u_changed u)).
Definition non_nil (j : jentry) : bool := match j with JNil => false | JSid _ => true end.
Definition memN (x : N) (l : list N) : bool := existsb (N.eqb x) l.

(* filterDuplicateJoin: ids not seen before, in order; the new seen set *)
Fixpoint filter_join (sn : list N) (l : list jentry) : list N * list N :=
  match l with
  | [] => ([], sn)
  | JNil :: r => filter_join sn r                       (* not reached: guarded by the callers *)
  | JSid n :: r =>
      if memN n sn then filter_join sn r
      else let '(ids, sn') := filter_join (sn ++ [n]) r in (n :: ids, sn')
  end.
Definition remove_all (del l : list N) : list N := filter (fun x => negb (memN x del)) l.

Definition fwd_code (m : server_msg) : ecode :=
  match m_error m with Some c => CRemote c | None => CNoError end.

(* the message as handed to session.SendMessage, when nothing in it is touched *)
Definition forward (s : fstate) (m : server_msg) : res :=
  match m_tag m with
  | TError => ok s [ToSession (CErr (fwd_code m))]
  | t => ok s [ToSession (CFwd t)]
  end.

Definition panic_if (b : bool) (s : fstate) (k : res) : res := if b then (s, [], Panic) else k.

(* returns the result and whether the connection is to be closed afterwards *)
Definition process_event (s : fstate) (m : server_msg) (e : event_s) : res * bool :=
  let chg := change_room s in
  let sid := remote_sid s in
  let f := forward s m in
  match e_target e, e_type e with
  | GParticipants, YUpdate =>
      match e_update e with
      | None => ((s, [], Panic), false)                  (* msg.Event.Update.… / m.Users *)
      | Some u =>
          (* updateEventUsers, then in the session filterMessage *)
          (panic_if (session_filter_panics (rewrite_update sid u)) s f, false)
      end
  | GParticipants, YFlags => (panic_if ((chg || sid) && negb (e_flags e)) s f, false)
  | GParticipants, YMessage => (panic_if (chg && negb (e_message e)) s f, false)
  | GRoom, YJoin =>
      if negb (forallb non_nil (e_join e)) then ((s, [], Panic), false)   (* j.SessionId / e.SessionId *)
      else
        let '(ids, sn) := filter_join (seen s) (e_join e) in
        (ok (set_seen sn s) (match ids with [] => [] | _ => [ToSession (CJoin ids)] end), false)
  | GRoom, YLeave =>
      (ok (set_seen (remove_all (e_leave e) (seen s)) s) [ToSession (CFwd TEvent)],
       sid && memN 0%N (e_leave e) && close_on_leave s)
  | GRoom, YMessage => (panic_if (chg && negb (e_message e)) s f, false)
  | GRoomlist, YInvite => (panic_if (chg && negb (e_invite e)) s f, false)
  | GRoomlist, YDisinvite => (panic_if (chg && negb (e_disinvite e)) s f, false)
  | GRoomlist, YUpdate => (panic_if (chg && match e_update e with None => true | Some _ => false end) s f, false)
  | _, _ => (f, false)
  end.

Definition isnone {A} (o : option A) : bool := match o with None => true | Some _ => false end.

(* FederationClient.Leave: the room-leave request goes to the remote, the client
   is closed when the remote confirms it *)
Definition leave (v : variant) (wf : bool) (s : fstate) : res :=
  andthen (send_remote v wf false s RLeave) (fun s1 => ok (set_close_on_leave true s1) []).

Definition process_message (v : variant) (wf : bool) (s : fstate) (m : server_msg) : res :=
  let '(r, doclose) :=
    match m_tag m with
    | TControl => (panic_if (isnone (m_control m)) s (forward s m), false)
    | TEvent =>
        match m_event m with
        | None => ((s, [], Panic), false)                  (* msg.Event.Target *)
        | Some e => process_event s m e
        end
    | TError => (panic_if (change_room s && isnone (m_error m)) s (forward s m), false)
    | TRoom =>
        match m_room m with
        | None => ((s, [], Panic), false)                  (* msg.Room.RoomId *)
        | Some rid => (forward s m, match rid with RidEmpty => close_on_leave s | _ => false end)
        end
    | TMessage => (panic_if (isnone (m_message m)) s (forward s m), false)
    | _ => (forward s m, false)
    end in
  if doclose then andthen r (close_fc v wf false)
  else match m_tag m with
       | TBye => andthen r (leave v wf)   (* CloseAfterSend: the session is closed, which leaves the federated room *)
       | _ => r
       end.

(* ---- ServerMessage.CheckValid / EventServerMessage.CheckValid (fix 01) --------------- *)
Definition issome {A} (o : option A) : bool := negb (isnone o).
Definition valid_event (e : event_s) : bool :=
  match e_target e, e_type e with
  | GParticipants, YUpdate =>
      match e_update e with
      | None => false
      | Some u => forallb is_sid (u_users u ++ u_changed u)
      end
  | GRoomlist, YUpdate => issome (e_update e)
  | GParticipants, YFlags => e_flags e
  | GParticipants, YMessage | GRoom, YMessage => e_message e
  | GRoomlist, YInvite => e_invite e
  | GRoomlist, YDisinvite => e_disinvite e
  | GRoom, YJoin => forallb non_nil (e_join e)
  | _, _ => true
  end.
Definition valid (m : server_msg) : bool :=
  match m_tag m with
  | TWelcome => issome (m_welcome m)
  | THello => issome (m_hello m)
  | TError => issome (m_error m)
  | TRoom => issome (m_room m)
  | TMessage => issome (m_message m)
  | TControl => issome (m_control m)
  | TEvent => match m_event m with None => false | Some e => valid_event e end
  | _ => true
  end.

(* ---- one decoded message in the read pump ---------------------------------------------- *)
Definition recv (v : variant) (wf : bool) (s : fstate) (m : server_msg) : res :=
  if v_valid v && negb (valid m) then ok s []               (* logged and ignored *)
  else if hello_done s then process_message v wf s m
  else match m_tag m with
       | TWelcome => process_welcome v wf s m
       | _ => process_hello v wf s m
       end.

(* ---- everything that can happen to the client --------------------------------------------
   ORecv m       a text frame that decodes to a ServerMessage of shape m
   ORecvFail m   the same while writes on the connection fail (reset by the remote),
                 followed by the read error of the reset connection
   OJunk         a frame that is not text or does not decode: ignored
   ODrop         the remote closes / resets the connection (read error)
   OAccept       the reconnect timer fired and the remote accepted the connection
   ORefuse       the reconnect timer fired and connecting failed
   OClientSend   the federated session sends a message to be proxied
   OClientLeave  the federated session leaves the room *)
Inductive op :=
| ORecv (m : server_msg) | ORecvFail (m : server_msg) | OJunk
| ODrop | OAccept | ORefuse | OClientSend | OClientLeave.

(* the read pump's ReadMessage fails: nothing more if the client has been closed,
   otherwise scheduleReconnect (also when a failed write has scheduled one already) *)
Definition reader_error (s : fstate) : res := if closed s then ok s [] else sched s.

Definition step (v : variant) (s : fstate) (o : op) : res :=
  match o with
  | ORecv m => recv v false s m
  | ORecvFail m => andthen (recv v true s m) reader_error
  | OJunk => ok s []
  | ODrop => if connected s then sched s else ok s []
  | OAccept => if connected s || closed s then ok s [] else ok (set_connected true s) []
  | ORefuse => if connected s || closed s then ok s [] else sched s
  | OClientSend => send_remote v false false s RProxied
  | OClientLeave => leave v false s
  end.

(* a run stops at the first step that does not return *)
Fixpoint run (v : variant) (s : fstate) (ops : list op) : res :=
  match ops with
  | [] => ok s []
  | o :: r => andthen (step v s o) (fun s' => run v s' r)
  end.

(* ---- embedding into a hub: sessions are numbers, each with what it was sent and
        whether it is still connected to its room -------------------------------------------- *)
Definition hubview := N -> list cmsg.
Definition deliver (me : N) (h : hubview) (a : action) : hubview :=
  match a with
  | ToSession m => fun k => if N.eqb k me then h k ++ [m] else h k
  | _ => h
  end.
Definition deliver_all (me : N) (h : hubview) (l : list action) : hubview := fold_left (deliver me) l h.
