(* Executable model of the room API behind the authentication gate
   (backend_server.go roomHandler after ValidateBackendChecksum, api_backend.go,
   the consumers in room.go / hub.go / clientsession.go).  No proofs here.

   Input: the body of a correctly signed POST /api/v1/room/<id>: either text that
   is not a JSON document ([BadSyntax]) or a JSON tree ([Doc j]).
   Output per request: the HTTP reply (or "no reply": the handler panicked and
   net/http closed the connection), whether the *process* exited (a panic in
   the hub main loop, in the Room's event goroutine or in a session's event
   goroutine is not recovered by anybody), and everything that was published
   on the event bus / sent to sessions.

   [fixed = true] is the code with fixes/C11/01 (CheckValid after decoding);
   [fixed = false] is the code as found; it is kept for the *_refuted theorems
   and for judging runs against an unrepaired tree.  Every pointer dereference
   of the Go code is a [deref] here and its nil case is an explicit outcome. *)
From Coq Require Import List ZArith NArith String Bool Ascii.
From Verif Require Import gen.Params gen.Schema lib.Json lib.Decode.
Import ListNotations.
Open Scope string_scope.
Open Scope list_scope.

(* ---- the request type, resolved from the generated schema ---------------------------- *)
Definition c11_tyenv : tyenv := {|
  te_structs := [
    ("BackendServerRoomRequest", schema_BackendServerRoomRequest);
    ("BackendRoomInviteRequest", schema_BackendRoomInviteRequest);
    ("BackendRoomDisinviteRequest", schema_BackendRoomDisinviteRequest);
    ("BackendRoomUpdateRequest", schema_BackendRoomUpdateRequest);
    ("BackendRoomDeleteRequest", schema_BackendRoomDeleteRequest);
    ("BackendRoomInCallRequest", schema_BackendRoomInCallRequest);
    ("BackendRoomParticipantsRequest", schema_BackendRoomParticipantsRequest);
    ("BackendRoomMessageRequest", schema_BackendRoomMessageRequest);
    ("BackendRoomSwitchToMessageRequest", schema_BackendRoomSwitchToMessageRequest);
    ("BackendRoomDialoutRequest", schema_BackendRoomDialoutRequest);
    ("BackendRoomTransientRequest", schema_BackendRoomTransientRequest)];
  (* named non-struct types of api_backend.go (hand-written; a wrong entry shows
     up as a correspondence mismatch on the wrong-kind cases) *)
  te_aliases := [
    ("TransientAction", "string");
    ("BackendRoomSwitchToSessionsList", "[]string");
    ("BackendRoomSwitchToSessionsMap", "map[string]json.RawMessage")];
  te_opaque := []
|}.

Definition ty_request : gty :=
  match resolve 6 c11_tyenv "BackendServerRoomRequest" with
  | Some t => t
  | None => TOpaque "unresolved"
  end.

(* ---- input ------------------------------------------------------------------------------ *)
Inductive body := BadSyntax | Doc (j : json).

(* encoding/json (which validates the text before calling the easyjson decoder)
   refuses nesting deeper than this *)
Definition max_nesting : Z := 10000.

(* ---- what can be published / sent ---------------------------------------------------------- *)
Inductive evkind :=
| KInvite                       (* roomlist / invite *)
| KDisinvite                    (* roomlist / disinvite *)
| KRoomlistUpdate               (* roomlist / update *)
| KRoomProps                    (* "room" message carrying new properties *)
| KParticipants (n : Z)         (* participants / update with n user entries (after the per-session merge) *)
| KInCallAll (flags : Z)        (* participants / update, all = true *)
| KRoomMessage                  (* room / message *)
| KSwitchTo                     (* room / switchto *)
| KRoomLeft                     (* "room" message with empty room id (room was deleted) *)
| KOther (tag : N).             (* anything else a client receives (never produced by the model) *)

Inductive pub :=
| PUser (u : string) (k : evkind)          (* event bus, subject of user u *)
| PSession (sid : string) (k : evkind)     (* subject of (or direct send to) the session with public id sid *)
| PRoomEv (k : evkind)                     (* subject of the room: every session in the room *)
| PPerm (sid : string) (perms : list string)   (* permissions update for a session *)
| PBackendRoom (r : gval).                 (* the request, handed to the Room object if there is one *)

(* ---- server state the requests can depend on -------------------------------------------- *)
Record state := {
  st_room : bool;                       (* a Room object exists for the addressed room id *)
  st_members : list string;             (* public ids of the client sessions in it *)
  st_incall : list string;              (* sessions recorded as "in call" in it *)
  st_props : option json;               (* its properties *)
  st_rs : list (string * string);       (* Nextcloud room-session id -> public session id *)
  st_known : list string;               (* public session ids the hub can resolve *)
  st_users : list (string * string);    (* public session id -> user id (listens on that user's subject) *)
  st_numeric : bool;                    (* the room id consists of decimal digits *)
  st_dialout : option Z                 (* None: no dial-out client connected for the backend;
                                           Some c: the exchange with it ends in HTTP status c *)
}.

Inductive reply := Status (code : Z) | NoReply.

Record hres := { h_reply : reply; h_pubs : list pub }.
Definition hdone (code : Z) (ps : list pub) : hres := {| h_reply := Status code; h_pubs := ps |}.
Definition hpanic (ps : list pub) : hres := {| h_reply := NoReply; h_pubs := ps |}.

(* ---- helpers ------------------------------------------------------------------------------ *)
Definition mem (s : string) (l : list string) : bool := existsb (String.eqb s) l.

Definition lookup_rs (st : state) (rs : string) : option string :=
  if String.eqb rs c11_sessionIdNotInMeeting then None else assoc rs (st_rs st).

Definition is_digit (c : ascii) : bool :=
  let n := nat_of_ascii c in Nat.leb 48 n && Nat.leb n 57.
Fixpoint all_digits (s : string) : bool :=
  match s with EmptyString => true | String c r => is_digit c && all_digits r end.
(* checkE164Number = ^\+\d{2,}$ *)
Definition valid_number (s : string) : bool :=
  match s with
  | String c r => Ascii.eqb c "+"%char && all_digits r && Nat.leb 2 (String.length r)
  | EmptyString => false
  end.

(* sendRoomUpdate: roomlist/update for everybody in `all` who was not notified otherwise *)
Definition room_update_pubs (notified all : list string) : list pub :=
  map (fun u => PUser u KRoomlistUpdate) (filter (fun u => negb (mem u notified)) all).

(* sendRoomDisinvite *)
Definition disinvite_pubs (st : state) (userids sessionids : list string) : list pub :=
  map (fun u => PUser u KDisinvite) userids ++
  flat_map (fun rs => match lookup_rs st rs with
                      | Some sid => [PSession sid KDisinvite]
                      | None => []
                      end) sessionids.

(* fixupUserSessions: keep the entries whose "sessionId" is a string naming a known
   room session, with the signaling session id in its place *)
Definition fixup_user (st : state) (u : gval) : list gval :=
  match assoc "sessionId" (as_map u) with
  | Some (GIface (JStr rs)) =>
      match lookup_rs st rs with
      | Some sid => [GMap (map_set "sessionId" (GIface (JStr sid)) (as_map u))]
      | None => []
      end
  | _ => []
  end.
Definition fixup_users (st : state) (users : list gval) : list gval := flat_map (fixup_user st) users.

Definition user_sid (u : gval) : option string :=
  match assoc "sessionId" (as_map u) with
  | Some (GIface (JStr s)) => Some s
  | _ => None
  end.

(* the permissions loop of sendRoomParticipantsUpdate; None = the unchecked
   user["sessionId"].(string) failed *)
Fixpoint perm_strings (l : list json) : option (list string) :=
  match l with
  | [] => Some []
  | JStr s :: r => option_map (cons s) (perm_strings r)
  | _ :: _ => None
  end.
Fixpoint perm_pubs (changed : list gval) : option (list pub) :=
  match changed with
  | [] => Some []
  | u :: r =>
      match assoc "permissions" (as_map u) with
      | None => perm_pubs r
      | Some p =>
          match user_sid u with
          | None => None
          | Some sid =>
              match p with
              | GIface (JArr l) =>
                  match perm_strings l with
                  | Some ps => option_map (cons (PPerm sid ps)) (perm_pubs r)
                  | None => perm_pubs r
                  end
              | _ => perm_pubs r
              end
          end
      end
  end.

(* request.<Sub>.<f1> = v1; ... on the request value *)
Definition set_sub (sub : string) (kvs : list (string * gval)) (req : gval) : gval :=
  sset sub (fold_left (fun p kv => pset (fst kv) (snd kv) p) kvs (fld sub req)) req.

(* ---- CheckValid (fixes/C11/01) ------------------------------------------------------------ *)
Definition sub_field (ty : string) : option string :=
  if String.eqb ty "invite" then Some "Invite"
  else if String.eqb ty "disinvite" then Some "Disinvite"
  else if String.eqb ty "update" then Some "Update"
  else if String.eqb ty "delete" then Some "Delete"
  else if String.eqb ty "incall" then Some "InCall"
  else if String.eqb ty "participants" then Some "Participants"
  else if String.eqb ty "message" then Some "Message"
  else if String.eqb ty "switchto" then Some "SwitchTo"
  else if String.eqb ty "dialout" then Some "Dialout"
  else None.

Definition switchto_valid (sw : gval) : bool :=
  match as_raw (fld "Sessions" sw) with
  | None => true
  | Some (JArr l) => match std_string_list l with Some _ => true | None => false end
  | Some (JObj _) => true
  | Some JNull => true
  | Some _ => false
  end.

Definition check_valid (req : gval) : bool :=
  let ty := as_str (fld "Type" req) in
  if String.eqb ty "" then false
  else match sub_field ty with
       | None => true
       | Some f =>
           match deref (fld f req) with
           | None => false
           | Some sub => if String.eqb ty "switchto" then switchto_valid sub else true
           end
       end.

(* PublishBackendRoomMessage: the request is wrapped into an AsyncMessage and
   serialised with json.Marshal, which refuses text nested deeper than
   max_nesting; the error becomes "500 Error while processing" *)
Definition fits (r : gval) : bool := (Z.of_nat (S (gdepth r)) <=? max_nesting)%Z.
Definition hpublish (r : gval) (before after : list pub) : hres :=
  if fits r then hdone 200 (before ++ PBackendRoom r :: after) else hdone 500 (before ++ after).

(* ---- the per-type part of roomHandler -------------------------------------------------------- *)
Definition do_invite (st : state) (req : gval) : hres :=
  match deref (fld "Invite" req) with
  | None => hpanic []
  | Some inv =>
      let userids := as_strs (fld "UserIds" inv) in
      hdone 200 (map (fun u => PUser u KInvite) userids ++
                 room_update_pubs userids (as_strs (fld "AllUserIds" inv)))
  end.

Definition do_disinvite (st : state) (req : gval) : hres :=
  match deref (fld "Disinvite" req) with
  | None => hpanic []
  | Some dis =>
      let userids := as_strs (fld "UserIds" dis) in
      hdone 200 (disinvite_pubs st userids (as_strs (fld "SessionIds" dis)) ++
                 room_update_pubs userids (as_strs (fld "AllUserIds" dis)))
  end.

(* published first, dereferenced afterwards *)
Definition do_update (st : state) (req : gval) : hres :=
  match deref (fld "Update" req) with
  | None => hpanic (if fits req then [PBackendRoom req] else [])
  | Some upd => hpublish req [] (room_update_pubs [] (as_strs (fld "UserIds" upd)))
  end.

Definition do_delete (st : state) (req : gval) : hres :=
  match deref (fld "Delete" req) with
  | None => hpanic (if fits req then [PBackendRoom req] else [])
  | Some del => hpublish req [] (disinvite_pubs st (as_strs (fld "UserIds" del)) [])
  end.

Definition do_incall (st : state) (req : gval) : hres :=
  match deref (fld "InCall" req) with
  | None => hpanic []
  | Some ic =>
      if as_bool (fld "All" ic) then hpublish req [] []
      else
        let users := fixup_users st (as_list (fld "Users" ic)) in
        let changed := fixup_users st (as_list (fld "Changed" ic)) in
        match users, changed with
        | [], [] => hdone 200 []
        | _, _ => hpublish (set_sub "InCall" [("Users", GSlice users); ("Changed", GSlice changed)] req) [] []
        end
  end.

Definition do_participants (st : state) (req : gval) : hres :=
  match deref (fld "Participants" req) with
  | None => hpanic []
  | Some p =>
      let users := fixup_users st (as_list (fld "Users" p)) in
      let changed := fixup_users st (as_list (fld "Changed" p)) in
      match users, changed with
      | [], [] => hdone 200 []
      | _, _ =>
          match perm_pubs changed with
          | None => hpanic []
          | Some pp => hpublish (set_sub "Participants" [("Users", GSlice users); ("Changed", GSlice changed)] req) pp []
          end
      end
  end.

Definition do_message (st : state) (req : gval) : hres := hpublish req [] [].

Definition do_switchto (st : state) (req : gval) : hres :=
  match deref (fld "SwitchTo" req) with
  | None => hpanic []
  | Some sw =>
      match as_raw (fld "Sessions" sw) with
      | None => hpublish req [] []
      | Some (JArr l) =>
          match std_string_list l with
          | None => hdone 500 []
          | Some ids =>
              match flat_map (fun rs => match lookup_rs st rs with Some sid => [GStr sid] | None => [] end) ids with
              | [] => hdone 200 []
              | internal =>
                  hpublish (set_sub "SwitchTo"
                     [("SessionsList", GSlice internal); ("SessionsMap", GMap []); ("Sessions", GRaw None)] req) [] []
              end
          end
      | Some (JObj ms) =>
          match fold_left (fun acc kv => match lookup_rs st (fst kv) with
                                         | Some sid => map_set sid (GRaw (Some (snd kv))) acc
                                         | None => acc
                                         end) (std_raw_map ms []) [] with
          | [] => hdone 200 []
          | internal =>
              hpublish (set_sub "SwitchTo"
                 [("SessionsList", GSlice []); ("SessionsMap", GMap internal); ("Sessions", GRaw None)] req) [] []
          end
      | Some JNull => hdone 200 []
      | Some _ => hdone 500 []
      end
  end.

Definition do_dialout (st : state) (req : gval) : hres :=
  match deref (fld "Dialout" req) with
  | None => hpanic []
  | Some d =>
      if negb (valid_number (as_str (fld "Number" d))) then hdone 400 []
      else if negb (st_numeric st) then hdone 400 []
      else match st_dialout st with
           | None => hdone 404 []
           | Some c => hdone c []
           end
  end.

Definition dispatch (st : state) (req : gval) : hres :=
  let ty := as_str (fld "Type" req) in
  if String.eqb ty "invite" then do_invite st req
  else if String.eqb ty "disinvite" then do_disinvite st req
  else if String.eqb ty "update" then do_update st req
  else if String.eqb ty "delete" then do_delete st req
  else if String.eqb ty "incall" then do_incall st req
  else if String.eqb ty "participants" then do_participants st req
  else if String.eqb ty "message" then do_message st req
  else if String.eqb ty "switchto" then do_switchto st req
  else if String.eqb ty "dialout" then do_dialout st req
  else hdone 400 [].

Definition handle (fixed : bool) (st : state) (b : body) : hres :=
  match b with
  | BadSyntax => hdone 400 []
  | Doc j =>
      if (Z.of_nat (json_depth j) >? max_nesting)%Z then hdone 400 []
      else match decode ty_request (zero ty_request) j with
           | Err _ => hdone 400 []
           | Ok req =>
               if fixed && negb (check_valid req) then hdone 400 []
               else dispatch st req
           end
  end.

(* ---- the consumers ------------------------------------------------------------------------------
   room.go processBackendRoomRequestRoom (Room's event goroutine), the hub main
   loop (update / delete / incall / participants) and the per-session filter
   (clientsession.go filterMessage).  c_exit = an unrecovered panic. *)
Record cres := { c_exit : bool; c_pubs : list pub; c_state : state }.
Definition cdone (st : state) (ps : list pub) : cres := {| c_exit := false; c_pubs := ps; c_state := st |}.
Definition cexit (st : state) : cres := {| c_exit := true; c_pubs := []; c_state := st |}.

Definition with_props (st : state) (p : option json) : state :=
  {| st_room := st_room st; st_members := st_members st; st_incall := st_incall st; st_props := p;
     st_rs := st_rs st; st_known := st_known st; st_users := st_users st;
     st_numeric := st_numeric st; st_dialout := st_dialout st |}.
Definition with_incall (st : state) (l : list string) : state :=
  {| st_room := st_room st; st_members := st_members st; st_incall := l; st_props := st_props st;
     st_rs := st_rs st; st_known := st_known st; st_users := st_users st;
     st_numeric := st_numeric st; st_dialout := st_dialout st |}.
Definition room_closed (st : state) : state :=
  {| st_room := false; st_members := []; st_incall := []; st_props := None;
     st_rs := filter (fun e => negb (mem (snd e) (st_members st))) (st_rs st);
     st_known := st_known st; st_users := st_users st;
     st_numeric := st_numeric st; st_dialout := st_dialout st |}.

Definition raw_eqb (a b : option json) : bool :=
  match a, b with
  | None, None => true
  | Some x, Some y => json_eqb x y
  | _, _ => false
  end.

(* IsInCall on a value built by Lexer.Interface() *)
Definition is_in_call (v : gval) : option bool :=
  match v with
  | GIface (JBool b) => Some b
  | GIface (JNum z) => Some (if (Z.abs z <? 2 ^ 53)%Z then Z.odd z else false)
  | GIface (JFloat m e) =>
      let t := (if e >=? 0 then m * 10 ^ e else Z.quot m (10 ^ (- e)))%Z in
      Some (if (Z.abs t <? 2 ^ 53)%Z then Z.odd t else false)
  | _ => None
  end.

(* the loop of PublishUsersInCallChanged over `changed` *)
Definition incall_changed_step (st : state) (acc : list string) (u : gval) : list string :=
  match assoc "inCall" (as_map u) with
  | None => acc
  | Some v =>
      match is_in_call v with
      | None => acc
      | Some b =>
          match (match assoc "sessionId" (as_map u) with
                 | Some x => Some x
                 | None => assoc "sessionid" (as_map u)
                 end) with
          | Some (GIface (JStr sid)) =>
              if mem sid (st_known st) then
                if b then
                  (* only sessions of this room can be in its call (fix a48dc37): an entry
                     for a session that is elsewhere - in another room, in no room - is skipped *)
                  (if mem sid (st_members st) then (if mem sid acc then acc else acc ++ [sid]) else acc)
                else filter (fun s => negb (String.eqb s sid)) acc
              else acc
          | _ => acc
          end
      end
  end.

(* addInternalSessions: the unchecked sessionid.(string); true = no panic *)
Definition is_empty_str (v : gval) : bool :=
  match v with GIface (JStr s) => String.eqb s "" | _ => false end.
Definition add_internal_ok (users : list gval) : bool :=
  forallb (fun u =>
    match assoc "sessionId" (as_map u) with
    | None => true
    | Some sidv =>
        if is_empty_str sidv then true
        else match assoc "userId" (as_map u) with
             | Some uid => if is_empty_str uid then (match sidv with GIface (JStr _) => true | _ => false end) else true
             | None => match sidv with GIface (JStr _) => true | _ => false end
             end
    end) users.

(* filterMessage of every receiving session: entry["sessionId"].(string) for all
   entries of users and changed; Some n = number of user entries afterwards *)
Definition filter_message (users changed : list gval) : option Z :=
  if forallb (fun u => match user_sid u with Some _ => true | None => false end) (users ++ changed) then
    let sids := flat_map (fun u => match user_sid u with Some s => [s] | None => [] end) users in
    Some (Z.of_nat (List.length users +
                    List.length (filter (fun u => match user_sid u with
                                                  | Some s => negb (mem s sids)
                                                  | None => false
                                                  end) changed)))
  else None.

(* publish a participants update to the room *)
Definition publish_participants (st : state) (users changed : list gval) : cres :=
  if negb (add_internal_ok users) then cexit st
  else match st_members st with
       | [] => cdone st [PRoomEv (KParticipants (Z.of_nat (List.length users)))]
       | _ => match filter_message users changed with
              | None => cexit st
              | Some n => cdone st [PRoomEv (KParticipants n)]
              end
       end.

(* the flags of an "incall all" request: an int, else a bool, else ignored *)
Definition incall_flags (r : option json) : option Z :=
  match r with
  | Some (JNum z) => if ((- 2 ^ 63 <=? z) && (z <=? 2 ^ 63 - 1))%Z then Some z else None
  | Some (JBool true) => Some c11_FlagInCall
  | Some (JBool false) => Some 0%Z
  | _ => None
  end.

Definition consume (st : state) (r : gval) : cres :=
  let ty := as_str (fld "Type" r) in
  if String.eqb ty "update" then
    match deref (fld "Update" r) with
    | None => cexit st                                   (* hub.go processRoomUpdated *)
    | Some upd =>
        let p := as_raw (fld "Properties" upd) in
        if raw_eqb (st_props st) p then cdone st []
        else cdone (with_props st p) [PRoomEv KRoomProps]
    end
  else if String.eqb ty "delete" then
    cdone (room_closed st) (map (fun sid => PSession sid KRoomLeft) (st_members st))
  else if String.eqb ty "incall" then
    match deref (fld "InCall" r) with
    | None => cexit st                                   (* hub.go processRoomInCallChanged *)
    | Some ic =>
        if as_bool (fld "All" ic) then
          match incall_flags (as_raw (fld "InCall" ic)) with
          | None => cdone st []
          | Some flags =>
              if Z.odd flags then
                match filter (fun s => negb (mem s (st_incall st))) (st_members st) with
                | [] => cdone st []
                | joined => cdone (with_incall st (st_incall st ++ joined))
                                  (map (fun sid => PSession sid (KInCallAll flags)) (st_members st))
                end
              else
                match st_incall st with
                | [] => cdone st []
                | _ => cdone (with_incall st []) (map (fun sid => PSession sid (KInCallAll flags)) (st_members st))
                end
          end
        else
          let users := as_list (fld "Users" ic) in
          let changed := as_list (fld "Changed" ic) in
          let st' := with_incall st (fold_left (incall_changed_step st) changed (st_incall st)) in
          publish_participants st' users changed
    end
  else if String.eqb ty "participants" then
    match deref (fld "Participants" r) with
    | None => cexit st                                   (* hub.go processRoomParticipants *)
    | Some p => publish_participants st (as_list (fld "Users" p)) (as_list (fld "Changed" p))
    end
  else if String.eqb ty "message" then
    match deref (fld "Message" r) with                   (* publishRoomMessage checks for nil itself *)
    | None => cdone st []
    | Some m => match as_raw (fld "Data" m) with
                | None => cdone st []
                | Some _ => cdone st [PRoomEv KRoomMessage]
                end
    end
  else if String.eqb ty "switchto" then
    match deref (fld "SwitchTo" r) with
    | None => cexit st                                   (* room.go publishSwitchTo *)
    | Some sw =>
        cdone st (map (fun s => PSession (as_str s) KSwitchTo) (as_list (fld "SessionsList" sw)) ++
                  map (fun kv => PSession (fst kv) KSwitchTo) (as_map (fld "SessionsMap" sw)))
    end
  else if String.eqb ty "transient" then
    match deref (fld "Transient" r) with
    | None => cexit st                                   (* room.go, never published by the API handler *)
    | Some _ => cdone st []
    end
  else cdone st [].

(* ---- one request, end to end ---------------------------------------------------------------------- *)
Record obs := { o_reply : reply; o_exit : bool; o_pubs : list pub }.

(* deliver the publications addressed to the Room object, in order *)
Fixpoint deliver (st : state) (ps : list pub) : cres :=
  match ps with
  | [] => cdone st []
  | PBackendRoom r :: rest =>
      if st_room st then
        let c := consume st r in
        if c_exit c then {| c_exit := true; c_pubs := PBackendRoom r :: c_pubs c; c_state := c_state c |}
        else let c' := deliver (c_state c) rest in
             {| c_exit := c_exit c'; c_pubs := PBackendRoom r :: c_pubs c ++ c_pubs c'; c_state := c_state c' |}
      else let c' := deliver st rest in
           {| c_exit := c_exit c'; c_pubs := PBackendRoom r :: c_pubs c'; c_state := c_state c' |}
  | p :: rest =>
      let c' := deliver st rest in
      {| c_exit := c_exit c'; c_pubs := p :: c_pubs c'; c_state := c_state c' |}
  end.

Definition step (fixed : bool) (st : state) (b : body) : state * obs :=
  let h := handle fixed st b in
  let c := deliver st (h_pubs h) in
  (c_state c, {| o_reply := h_reply h; o_exit := c_exit c; o_pubs := c_pubs c |}).

(* a history of requests; the process does not survive an exit *)
Fixpoint run (fixed : bool) (st : state) (bs : list body) : list obs :=
  match bs with
  | [] => []
  | b :: r => let '(st', o) := step fixed st b in
              o :: (if o_exit o then [] else run fixed st' r)
  end.

(* what one session (public id sid, user uid, member of the room or not) receives *)
Definition is_event_for (st : state) (sid : string) (p : pub) : list evkind :=
  match p with
  | PUser u k => if existsb (fun e => String.eqb (fst e) sid && String.eqb (snd e) u) (st_users st) then [k] else []
  | PSession s k => if String.eqb s sid then [k] else []
  | PRoomEv k => if mem sid (st_members st) then [k] else []
  | PPerm _ _ => []
  | PBackendRoom _ => []
  end.
Definition events_for (st : state) (sid : string) (ps : list pub) : list evkind :=
  flat_map (is_event_for st sid) ps.

(* everything a request made visible outside the handler: empty = "silent" *)
Definition silent (o : obs) : bool := match o_pubs o with [] => true | _ => false end.
