(* Executable model of
     hub.go             GetRealUserIP / Hub.getRealUserIP
     allowed_ips.go     ParseAllowedIps / parseIPNet (configuration strings),
                        AllowedIps.Allowed (net.IPNet.Contains), the default lists
     backend_server.go  allowStatsAccess / validateStatsRequest (stats, serverinfo, metrics)
     proxy/proxy_server.go  allowStatsAccess / validateStatsRequest (stats, metrics)
   No proofs here.

   Library behaviour that is not ours to model is a parameter of the section
   (never an axiom): net.ParseIP, net.SplitHostPort and net.ParseCIDR.  strings.Split,
   strings.Join, strings.TrimSpace and slices.Reverse are modelled concretely. *)
From Coq Require Import List NArith Bool String Ascii.
From Verif Require Import gen.Params.
Import ListNotations.
Open Scope N_scope.

(* ---- addresses and networks ------------------------------------------------
   V4 n : an IPv4 address (also the IPv4-mapped IPv6 form: net.IP.To4 succeeds),
          n < 2^32
   V6 n : any other IPv6 address, n < 2^128
   A network is (base address, prefix length); this is what
   net.IPNet.Contains works on after its To4 normalisation. *)
Inductive ip := V4 (n : N) | V6 (n : N).
Definition net := (ip * N)%type.

(* net.CIDRMask(len, w) as a number *)
Definition mask (w len : N) : N := N.shiftl (N.ones len) (w - len).

(* net.IPNet.Contains: same family and  nn[i]&m[i] == ip[i]&m[i]  for all bytes *)
Definition contains (n : net) (a : ip) : bool :=
  match fst n, a with
  | V4 x, V4 y => let m := mask 32 (snd n) in N.eqb (N.land x m) (N.land y m)
  | V6 x, V6 y => let m := mask 128 (snd n) in N.eqb (N.land x m) (N.land y m)
  | _, _ => false
  end.

(* AllowedIps.Allowed *)
Definition allowed (nets : list net) (a : ip) : bool := existsb (fun n => contains n a) nets.

(* ---- strings ---------------------------------------------------------------- *)
Open Scope string_scope.

(* strings.Split(s, sep) for a one-byte separator *)
Fixpoint split_on (sep : ascii) (s : string) : list string :=
  match s with
  | EmptyString => [EmptyString]
  | String c r =>
      if Ascii.eqb c sep then EmptyString :: split_on sep r
      else match split_on sep r with
           | h :: t => String c h :: t
           | [] => [String c EmptyString]
           end
  end.
Definition split_comma (s : string) : list string := split_on "," s.

(* strings.Join(l, ",") *)
Fixpoint join_comma (l : list string) : string :=
  match l with
  | [] => ""
  | a :: r => match r with [] => a | _ => a ++ String "," (join_comma r) end
  end.

(* strings.TrimSpace: leading and trailing runes with unicode.IsSpace are
   removed.  Every such rune has exactly one valid UTF-8 encoding, listed here;
   any other byte sequence (including invalid UTF-8) stops the trimming. *)
Definition bytes (l : list N) : string :=
  fold_right (fun n s => String (ascii_of_N n) s) EmptyString l.
Definition space_runes : list (list N) :=
  [ [9]; [10]; [11]; [12]; [13]; [32];          (* \t \n \v \f \r space *)
    [194;133]; [194;160];                        (* U+0085 U+00A0 *)
    [225;154;128];                               (* U+1680 *)
    [226;128;128]; [226;128;129]; [226;128;130]; [226;128;131]; [226;128;132];
    [226;128;133]; [226;128;134]; [226;128;135]; [226;128;136]; [226;128;137];
    [226;128;138];                               (* U+2000 .. U+200A *)
    [226;128;168]; [226;128;169]; [226;128;175]; (* U+2028 U+2029 U+202F *)
    [226;129;159];                               (* U+205F *)
    [227;128;128] ]%N.                           (* U+3000 *)
Definition space_pats : list string := Eval vm_compute in map bytes space_runes.
Definition space_pats_rev : list string :=
  Eval vm_compute in map (fun l => bytes (rev l)) space_runes.

Fixpoint strip_prefix (p s : string) : option string :=
  match p with
  | EmptyString => Some s
  | String c p' =>
      match s with
      | String d s' => if Ascii.eqb c d then strip_prefix p' s' else None
      | EmptyString => None
      end
  end.
Fixpoint strip_any (ps : list string) (s : string) : option string :=
  match ps with
  | [] => None
  | p :: r => match strip_prefix p s with Some t => Some t | None => strip_any r s end
  end.
Fixpoint trim_left_f (ps : list string) (fuel : nat) (s : string) : string :=
  match fuel with
  | O => s
  | S f => match strip_any ps s with Some t => trim_left_f ps f t | None => s end
  end.
Definition trim_left (ps : list string) (s : string) : string := trim_left_f ps (String.length s) s.
Fixpoint rev_app (s acc : string) : string :=
  match s with EmptyString => acc | String c r => rev_app r (String c acc) end.
Definition rev_string (s : string) : string := rev_app s EmptyString.
Definition trim (s : string) : string :=
  rev_string (trim_left space_pats_rev (rev_string (trim_left space_pats s))).

(* ---- the default lists -------------------------------------------------------
   privateIpNets is regenerated from allowed_ips.go on every run (gen/Params.v:
   c16_privateIpNets); the model parses the dotted "a.b.c.d/n" texts itself. *)
Open Scope N_scope.
Definition digit (c : ascii) : option N :=
  let n := N_of_ascii c in if (48 <=? n) && (n <=? 57) then Some (n - 48) else None.
Fixpoint dec_aux (s : string) (acc : N) : option N :=
  match s with
  | EmptyString => Some acc
  | String c r => match digit c with Some d => dec_aux r (acc * 10 + d) | None => None end
  end.
Definition dec (s : string) : option N :=
  match s with EmptyString => None | _ => dec_aux s 0 end.
Definition parse_v4 (s : string) : option N :=
  match map dec (split_on "." s) with
  | [Some a; Some b; Some c; Some d] =>
      if (a <=? 255) && (b <=? 255) && (c <=? 255) && (d <=? 255)
      then Some (((a * 256 + b) * 256 + c) * 256 + d) else None
  | _ => None
  end.
(* net.ParseCIDR for IPv4 texts: the base address is masked *)
Definition parse_cidr4 (s : string) : option net :=
  match split_on "/" s with
  | [a; l] => match parse_v4 a, dec l with
              | Some x, Some n => if n <=? 32 then Some (V4 (N.land x (mask 32 n)), n) else None
              | _, _ => None
              end
  | _ => None
  end.
(* DefaultTrustedProxies = DefaultPrivateIps() *)
Definition default_trusted : list net :=
  flat_map (fun s => match parse_cidr4 s with Some n => [n] | None => [] end) c16_privateIpNets.
(* DefaultAllowedIps(): 127.0.0.1/32 *)
Definition default_stats_allowed : list net := [(V4 2130706433, 32)].

(* ---- GetRealUserIP ---------------------------------------------------------- *)
Open Scope string_scope.

(* ---- operations and observations ------------------------------------------- *)
(* the two options of a configuration file that matter here: app.trustedproxies and
   stats.allowed_ips, each absent or a text *)
Definition conf := (option string * option string)%type.
(* goconf's GetString with the error ignored: an absent option reads as "" *)
Definition opt_text (o : option string) : string := match o with Some s => s | None => "" end.

Inductive op :=
| ORealIP (trusted : option (list net)) (peer : string) (xr xff : list string)
| OStats (endpoint : N) (trusted allow : list net) (peer : string) (xr xff : list string)
| OAllowed (nets : list net) (a : ip)
| ODefaults
(* the same with the configuration as the text the administrator wrote
   (app.trustedproxies, stats.allowed_ips): the lists are parsed by the model *)
| OCfgRealIP (cfg : option string) (peer : string) (xr xff : list string)   (* GetRealUserIP(r, ParseAllowedIps(cfg)); None: nil list *)
| OCfgHub (cfg : string) (peer : string) (xr xff : list string)             (* Hub.getRealUserIP, hub started or reloaded with cfg *)
| OCfgStats (endpoint : N) (tcfg acfg : string) (peer : string) (xr xff : list string)
| OCfgAllowed (cfg : string) (a : ip)                                        (* ParseAllowedIps(cfg).Allowed(a) *)
| OCfgParse (cfg : string)                                                   (* ParseAllowedIps(cfg), as net.IPNet.Contains reads the result *)
(* a server with a configuration HISTORY: started with one configuration file, then
   reloaded (Hub.Reload, BackendServer.Reload; the proxy: ProxyServer.Reload) with each
   file of the list in turn.  Of a file only the two options count, each absent (None:
   the option or its whole section is not in the file) or present with a text. *)
| OHistHub (start : option string) (reloads : list (option string))         (* app.trustedproxies of every file *)
           (peer : string) (xr xff : list string)
| OHistStats (endpoint : N) (start : conf) (reloads : list conf)
             (peer : string) (xr xff : list string).

Inductive out :=
| VAddr (s : string)
| VStatus (c : N)
| VBool (b : bool)
| VNets (trusted stats : list net)
| VReject                                  (* the configuration is refused (ParseAllowedIps returns an error) *)
| VParsed (l : list net).

(* ---- configuration strings (no library involved) --------------------------- *)
Fixpoint has_slash (s : string) : bool :=
  match s with
  | EmptyString => false
  | String c r => Ascii.eqb c "/" || has_slash r
  end.

(* an entry without prefix length is that single address: net.CIDRMask(len(ip)*8, len(ip)*8)
   on the 16-byte form net.ParseIP returns, which net.IPNet.Contains reads as /32
   for an IPv4(-mapped) address and as /128 otherwise *)
Definition full_net (a : ip) : net := match a with V4 _ => (a, 32%N) | V6 _ => (a, 128%N) end.

(* an empty list means "use the default" at every place a list is configured *)
Definition or_default (d l : list net) : list net := match l with [] => d | _ => l end.

Section RealIP.
(* net.ParseIP (None = nil), net.SplitHostPort (host part when err == nil) and
   net.ParseCIDR (the network, as net.IPNet.Contains reads it; None = error) *)
Context (parse_ip : string -> option ip) (split_host_port : string -> option string)
        (parse_cidr : string -> option net).

(* parseIPNet *)
Definition parse_ipnet (s : string) : option net :=
  if has_slash s then parse_cidr s
  else match parse_ip s with Some a => Some (full_net a) | None => None end.

(* ParseAllowedIps: strings.Split(allowed, ","), TrimSpace, empty entries are
   skipped, the first entry that does not parse makes the whole list an error *)
Fixpoint parse_entries (l : list string) : option (list net) :=
  match l with
  | [] => Some []
  | e :: r =>
      let e' := trim e in
      if String.eqb e' "" then parse_entries r
      else match parse_ipnet e' with
           | None => None
           | Some n => match parse_entries r with Some ns => Some (n :: ns) | None => None end
           end
  end.
Definition parse_allowed (cfg : string) : option (list net) := parse_entries (split_comma cfg).

(* if host, _, err := net.SplitHostPort(s); err == nil { s = host } *)
Definition strip_port (s : string) : string :=
  match split_host_port s with Some h => h | None => s end.

(* the loop over the reversed list of hops; `last_trusted` is the variable
   lastTrusted of the code *)
Fixpoint scan (t : list net) (hops : list string) (last_trusted : string) : option string * string :=
  match hops with
  | [] => (None, last_trusted)
  | hop :: r =>
      let hop' := strip_port (trim hop) in
      match parse_ip hop' with
      | None => scan t r last_trusted                        (* continue *)
      | Some a => if allowed t a then scan t r hop'          (* lastTrusted = hop; continue *)
                  else (Some hop', last_trusted)             (* return hop *)
      end
  end.

(* trusted = None is the nil *AllowedIps;  xr / xff are
   r.Header.Values("X-Real-Ip") / r.Header.Values("X-Forwarded-For"):
   every header line of that name, in order *)
Definition real_ip (trusted : option (list net)) (peer : string) (xr xff : list string) : string :=
  let addr := strip_port peer in
  match parse_ip addr with
  | None => addr
  | Some a =>
      match trusted with
      | None => addr
      | Some t =>
          if negb (allowed t a) then addr
          else
            let real := match xr with v :: _ => v | [] => "" end in       (* Header.Get *)
            match (if String.eqb real "" then None
                   else match parse_ip real with Some _ => Some real | None => None end) with
            | Some v => v
            | None =>
                match scan t (rev (split_comma (join_comma xff))) "" with
                | (Some hop, _) => hop
                | (None, lt) => if String.eqb lt "" then addr else lt
                end
            end
      end
  end.

(* allowStatsAccess (backend server and proxy: the same code) *)
Definition allow_stats (trusted allow : list net) (peer : string) (xr xff : list string) : bool :=
  match parse_ip (real_ip (Some trusted) peer xr xff) with
  | None => false
  | Some a => allowed allow a
  end.

(* validateStatsRequest(f): 403 or the wrapped handler (which answers 200).
   Endpoints: 0 /api/v1/stats, 1 /api/v1/serverinfo, 2 /metrics of the signaling
   server; 3 /stats, 4 /metrics of the proxy.  All are wrapped the same way. *)
Definition endpoint_status (endpoint : N) (trusted allow : list net) (peer : string)
           (xr xff : list string) : N :=
  if allow_stats trusted allow peer xr xff then 200%N else 403%N.

(* NewHub / Hub.Reload: app.trustedproxies, empty = DefaultTrustedProxies;
   NewBackendServer / Reload, proxy: stats.allowed_ips, empty = DefaultAllowedIps() *)
Definition hub_trusted (cfg : string) : option (list net) :=
  match parse_allowed cfg with Some l => Some (or_default default_trusted l) | None => None end.
Definition stats_allowed (cfg : string) : option (list net) :=
  match parse_allowed cfg with Some l => Some (or_default default_stats_allowed l) | None => None end.

(* Reload (Hub.Reload for app.trustedproxies, BackendServer.Reload / ProxyServer.Reload for
   stats.allowed_ips): the option is read again from the new file (absent = ""), an empty
   list means the default d, a text that is refused leaves the list as it is.
   Start (NewHub, NewBackendServer, NewProxyServer): the same reading, but a refused text
   is an error: there is no server. *)
Definition reload_list (d cur : list net) (o : option string) : list net :=
  match parse_allowed (opt_text o) with Some l => or_default d l | None => cur end.
Definition history_list (d : list net) (start : option string) (reloads : list (option string))
  : option (list net) :=
  match parse_allowed (opt_text start) with
  | Some l => Some (fold_left (reload_list d) reloads (or_default d l))
  | None => None
  end.

Definition step (o : op) : out :=
  match o with
  | ORealIP t peer xr xff => VAddr (real_ip t peer xr xff)
  | OStats e t al peer xr xff => VStatus (endpoint_status e t al peer xr xff)
  | OAllowed nets a => VBool (allowed nets a)
  | ODefaults => VNets default_trusted default_stats_allowed
  | OCfgRealIP None peer xr xff => VAddr (real_ip None peer xr xff)
  | OCfgRealIP (Some cfg) peer xr xff =>
      match parse_allowed cfg with
      | Some t => VAddr (real_ip (Some t) peer xr xff)
      | None => VReject
      end
  | OCfgHub cfg peer xr xff =>
      match hub_trusted cfg with
      | Some t => VAddr (real_ip (Some t) peer xr xff)
      | None => VReject
      end
  | OCfgStats e tcfg acfg peer xr xff =>
      match hub_trusted tcfg, stats_allowed acfg with
      | Some t, Some al => VStatus (endpoint_status e t al peer xr xff)
      | _, _ => VReject
      end
  | OCfgAllowed cfg a =>
      match parse_allowed cfg with Some l => VBool (allowed l a) | None => VReject end
  | OCfgParse cfg =>
      match parse_allowed cfg with Some l => VParsed l | None => VReject end
  | OHistHub st rl peer xr xff =>
      match history_list default_trusted st rl with
      | Some t => VAddr (real_ip (Some t) peer xr xff)
      | None => VReject
      end
  | OHistStats e st rl peer xr xff =>
      match history_list default_trusted (fst st) (map fst rl),
            history_list default_stats_allowed (snd st) (map snd rl) with
      | Some t, Some al => VStatus (endpoint_status e t al peer xr xff)
      | _, _ => VReject
      end
  end.

Definition run (ops : list op) : list out := map step ops.
End RealIP.
