(* Executable model of the hub: connections, hello / resume, sessions, rooms,
   room-session map, message routing, event bus queue, expiry, room API,
   virtual sessions, media objects.  Mirrors hub.go, clientsession.go, room.go,
   roomsessions_builtin.go, virtualsession.go, the parts of backend_server.go that
   publish events, and client.go's "close after bye".  No proofs here.

   Identifiers are numbers: sid = the hub's numeric session id (the value inside
   the signed session ids), conn = connection number chosen by the driver,
   backends by index, rooms / users / Nextcloud session ids by number. *)
From Coq Require Import String List NArith ZArith Bool.
From Verif Require Import gen.Params.
Import ListNotations.
Open Scope N_scope.

(* ------------------------------------------------------------------ small library *)
Definition alist (V : Type) := list (N * V).

Fixpoint aget {V} (l : alist V) (k : N) : option V :=
  match l with
  | [] => None
  | (k', v) :: r => if N.eqb k k' then Some v else aget r k
  end.
Fixpoint adel {V} (l : alist V) (k : N) : alist V :=
  match l with
  | [] => []
  | (k', v) :: r => if N.eqb k k' then adel r k else (k', v) :: adel r k
  end.
(* update in place when present (keeps the order), append otherwise *)
Fixpoint aset {V} (l : alist V) (k : N) (v : V) : alist V :=
  match l with
  | [] => [(k, v)]
  | (k', v') :: r => if N.eqb k k' then (k, v) :: r else (k', v') :: aset r k v
  end.
Definition ahas {V} (l : alist V) (k : N) : bool := match aget l k with Some _ => true | None => false end.

Fixpoint nmem (x : N) (l : list N) : bool :=
  match l with [] => false | y :: r => N.eqb x y || nmem x r end.
Fixpoint nrem (x : N) (l : list N) : list N :=
  match l with [] => [] | y :: r => if N.eqb x y then nrem x r else y :: nrem x r end.
Definition nadd (x : N) (l : list N) : list N := if nmem x l then l else l ++ [x].

Definition pair_eqb (a b : N * N) : bool := N.eqb (fst a) (fst b) && N.eqb (snd a) (snd b).
Definition opt_pair_eqb (a b : option (N * N)) : bool :=
  match a, b with Some x, Some y => pair_eqb x y | None, None => true | _, _ => false end.

(* association lists keyed by pairs *)
Fixpoint pget {V} (l : list ((N * N) * V)) (k : N * N) : option V :=
  match l with [] => None | (k', v) :: r => if pair_eqb k k' then Some v else pget r k end.
Fixpoint pdel {V} (l : list ((N * N) * V)) (k : N * N) : list ((N * N) * V) :=
  match l with [] => [] | (k', v) :: r => if pair_eqb k k' then pdel r k else (k', v) :: pdel r k end.
Fixpoint pset {V} (l : list ((N * N) * V)) (k : N * N) (v : V) : list ((N * N) * V) :=
  match l with
  | [] => [(k, v)]
  | (k', v') :: r => if pair_eqb k k' then (k, v) :: r else (k', v') :: pset r k v
  end.

(* ------------------------------------------------------------------ alphabet *)
Inductive idref := IdPriv (n : N) | IdPub (n : N) | IdOther (k : N) | IdRS (n : N).
Inductive recipient := RSession (i : idref) | RUser (u : N) | RRoom | RCall.

(* A protocol 2.0 token as the driver built it: the signing method its header names (index into
   v2_alg_names), whose private key made the signature (0: the signature verifies under no key any
   backend publishes; b+1: the key pair whose public half backend b publishes), and the time claims
   in seconds relative to the moment the request is processed. *)
Record v2tok := mkv2 { t_alg : N; t_signer : N; t_iat : option Z; t_nbf : option Z; t_exp : option Z }.

Inductive hello :=
| HV1 (b u : N) (reject : bool)
| HV2 (b u : N) (t : v2tok)
| HInternal (b tok : N) (incallfeat dialout : bool)     (* tok = 0: valid token *)
| HResume (i : idref).

Inductive roomreply := RepOk (perms : option N) (sessuser : N) | RepErr (code : N).

Definition apiuser := (idref * N * option N)%type.        (* who, inCall flags, permissions *)
Inductive apireq :=
| ADelete
| ADisinvite (users : list N) (rsessions : list N)
| AUpdate (tag : N)
| AParticipants (l : list apiuser)
| AInCall (l : list apiuser)
| AInCallAll (incall : N)
| AMessage (tag : N)
(* "dialout": start a call to a phone number. ok = the request passes the checks made before a client is
   looked for (E.164 number, numeric room id); the room of the op is the number the room id spells *)
| ADialout (ok : bool)
(* the room request "transient" (room.go processBackendRoomRequestRoom): set a key of the room's transient data
   (del = false) or delete it (del = true).  It is not a request type of the HTTP room API (backend_server.go
   answers 400 "Unsupported request type"): it is published on the room's backend subject by hub.go for a dial-out
   status, or arrives from another server of the cluster.  val = 0: a set without value, which removes the key.
   The hub model has no time-to-live (coq/model/Transient.v has): the driver sends none. *)
| ATransient (del : bool) (key val : N).

Inductive internalreq :=
| IAdd (v room user : N) (flags incall : option N)
| IUpdate (v room : N) (flags incall : option N)
| IRemove (v room : N)
| IInCall (incall : N).

Inductive op :=
| OConnect (c addr : N)
| OHello (c : N) (h : hello)
| OJoin (c room rs : N) (rep : roomreply)        (* room 0 = leave *)
| OMsg (c : N) (to : recipient) (tag : N)
| OCtl (c : N) (to : recipient) (tag : N)
| OBye (c : N)
| ODrop (c : N)
| OTick (secs : N)
| OApi (b signas room : N) (q : apireq)
| OInternal (c : N) (q : internalreq)
| OMedia (c : N) (to : recipient) (mk stream media : N)
| OMcuDone (tok : N) (ok : bool)
| OTransient (c kind key val : N)
| ODeliver (pos : N)
(* the connection is closed while its hello is being processed: before the backend answered (late =
   false) or after the new session was entered into the backend's list and before it is entered into
   the hub's tables (late = true); for a resume: while the hub looks the session up *)
| OHelloAborted (c : N) (h : hello) (late : bool).

Inductive rcpt := RcptVirtual (v : N) | RcptSid (s : N) | RcptOther.

(* the "transient" server messages: the whole data of the room (sent when a session joins a room whose data is not
   empty), a value that was set (with the previous one when there was one), a key that was removed *)
Inductive tmsg :=
| TInit (d : list (N * N))                     (* key -> value *)
| TSet (key val : N) (old : option N)
| TRemove (key : N) (old : option N).

(* what a client can read (projection applied by the harness) *)
Inductive smsg :=
| SWelcome
| SHello (sid user : N)
| SError (code : N)
| SBye (reason : N)
| SRoom (room : N)
| SJoin (l : list (N * N))                     (* (sid, user), sorted by sid *)
| SLeave (l : list N)
| SMsg (kind stype ssid suser : N) (r : option rcpt) (tag : N)
| SMedia (mt from : N)
| SRoomMsg (tag : N)
| SDisinvite (room : N)
| SRoomDeleted
| SRoomlist (k : N)
| SPart (all : N)
(* a participants update as a client reads it: the room it is for and the signaling session ids its user list
   names, sorted.  The model sends SPart (which sessions an update lists is not modelled); the list is judged by
   the trace predicates only (corr/Hub_preds.v part_ok) *)
| SPartL (all room : N) (ids : list N)
| SFlags (sid flags : N)
| STransient (t : tmsg)
| SDialout (room : N)                          (* "internal"/"dialout": the request handed to a dial-out client *)
| SOther (k : N).

(* error codes / bye reasons: indices into the harness's tables *)
Definition E_hello_expected := 1.      Definition E_invalid_format := 2.
Definition E_invalid_client_type := 5. Definition E_invalid_backend := 6.
Definition E_invalid_token := 7.       Definition E_no_such_session := 8.
Definition E_too_many_requests := 11.  Definition E_already_joined := 13.
Definition E_not_allowed := 14.        Definition E_client_not_found := 15.
Definition E_not_in_room := 17.        Definition E_invalid_user := 19.
Definition E_ignored := 18.
Definition E_session_limit := 21.
Definition E_token_not_valid_yet := 9. Definition E_token_expired := 10.
Definition B_hello_timeout := 1.       Definition B_room_join_timeout := 2.
Definition B_session_resumed := 3.     Definition B_room_session_reconnected := 4.

(* backend request: (backend, kind, action, room, session, well-formed checksum) *)
Definition breq := (N * N * N * N * N * N)%type.
Inductive mcuev := MCreate (kind tok owner stream pubof : N) | MCreated (tok : N) | MClose (tok : N) | MFailed (tok : N).

Inductive out :=
| ToConn (c : N) (m : smsg)
| Closed (c : N)
| ToBackend (q : breq)
| ToMcu (e : mcuev).

(* ------------------------------------------------------------------ state *)
Inductive kind := KClient | KInternal (incallfeat dialout : bool) | KVirtual (parent vid : N).

Definition is_internal (k : kind) : bool := match k with KInternal _ _ => true | _ => false end.
Definition is_virtual (k : kind) : bool := match k with KVirtual _ _ => true | _ => false end.
Definition kind_num (k : kind) : N := match k with KClient => 0 | KInternal _ _ => 1 | KVirtual _ _ => 3 end.

Record session := mksess {
  s_backend : N;
  s_kind : kind;
  s_user : N;                      (* authenticated user, 0 = anonymous *)
  s_room : option (N * N);         (* (backend, room) *)
  s_rs : N;                        (* room session id: 0 none, 1000000+n Nextcloud id n, 2000000+sid own public id *)
  s_conn : option N;
  s_perms : option N;              (* None = old-style session without permissions *)
  s_pending : list smsg;
  s_seen : list N;                 (* sessions already announced as joined *)
  s_join : N;                      (* clock value at which the room was set *)
  s_incall : N;                    (* in-call flags of internal / virtual sessions *)
  s_flags : N;                     (* flags of virtual sessions *)
  s_pubs : list (N * N);           (* stream -> media-server token *)
  s_subs : list ((N * N) * N);     (* (publisher sid, stream) -> token *)
  s_pubmedia : list (N * N);       (* token -> media bits of the publisher *)
  s_rel : N;                       (* number of times the media objects were released *)
}.

Record room := mkroom {
  r_members : list N;
  r_incall : list N;
  r_sessdata : alist N;            (* sid -> user id from the room session data *)
  r_transient : alist N;           (* key -> value *)
  r_props : N;                     (* 0 = none, tag + 1 after an update *)
}.

Record conn := mkconn { c_addr : N; c_sess : option N; c_expect : bool }.

(* a creation at the media server that has not completed yet *)
Record mcupend := mkpend {
  mp_kind : N;      (* 0 publisher, 1 subscriber *)
  mp_owner : N;     (* session the object is created for *)
  mp_stream : N;
  mp_pubof : N;     (* subscribers: session whose stream is subscribed *)
  mp_media : N;
  mp_rel : N;       (* owner's release counter when the creation started *)
  mp_reply : N;     (* 1: answer to the owner, 2: offer from mp_pubof to the owner, 0: nothing *)
  mp_errto : N;     (* session that is told when the creation fails *)
}.

(* bus publications *)
Inductive subject := SubjRoom (b r : N) | SubjBackendRoom (b r : N) | SubjUser (b u : N) | SubjSession (sid : N) | SubjNobody.
Inductive amsg :=
| AEvent (m : smsg) (sender : N) (callonly : bool)   (* "message" carrying a server message; sender sid for the echo filter *)
| ARoomEvent (m : smsg)                               (* room-targeted event: subject to the join-time filter *)
| ASessionJoined (sid : N) (internal : bool)
| APermissions (p : N)
| AKick                                               (* bye room_session_reconnected sent through the bus *)
| ARoomReq (q : apireq).
Record pub := mkpub { p_subj : subject; p_msg : amsg; p_time : N }.

Record hub := mkhub {
  h_limits : alist N;              (* backend -> session limit (0 = unlimited) *)
  h_nb : N;                        (* number of configured backends *)
  h_nextsid : N;
  h_clock : N;
  h_conns : alist conn;
  h_sessions : alist session;
  h_rooms : list ((N * N) * room);
  h_rs1 : alist N;                 (* sid -> room session id *)
  h_rs2 : alist N;                 (* room session id -> sid *)
  h_vtable : list ((N * N) * N);   (* (parent sid, vid) -> sid *)
  h_expired : list N;
  h_anonymous : list N;
  h_dialout : list N;
  h_clients : list N;
  h_counted : alist (list N);      (* backend -> sessions counted against the limit *)
  h_fail : list ((N * N) * N);     (* (address, action) -> recorded failures (throttle; all within 30 min) *)
  h_bus : list pub;
  h_mcutok : N;
  h_mcupending : alist mcupend;    (* creations awaiting completion (gated media server) *)
  h_mcuopen : list N;
  h_gated : bool;
}.

Definition init (limits : list N) (gated : bool) : hub :=
  mkhub (combine (map N.of_nat (seq 0 (length limits))) limits) (N.of_nat (length limits))
        0 1 [] [] [] [] [] [] [] [] [] [] [] [] [] 0 [] [] gated.

(* record updates *)
Definition set_conns h v := mkhub h.(h_limits) h.(h_nb) h.(h_nextsid) h.(h_clock) v h.(h_sessions) h.(h_rooms) h.(h_rs1) h.(h_rs2) h.(h_vtable) h.(h_expired) h.(h_anonymous) h.(h_dialout) h.(h_clients) h.(h_counted) h.(h_fail) h.(h_bus) h.(h_mcutok) h.(h_mcupending) h.(h_mcuopen) h.(h_gated).
Definition set_sessions h v := mkhub h.(h_limits) h.(h_nb) h.(h_nextsid) h.(h_clock) h.(h_conns) v h.(h_rooms) h.(h_rs1) h.(h_rs2) h.(h_vtable) h.(h_expired) h.(h_anonymous) h.(h_dialout) h.(h_clients) h.(h_counted) h.(h_fail) h.(h_bus) h.(h_mcutok) h.(h_mcupending) h.(h_mcuopen) h.(h_gated).
Definition set_rooms h v := mkhub h.(h_limits) h.(h_nb) h.(h_nextsid) h.(h_clock) h.(h_conns) h.(h_sessions) v h.(h_rs1) h.(h_rs2) h.(h_vtable) h.(h_expired) h.(h_anonymous) h.(h_dialout) h.(h_clients) h.(h_counted) h.(h_fail) h.(h_bus) h.(h_mcutok) h.(h_mcupending) h.(h_mcuopen) h.(h_gated).
Definition set_rs h v1 v2 := mkhub h.(h_limits) h.(h_nb) h.(h_nextsid) h.(h_clock) h.(h_conns) h.(h_sessions) h.(h_rooms) v1 v2 h.(h_vtable) h.(h_expired) h.(h_anonymous) h.(h_dialout) h.(h_clients) h.(h_counted) h.(h_fail) h.(h_bus) h.(h_mcutok) h.(h_mcupending) h.(h_mcuopen) h.(h_gated).
Definition set_vtable h v := mkhub h.(h_limits) h.(h_nb) h.(h_nextsid) h.(h_clock) h.(h_conns) h.(h_sessions) h.(h_rooms) h.(h_rs1) h.(h_rs2) v h.(h_expired) h.(h_anonymous) h.(h_dialout) h.(h_clients) h.(h_counted) h.(h_fail) h.(h_bus) h.(h_mcutok) h.(h_mcupending) h.(h_mcuopen) h.(h_gated).
Definition set_expired h v := mkhub h.(h_limits) h.(h_nb) h.(h_nextsid) h.(h_clock) h.(h_conns) h.(h_sessions) h.(h_rooms) h.(h_rs1) h.(h_rs2) h.(h_vtable) v h.(h_anonymous) h.(h_dialout) h.(h_clients) h.(h_counted) h.(h_fail) h.(h_bus) h.(h_mcutok) h.(h_mcupending) h.(h_mcuopen) h.(h_gated).
Definition set_anonymous h v := mkhub h.(h_limits) h.(h_nb) h.(h_nextsid) h.(h_clock) h.(h_conns) h.(h_sessions) h.(h_rooms) h.(h_rs1) h.(h_rs2) h.(h_vtable) h.(h_expired) v h.(h_dialout) h.(h_clients) h.(h_counted) h.(h_fail) h.(h_bus) h.(h_mcutok) h.(h_mcupending) h.(h_mcuopen) h.(h_gated).
Definition set_dialout h v := mkhub h.(h_limits) h.(h_nb) h.(h_nextsid) h.(h_clock) h.(h_conns) h.(h_sessions) h.(h_rooms) h.(h_rs1) h.(h_rs2) h.(h_vtable) h.(h_expired) h.(h_anonymous) v h.(h_clients) h.(h_counted) h.(h_fail) h.(h_bus) h.(h_mcutok) h.(h_mcupending) h.(h_mcuopen) h.(h_gated).
Definition set_clients h v := mkhub h.(h_limits) h.(h_nb) h.(h_nextsid) h.(h_clock) h.(h_conns) h.(h_sessions) h.(h_rooms) h.(h_rs1) h.(h_rs2) h.(h_vtable) h.(h_expired) h.(h_anonymous) h.(h_dialout) v h.(h_counted) h.(h_fail) h.(h_bus) h.(h_mcutok) h.(h_mcupending) h.(h_mcuopen) h.(h_gated).
Definition set_counted h v := mkhub h.(h_limits) h.(h_nb) h.(h_nextsid) h.(h_clock) h.(h_conns) h.(h_sessions) h.(h_rooms) h.(h_rs1) h.(h_rs2) h.(h_vtable) h.(h_expired) h.(h_anonymous) h.(h_dialout) h.(h_clients) v h.(h_fail) h.(h_bus) h.(h_mcutok) h.(h_mcupending) h.(h_mcuopen) h.(h_gated).
Definition set_fail h v := mkhub h.(h_limits) h.(h_nb) h.(h_nextsid) h.(h_clock) h.(h_conns) h.(h_sessions) h.(h_rooms) h.(h_rs1) h.(h_rs2) h.(h_vtable) h.(h_expired) h.(h_anonymous) h.(h_dialout) h.(h_clients) h.(h_counted) v h.(h_bus) h.(h_mcutok) h.(h_mcupending) h.(h_mcuopen) h.(h_gated).
Definition set_bus h v := mkhub h.(h_limits) h.(h_nb) h.(h_nextsid) h.(h_clock) h.(h_conns) h.(h_sessions) h.(h_rooms) h.(h_rs1) h.(h_rs2) h.(h_vtable) h.(h_expired) h.(h_anonymous) h.(h_dialout) h.(h_clients) h.(h_counted) h.(h_fail) v h.(h_mcutok) h.(h_mcupending) h.(h_mcuopen) h.(h_gated).
Definition set_nextsid h v := mkhub h.(h_limits) h.(h_nb) v h.(h_clock) h.(h_conns) h.(h_sessions) h.(h_rooms) h.(h_rs1) h.(h_rs2) h.(h_vtable) h.(h_expired) h.(h_anonymous) h.(h_dialout) h.(h_clients) h.(h_counted) h.(h_fail) h.(h_bus) h.(h_mcutok) h.(h_mcupending) h.(h_mcuopen) h.(h_gated).
Definition set_clock h v := mkhub h.(h_limits) h.(h_nb) h.(h_nextsid) v h.(h_conns) h.(h_sessions) h.(h_rooms) h.(h_rs1) h.(h_rs2) h.(h_vtable) h.(h_expired) h.(h_anonymous) h.(h_dialout) h.(h_clients) h.(h_counted) h.(h_fail) h.(h_bus) h.(h_mcutok) h.(h_mcupending) h.(h_mcuopen) h.(h_gated).
Definition set_mcu h tok pend opn := mkhub h.(h_limits) h.(h_nb) h.(h_nextsid) h.(h_clock) h.(h_conns) h.(h_sessions) h.(h_rooms) h.(h_rs1) h.(h_rs2) h.(h_vtable) h.(h_expired) h.(h_anonymous) h.(h_dialout) h.(h_clients) h.(h_counted) h.(h_fail) h.(h_bus) tok pend opn h.(h_gated).

Definition upd_sess (s : session) f_room f_rs f_conn f_perms f_pending f_seen f_join :=
  mksess s.(s_backend) s.(s_kind) s.(s_user) f_room f_rs f_conn f_perms f_pending f_seen f_join
         s.(s_incall) s.(s_flags) s.(s_pubs) s.(s_subs) s.(s_pubmedia) s.(s_rel).
Definition sess_room s v := upd_sess s v s.(s_rs) s.(s_conn) s.(s_perms) s.(s_pending) s.(s_seen) s.(s_join).
Definition sess_rs s v := upd_sess s s.(s_room) v s.(s_conn) s.(s_perms) s.(s_pending) s.(s_seen) s.(s_join).
Definition sess_conn s v := upd_sess s s.(s_room) s.(s_rs) v s.(s_perms) s.(s_pending) s.(s_seen) s.(s_join).
Definition sess_perms s v := upd_sess s s.(s_room) s.(s_rs) s.(s_conn) v s.(s_pending) s.(s_seen) s.(s_join).
Definition sess_pending s v := upd_sess s s.(s_room) s.(s_rs) s.(s_conn) s.(s_perms) v s.(s_seen) s.(s_join).
Definition sess_seen s v := upd_sess s s.(s_room) s.(s_rs) s.(s_conn) s.(s_perms) s.(s_pending) v s.(s_join).
Definition sess_join s v := upd_sess s s.(s_room) s.(s_rs) s.(s_conn) s.(s_perms) s.(s_pending) s.(s_seen) v.
Definition sess_media (s : session) incall flags pubs subs pm :=
  mksess s.(s_backend) s.(s_kind) s.(s_user) s.(s_room) s.(s_rs) s.(s_conn) s.(s_perms) s.(s_pending) s.(s_seen) s.(s_join)
         incall flags pubs subs pm s.(s_rel).
Definition sess_rel (s : session) (v : N) :=
  mksess s.(s_backend) s.(s_kind) s.(s_user) s.(s_room) s.(s_rs) s.(s_conn) s.(s_perms) s.(s_pending) s.(s_seen) s.(s_join)
         s.(s_incall) s.(s_flags) s.(s_pubs) s.(s_subs) s.(s_pubmedia) v.

Definition get_sess (h : hub) (sid : N) : option session := aget h.(h_sessions) sid.
Definition put_sess (h : hub) (sid : N) (s : session) : hub := set_sessions h (aset h.(h_sessions) sid s).

(* ------------------------------------------------------------------ permissions *)
(* bit i of the mask = permission i of the harness table:
   0 publish-audio 1 publish-video 2 publish-screen 3 publish-media 4 control 5 transient-data 6 hide-displaynames *)
Definition P_AUDIO := 0. Definition P_VIDEO := 1. Definition P_SCREEN := 2. Definition P_MEDIA := 3.
Definition P_CONTROL := 4. Definition P_TRANSIENT := 5. Definition P_HIDE := 6.

(* sessions without permissions from the backend: everything is allowed except
   what DefaultPermissionOverrides switches off (hide-displaynames) *)
Definition has_perm (perms : option N) (p : N) : bool :=
  match perms with
  | None => negb (N.eqb p P_HIDE)
  | Some m => N.testbit m p
  end.
Definition sess_has_perm (s : session) (p : N) : bool :=
  match s.(s_kind) with KVirtual _ _ => true | _ => has_perm s.(s_perms) p end.

(* ------------------------------------------------------------------ sending to a session *)
(* own user id as others see it: the authenticated id, else the one from the room session data *)
Definition room_of (h : hub) (k : N * N) : option room := pget h.(h_rooms) k.
Definition sess_userid (h : hub) (sid : N) (s : session) : N :=
  if N.eqb s.(s_user) 0 then
    match s.(s_room) with
    | Some k => match room_of h k with
                | Some r => match aget r.(r_sessdata) sid with Some u => u | None => 0 end
                | None => 0 end
    | None => 0
    end
  else s.(s_user).

Fixpoint filter_seen (seen : list N) (l : list (N * N)) : list (N * N) * list N :=
  match l with
  | [] => ([], seen)
  | (sid, u) :: r =>
      if nmem sid seen then filter_seen seen r
      else let '(keep, seen') := filter_seen (seen ++ [sid]) r in ((sid, u) :: keep, seen')
  end.

(* a "message" whose data is {"type":"chat","chat":{"refresh":true}}: the driver sends it as the message with this tag *)
Definition CHAT_REFRESH_TAG := 77.
Definition is_chat_refresh (m : smsg) : bool :=
  match m with SMsg 0 _ _ _ _ t => N.eqb t CHAT_REFRESH_TAG | _ => false end.
(* storePendingMessage: only one chat-refresh notice is kept for a resume (hasPendingChat is set
   when one is queued and cleared when the queue is flushed: it is "the queue holds one") *)
Definition enqueue (q : list smsg) (m : smsg) : list smsg :=
  if is_chat_refresh m && existsb is_chat_refresh q then q else q ++ [m].

(* ClientSession.SendMessage: per-session filters, then the connection or the pending queue.
   Returns the new hub and the outputs; a bye written to a connection is handled by the caller
   (close_after_bye). *)
Definition deliver_to_session (h : hub) (sid : N) (m : smsg) : hub * list out :=
  match get_sess h sid with
  | None => (h, [])
  | Some s =>
      (* virtual sessions forward to their parent; handled by the caller *)
      let '(m', s1) :=
        match m with
        | SJoin l => let '(keep, seen') := filter_seen s.(s_seen) l in
                     (match keep with [] => None | _ => Some (SJoin keep) end, sess_seen s seen')
        | SLeave l => (Some m, sess_seen s (fold_left (fun acc x => nrem x acc) l s.(s_seen)))
        | _ => (Some m, s)
        end in
      match m' with
      | None => (put_sess h sid s1, [])
      | Some mm =>
          match s1.(s_conn) with
          | Some c => (put_sess h sid s1, [ToConn c mm])
          | None => (put_sess h sid (sess_pending s1 (enqueue s1.(s_pending) mm)), [])
          end
      end
  end.

(* ------------------------------------------------------------------ publishing *)
Definition publish (h : hub) (subj : subject) (m : amsg) : hub :=
  set_clock (set_bus h (h.(h_bus) ++ [mkpub subj m h.(h_clock)])) (h.(h_clock) + 1).

(* ------------------------------------------------------------------ room-session map (roomsessions_builtin.go) *)
Definition rs_set (h : hub) (sid rs : N) : hub :=
  if N.eqb rs 0 then
    (* DeleteRoomSession *)
    match aget h.(h_rs1) sid with
    | Some prev => set_rs h (adel h.(h_rs1) sid)
                        (match aget h.(h_rs2) prev with
                         | Some owner => if N.eqb owner sid then adel h.(h_rs2) prev else h.(h_rs2)
                         | None => h.(h_rs2) end)
    | None => h
    end
  else
    match aget h.(h_rs1) sid with
    | Some prev => if N.eqb prev rs then h
                   else set_rs h (aset h.(h_rs1) sid rs) (aset (adel h.(h_rs2) prev) rs sid)
    | None => set_rs h (aset h.(h_rs1) sid rs) (aset h.(h_rs2) rs sid)
    end.
Definition rs_del (h : hub) (sid : N) : hub := rs_set h sid 0.

(* ------------------------------------------------------------------ media objects *)
Definition close_tokens (h : hub) (toks : list N) : hub * list out :=
  let opn := fold_left (fun acc t => nrem t acc) toks h.(h_mcuopen) in
  (set_mcu h h.(h_mcutok) h.(h_mcupending) opn,
   map (fun t => ToMcu (MClose t)) (filter (fun t => nmem t h.(h_mcuopen)) toks)).

(* releaseMcuObjects *)
Definition release_mcu (h : hub) (sid : N) : hub * list out :=
  match get_sess h sid with
  | None => (h, [])
  | Some s =>
      let toks := map snd s.(s_pubs) ++ map snd s.(s_subs) in
      let h1 := put_sess h sid (sess_rel (sess_media s s.(s_incall) s.(s_flags) [] [] []) (s.(s_rel) + 1)) in
      close_tokens h1 toks
  end.

(* ------------------------------------------------------------------ leaving a room *)
Definition remove_room_if_empty (h : hub) (k : N * N) : hub :=
  match room_of h k with
  | Some r => match r.(r_members) with [] => set_rooms h (pdel h.(h_rooms) k) | _ => h end
  | None => h
  end.

(* Room.RemoveSession + PublishSessionLeft *)
Definition room_remove (h : hub) (k : N * N) (sid : N) : hub :=
  match room_of h k with
  | None => h
  | Some r =>
      if nmem sid r.(r_members) then
        let r' := mkroom (nrem sid r.(r_members)) (nrem sid r.(r_incall)) (adel r.(r_sessdata) sid) r.(r_transient) r.(r_props) in
        let h1 := set_rooms h (pset h.(h_rooms) k r') in
        let h2 := remove_room_if_empty h1 k in
        publish h2 (SubjRoom (fst k) (snd k)) (ARoomEvent (SLeave [sid]))
      else h
  end.

(* ClientSession.doLeaveRoom / VirtualSession.LeaveRoom; notify = tell the backend *)
Definition leave_room (h : hub) (sid : N) (notify : bool) : hub * list out :=
  match get_sess h sid with
  | None => (h, [])
  | Some s =>
      match s.(s_room) with
      | None => (h, [])
      | Some k =>
          if is_virtual s.(s_kind) then
            let h1 := rs_del h sid in
            let h2 := put_sess h1 sid (sess_room s None) in
            (room_remove h2 k sid, [])
          else
            let h1 := rs_del h sid in
            let outs1 := if notify && negb (N.eqb s.(s_rs) 0)
                         then [ToBackend (s.(s_backend), 1, 1, snd k, s.(s_rs), 1)] else [] in
            let s1 := upd_sess s None 0 s.(s_conn) s.(s_perms) s.(s_pending) [] 0 in
            let h2 := put_sess h1 sid s1 in
            let '(h3, outs2) := release_mcu h2 sid in
            (room_remove h3 k sid, outs1 ++ outs2)
      end
  end.

(* ------------------------------------------------------------------ closing a session *)
Definition children (h : hub) (sid : N) : list N :=
  map fst (filter (fun e => match get_sess h (fst e) with
                            | Some s => match s.(s_kind) with KVirtual p _ => N.eqb p sid | _ => false end
                            | None => false end) h.(h_sessions)).

(* the tables Hub.removeSession / closeAndWait clean *)
Definition scrub (h : hub) (sid : N) : hub :=
  let h3 := set_sessions h (adel h.(h_sessions) sid) in
  let h4 := set_clients h3 (nrem sid h3.(h_clients)) in
  let h5 := set_expired h4 (nrem sid h4.(h_expired)) in
  let h6 := set_anonymous h5 (nrem sid h5.(h_anonymous)) in
  let h7 := set_dialout h6 (nrem sid h6.(h_dialout)) in
  set_counted h7 (map (fun e => (fst e, nrem sid (snd e))) h7.(h_counted)).

(* the connection keeps running without a session *)
Definition detach_conn (h : hub) (oc : option N) : hub :=
  match oc with
  | Some c => match aget h.(h_conns) c with
              | Some cn => set_conns h (aset h.(h_conns) c (mkconn cn.(c_addr) None cn.(c_expect)))
              | None => h end
  | None => h
  end.

(* a virtual session's table entry goes unless a newer session with the same id replaced it already *)
Definition drop_vt (h : hub) (k : kind) (sid : N) : hub :=
  match k with
  | KVirtual p v => match pget h.(h_vtable) (p, v) with
                    | Some x => if N.eqb x sid then set_vtable h (pdel h.(h_vtable) (p, v)) else h
                    | None => h end
  | _ => h
  end.

(* Hub.removeSession + the rest of closeAndWait for one session (not its children) *)
Definition close_one (h : hub) (sid : N) : hub * list out :=
  match get_sess h sid with
  | None => (h, [])
  | Some s =>
      let room := s.(s_room) in
      let '(h1, outs1) := leave_room h sid true in
      let '(h2a, outs2a) := release_mcu h1 sid in
      (* creations still running at the media server are abandoned (the session's context is cancelled) *)
      let mine := filter (fun e => N.eqb (snd e).(mp_owner) sid) h2a.(h_mcupending) in
      let h2 := set_mcu h2a h2a.(h_mcutok) (filter (fun e => negb (N.eqb (snd e).(mp_owner) sid)) h2a.(h_mcupending)) h2a.(h_mcuopen) in
      let outs2 := outs2a ++ map (fun e => ToMcu (MFailed (fst e))) mine in
      let h10 := drop_vt (detach_conn (scrub h2 sid) s.(s_conn)) s.(s_kind) sid in
      (* the backend is told when a virtual session that was in a room goes *)
      match s.(s_kind) with
      | KVirtual p v =>
          (h10, outs1 ++ outs2 ++ match room with
                                   | Some k => [ToBackend (s.(s_backend), 2, 3, snd k, sid, 1)]
                                   | None => [] end)
      | _ => (h10, outs1 ++ outs2)
      end
  end.

Definition close_session (h : hub) (sid : N) : hub * list out :=
  let kids := children h sid in
  let '(h1, outs1) := close_one h sid in
  fold_left (fun acc k => let '(hh, oo) := acc in let '(hh', oo') := close_one hh k in (hh', oo ++ oo')) kids (h1, outs1).

(* a "bye" (or a disinvite for the current room) written to a connection closes it, and the
   session attached to it at that moment *)
Definition close_conn (h : hub) (c : N) : hub * list out :=
  match aget h.(h_conns) c with
  | None => (h, [])
  | Some cn =>
      let h1 := set_conns h (adel h.(h_conns) c) in
      match cn.(c_sess) with
      | Some sid =>
          (* processUnregister on the closing connection, then session.Close() *)
          let h2 := match get_sess h1 sid with
                    | Some s => put_sess h1 sid (sess_conn s None)
                    | None => h1 end in
          let '(h3, outs) := close_session h2 sid in
          (h3, Closed c :: outs)
      | None => (h1, [Closed c])
      end
  end.

Definition is_closing (h : hub) (c : N) (m : smsg) : bool :=
  match m with
  | SBye _ => true
  | SDisinvite r =>
      match aget h.(h_conns) c with
      | Some cn => match cn.(c_sess) with
                   | Some sid => match get_sess h sid with
                                 | Some s => match s.(s_room) with Some k => N.eqb (snd k) r | None => false end
                                 | None => false end
                   | None => false end
      | None => false end
  | _ => false
  end.

(* send to a session and apply close-after-send *)
Definition send_session (h : hub) (sid : N) (m : smsg) : hub * list out :=
  let target := match get_sess h sid with
                | Some s => match s.(s_kind) with KVirtual p _ => p | _ => sid end
                | None => sid end in
  let '(h1, outs) := deliver_to_session h target m in
  match outs with
  | [ToConn c mm] =>
      if is_closing h1 c mm then let '(h2, outs2) := close_conn h1 c in (h2, outs ++ outs2) else (h1, outs)
  | _ => (h1, outs)
  end.

Definition send_conn (h : hub) (c : N) (m : smsg) : hub * list out :=
  match aget h.(h_conns) c with
  | None => (h, [])
  | Some _ =>
      if is_closing h c m then let '(h2, outs2) := close_conn h c in (h2, ToConn c m :: outs2)
      else (h, [ToConn c m])
  end.

(* ------------------------------------------------------------------ throttle (all attempts of a case lie within minutes) *)
Definition fail_count (h : hub) (addr action : N) : N :=
  match pget h.(h_fail) (addr, action) with Some n => n | None => 0 end.
Definition throttled (h : hub) (addr action : N) : bool := 10 <=? fail_count h addr action.
Definition record_failure (h : hub) (addr action : N) : hub :=
  set_fail h (pset h.(h_fail) (addr, action) (fail_count h addr action + 1)).
Definition ACT_RESUME := 0. Definition ACT_INTERNAL := 1.

(* ------------------------------------------------------------------ hello *)
Definition limit_of (h : hub) (b : N) : N := match aget h.(h_limits) b with Some l => l | None => 0 end.
Definition counted_of (h : hub) (b : N) : list N := match aget h.(h_counted) b with Some l => l | None => [] end.

Definition new_session (b : N) (k : kind) (u : N) (c : N) : session :=
  mksess b k u None 0 (Some c) None [] [] 0
         (match k with KInternal false _ => 3 | _ => 0 end) 0 [] [] [] 0.

(* the next session id: the counter of ids handed out so far, incremented (never an id in use) *)
Definition max_key {V} (l : alist V) : N := fold_left (fun acc e => N.max acc (fst e)) l 0.
Definition next_id (h : hub) : N := N.max h.(h_nextsid) (max_key h.(h_sessions)) + 1.

(* processRegister after successful authentication *)
Definition register (h : hub) (c : N) (cn : conn) (b : N) (k : kind) (u : N) : hub * list out :=
  let sid := next_id h in
  let h0 := set_nextsid h sid in
  let limited := negb (is_internal k) && negb (N.eqb (limit_of h b) 0) in
  if limited && negb (match counted_of h b with [] => true | _ => false end)
     && (limit_of h b <=? N.of_nat (length (counted_of h b))) then
    (set_conns h0 (aset h0.(h_conns) c (mkconn cn.(c_addr) None true)), [ToConn c (SError E_session_limit)])
  else
    let h1 := if limited then set_counted h0 (aset h0.(h_counted) b (counted_of h0 b ++ [sid])) else h0 in
    let h2 := put_sess h1 sid (new_session b k u c) in
    let h3 := set_clients h2 (nadd sid h2.(h_clients)) in
    let h4 := set_conns h3 (aset h3.(h_conns) c (mkconn cn.(c_addr) (Some sid) false)) in
    let h5 := if N.eqb u 0 && negb (is_internal k) then set_anonymous h4 (nadd sid h4.(h_anonymous))
              else match k with KInternal _ true => set_dialout h4 (nadd sid h4.(h_dialout)) | _ => h4 end in
    (h5, [ToConn c (SHello sid u)]).

Definition flush (c : N) (l : list smsg) : list out := map (ToConn c) l.
(* does the queue of a session hold a message that closes the connection it is written to
   (is_closing, for the connection the session is about to be attached to) *)
(* the part of the queue a resume gets to write: everything up to and including the first message that
   closes the connection (after the close frame nothing else can be written) *)
Fixpoint upto_closing (room : option (N * N)) (l : list smsg) : list smsg :=
  match l with
  | [] => []
  | m :: r =>
      if match m with
         | SBye _ => true
         | SDisinvite x => match room with Some k => N.eqb (snd k) x | None => false end
         | _ => false end
      then [m] else m :: upto_closing room r
  end.
Definition queue_closes (s : session) : bool :=
  existsb (fun m => match m with
                    | SBye _ => true
                    | SDisinvite r => match s.(s_room) with Some k => N.eqb (snd k) r | None => false end
                    | _ => false end) s.(s_pending).

(* ---- protocol 2.0 tokens (processHelloV2) ----
   Signing methods by index; which of them the parser is told to accept comes from the source
   (gen/Params.v hub_valid_methods = the list given to jwt.WithValidMethods). *)
Definition v2_alg_names : list string :=
  ["RS256"; "RS384"; "RS512"; "ES256"; "ES384"; "ES512"; "EdDSA"; "HS256"; "none"]%string.
Definition v2_alg_valid (a : N) : bool :=
  match nth_error v2_alg_names (N.to_nat a) with
  | Some n => existsb (String.eqb n) hub_valid_methods
  | None => false
  end.
(* key family a method needs (the type switch of the key function): 0 RSA, 1 ECDSA, 2 Ed25519, 3 none of them *)
Definition v2_alg_family (a : N) : N := if a <? 3 then 0 else if a <? 6 then 1 else if N.eqb a 6 then 2 else 3.
(* the family of the key backend b publishes in its capabilities (the driver's convention) *)
Definition v2_key_family (b : N) : N := b mod 3.
Definition v2_leeway : Z := (hub_tokenLeeway / 1000000000)%Z.

(* 0 = the token is accepted for backend b; otherwise the error code of the reply *)
Definition v2_check (nb b : N) (t : v2tok) : N :=
  if nb <=? b then E_invalid_backend
  else if negb (v2_alg_valid t.(t_alg)) then E_invalid_token
  else if 3 <=? v2_alg_family t.(t_alg) then E_invalid_token
  else if negb (N.eqb (v2_alg_family t.(t_alg)) (v2_key_family b)) then E_invalid_token
  else if negb (N.eqb t.(t_signer) (b + 1)) then E_invalid_token
  else
    (* the library's claim validation: all failures are collected, the hub looks at their kinds *)
    let exp_bad := match t.(t_exp) with Some e => negb (0 <? e + v2_leeway)%Z | None => false end in
    let nbf_bad := match t.(t_nbf) with Some n => (0 <? n - v2_leeway)%Z | None => false end in
    let iat_bad := match t.(t_iat) with Some i => (0 <? i - v2_leeway)%Z | None => false end in
    if nbf_bad || iat_bad then E_token_not_valid_yet
    else if exp_bad then E_token_expired
    else
      (* the hub's own rules *)
      match t.(t_iat), t.(t_exp) with
      | Some i, Some e => if (e <? i)%Z then E_token_expired
                          else if (e <? 0 - v2_leeway)%Z then E_token_expired else 0
      | None, _ => E_token_not_valid_yet
      | Some _, None => E_token_expired
      end.

Definition do_hello (h : hub) (c : N) (cn : conn) (hl : hello) : hub * list out :=
  let expect_again hh := set_conns hh (aset hh.(h_conns) c (mkconn cn.(c_addr) None true)) in
  match hl with
  | HResume i =>
      if throttled h cn.(c_addr) ACT_RESUME then (h, [ToConn c (SError E_too_many_requests)])
      else
        match i with
        | IdPriv n =>
            match get_sess h n with
            | Some s =>
                if is_virtual s.(s_kind) then (h, [ToConn c (SError E_no_such_session)])
                else
                  (* takeover: the previous connection loses the session and is told to go *)
                  let '(h1, outs1) :=
                    match s.(s_conn) with
                    | Some c' =>
                        if N.eqb c' c then (h, [])
                        else
                          let hh := match aget h.(h_conns) c' with
                                    | Some cn' => set_conns h (aset h.(h_conns) c' (mkconn cn'.(c_addr) None cn'.(c_expect)))
                                    | None => h end in
                          send_conn hh c' (SBye B_session_resumed)
                    | None => (h, [])
                    end in
                  let s1 := sess_pending (sess_conn s (Some c)) [] in
                  let h2 := put_sess h1 n s1 in
                  let h3 := set_expired h2 (nrem n h2.(h_expired)) in
                  let h4 := set_clients h3 (nadd n h3.(h_clients)) in
                  let h5 := set_conns h4 (aset h4.(h_conns) c (mkconn cn.(c_addr) (Some n) false)) in
                  let res := (h5, outs1 ++ ToConn c (SHello n (sess_userid h n s)) :: flush c (upto_closing s.(s_room) s.(s_pending))) in
                  (* a queued bye, or a queued disinvite from the room the session is in, closes the connection
                     (and with it the session) once it is written, like any other time it is sent *)
                  if queue_closes s then
                    let '(h6, outs6) := close_conn h5 c in (h6, snd res ++ outs6)
                  else res
            | None => (h, [ToConn c (SError E_no_such_session)])
            end
        | _ => (record_failure h cn.(c_addr) ACT_RESUME, [ToConn c (SError E_no_such_session)])
        end
  | HV1 b u reject =>
      if h.(h_nb) <=? b then (expect_again h, [ToConn c (SError E_invalid_backend)])
      else if reject then (expect_again h, [ToBackend (b, 0, 0, 0, 0, 1); ToConn c (SError E_invalid_user)])
      else let '(h1, outs) := register h c cn b KClient u in (h1, ToBackend (b, 0, 0, 0, 0, 1) :: outs)
  | HV2 b u t =>
      match v2_check h.(h_nb) b t with
      | 0 => register h c cn b KClient u
      | e => (expect_again h, [ToConn c (SError e)])
      end
  | HInternal b tok incallfeat dialout =>
      (* tok = 4: the server has no internal secret configured (the driver's marker): internal clients are refused *)
      if N.eqb tok 4 then (expect_again h, [ToConn c (SError E_invalid_client_type)])
      else if throttled h cn.(c_addr) ACT_INTERNAL then (expect_again h, [ToConn c (SError E_too_many_requests)])
      else if negb (N.eqb tok 0) then
        (expect_again (record_failure h cn.(c_addr) ACT_INTERNAL), [ToConn c (SError E_invalid_token)])
      else if h.(h_nb) <=? b then
        (expect_again (record_failure h cn.(c_addr) ACT_INTERNAL), [ToConn c (SError E_invalid_backend)])
      else register h c cn b (KInternal incallfeat dialout) 0
  end.

(* ------------------------------------------------------------------ joining *)
Definition empty_room : room := mkroom [] [] [] [] 0.

(* disconnectByRoomSessionId *)
Definition kick_room_session (h : hub) (rs : N) : hub * list out :=
  match aget h.(h_rs2) rs with
  | None => (h, [])
  | Some sid' =>
      match get_sess h sid' with
      | None => (publish h (SubjSession sid') AKick, [])
      | Some s' =>
          let '(h1, outs1) := leave_room h sid' false in
          let '(h2, outs2) :=
            match s'.(s_kind), s'.(s_conn) with
            | KVirtual _ _, _ => (h1, [])
            | _, Some c' => send_conn h1 c' (SBye B_room_session_reconnected)
            | _, None => (h1, [])
            end in
          let '(h3, outs3) := close_session h2 sid' in
          (h3, outs1 ++ outs2 ++ outs3)
      end
  end.

(* processJoinRoom *)
Definition join_room (h : hub) (c sid : N) (k : N * N) (rs : N) (perms : option N) (sessuser : N) : hub * list out :=
  let '(h1, outs1) := leave_room h sid true in
  match get_sess h1 sid with
  | None => (h1, outs1)
  | Some s =>
      (* the model adds the session to the member list first and then records room, room session id and
         sends the reply; the code does it in the opposite order, nothing observes the difference *)
      let r := match room_of h1 k with Some x => x | None => empty_room end in
      let already := nmem sid r.(r_members) in
      let r' := mkroom (nadd sid r.(r_members)) r.(r_incall)
                       (if N.eqb sessuser 0 then r.(r_sessdata) else aset r.(r_sessdata) sid sessuser) r.(r_transient) r.(r_props) in
      let s1 := upd_sess s (Some k) rs s.(s_conn) (match perms with Some p => Some p | None => s.(s_perms) end)
                         s.(s_pending) [] h1.(h_clock) in
      let h2 := set_clock (put_sess (set_rooms h1 (pset h1.(h_rooms) k r')) sid s1) (h1.(h_clock) + 1) in
      let h3 := if N.eqb rs 0 then h2 else rs_set h2 sid rs in
      let h4 := set_anonymous h3 (nrem sid h3.(h_anonymous)) in
      let h5 := match s.(s_kind) with KInternal _ true => set_dialout h4 (nrem sid h4.(h_dialout)) | _ => h4 end in
      let '(h7, outs2) := send_session h5 sid (SRoom (snd k)) in
      match room_of h7 k with
      | None => (h7, outs1 ++ outs2)
      | Some _ =>
          let h8 := h7 in
          let uid := if N.eqb s.(s_user) 0 then sessuser else s.(s_user) in
          let h9 := if already then h8 else publish h8 (SubjRoom (fst k) (snd k)) (ARoomEvent (SJoin [(sid, uid)])) in
          let '(h10, outs3) := if already then (h9, [])
                               else match r.(r_transient) with
                                    | [] => (h9, [])
                                    | d => send_session h9 sid (STransient (TInit d)) end in
          let h11 := publish h10 (SubjBackendRoom (fst k) (snd k)) (ASessionJoined sid (is_internal s.(s_kind))) in
          (h11, outs1 ++ outs2 ++ outs3)
      end
  end.

Definition do_join (h : hub) (c sid : N) (s : session) (rn rs : N) (rep : roomreply) : hub * list out :=
  if N.eqb rn 0 then
    match s.(s_room) with
    | None => (h, [])
    | Some _ =>
        let '(h1, outs1) := leave_room h sid true in
        let '(h2, outs2) := send_session h1 sid (SRoom 0) in
        let h3 := if N.eqb s.(s_user) 0 && negb (is_internal s.(s_kind)) then set_anonymous h2 (nadd sid h2.(h_anonymous)) else h2 in
        (h3, outs1 ++ outs2)
    end
  else
    let k := (s.(s_backend), rn) in
    let rsv := if N.eqb rs 0 then 0 else 1000000 + rs in
    let in_room := match room_of h k with Some r => nmem sid r.(r_members) | None => false end in
    if in_room then
      (* UpdateRoomSessionId (own public id when none was sent), then the error *)
      let newrs := if N.eqb rs 0 then 2000000 + sid else rsv in
      let h1 := if N.eqb s.(s_rs) newrs then h else put_sess (rs_set h sid newrs) sid (sess_rs s newrs) in
      let '(h2, outs) := send_session h1 sid (SError E_already_joined) in (h2, outs)
    else if is_internal s.(s_kind) then join_room h c sid k rsv None 0
    else
      let req := ToBackend (s.(s_backend), 1, 0, rn, (if N.eqb rs 0 then 2000000 + sid else rsv), 1) in
      (* the other holder of the Nextcloud session id is disconnected as soon as the backend
         answered, whatever it answered (the reply type is only looked at afterwards) *)
      let '(h1, outs1) := if N.eqb rs 0 || N.eqb s.(s_rs) rsv then (h, []) else kick_room_session h rsv in
      match get_sess h1 sid with
      | None => (h1, req :: outs1)            (* cannot happen: the holder of rsv is another session *)
      | Some _ =>
          match rep with
          | RepErr code => let '(h2, outs) := send_session h1 sid (SError code) in (h2, req :: outs1 ++ outs)
          | RepOk perms su => let '(h2, outs2) := join_room h1 c sid k rsv perms su in (h2, req :: outs1 ++ outs2)   (* revocation: see step *)
          end
      end.

(* ------------------------------------------------------------------ messages *)
Definition stype_of (to : recipient) : N := match to with RSession _ => 0 | RUser _ => 1 | RRoom => 2 | RCall => 3 end.

(* check_backend = the same-backend test of the message path *)
Definition do_message (h : hub) (sid : N) (s : session) (kindn : N) (to : recipient) (tag : N) (check_backend : bool) : hub * list out :=
  let uid := sess_userid h sid s in
  let mk r := SMsg kindn (stype_of to) sid uid r tag in
  match to with
  | RSession i =>
      match i with
      | IdPub n =>
          match get_sess h n with
          | Some t =>
              if check_backend && negb (N.eqb t.(s_backend) s.(s_backend)) then (h, [])
              else if N.eqb n sid then (h, [])
              else match t.(s_kind) with
                   | KVirtual p v => send_session h p (mk (Some (RcptVirtual v)))
                   | _ => send_session h n (mk None)
                   end
          | None => (publish h SubjNobody (AEvent (mk (Some RcptOther)) sid false), [])
          end
      | _ => (publish h SubjNobody (AEvent (mk (Some RcptOther)) sid false), [])
      end
  | RUser u =>
      if N.eqb u 0 then (h, [])   (* rejected by validation before it gets here *)
      else if N.eqb u uid then (h, [])
      else (publish h (SubjUser s.(s_backend) u) (AEvent (mk None) sid false), [])
  | RRoom | RCall =>
      match s.(s_room) with
      | Some k => (publish h (SubjRoom (fst k) (snd k)) (AEvent (mk None) sid (match to with RCall => true | _ => false end)), [])
      | None => (h, [])
      end
  end.

(* ------------------------------------------------------------------ delivery of one publication *)
Definition room_listeners (h : hub) (k : N * N) : list N :=
  map fst (filter (fun e => negb (is_virtual (snd e).(s_kind)) && opt_pair_eqb (snd e).(s_room) (Some k)) h.(h_sessions)).
Definition user_listeners (h : hub) (b u : N) : list N :=
  map fst (filter (fun e => negb (is_virtual (snd e).(s_kind)) && N.eqb (snd e).(s_backend) b && N.eqb (snd e).(s_user) u) h.(h_sessions)).

Definition in_call (h : hub) (sid : N) (s : session) : bool :=
  match s.(s_room) with
  | Some k => match room_of h k with Some r => nmem sid r.(r_incall) | None => false end
  | None => false
  end.

(* processAsyncMessage of a client session for an event / message *)
Definition recv_event (h : hub) (sid : N) (m : smsg) (sender : N) (callonly roomevent : bool) (t : N) : hub * list out :=
  match get_sess h sid with
  | None => (h, [])
  | Some s =>
      if N.eqb sender sid && negb (N.eqb sender 0) then (h, [])
      else if callonly && negb (in_call h sid s) then (h, [])
      else if roomevent && (match s.(s_room) with None => true | Some _ => t <? s.(s_join) end) then (h, [])
      else send_session h sid m
  end.

Definition fold_sessions (h : hub) (l : list N) (f : hub -> N -> hub * list out) : hub * list out :=
  fold_left (fun acc x => let '(hh, oo) := acc in let '(hh', oo') := f hh x in (hh', oo ++ oo')) l (h, []).

(* revocation after a permissions update: close publishers the session may no longer have *)
Definition revoke (h : hub) (sid : N) : hub * list out :=
  match get_sess h sid with
  | None => (h, [])
  | Some s =>
      let p := s.(s_perms) in
      let media_of tok := match aget s.(s_pubmedia) tok with Some m => m | None => 0 end in
      let bad (e : N * N) : bool :=
        let '(stream, tok) := e in
        if N.eqb stream 2 then negb (has_perm p P_SCREEN)
        else negb (has_perm p P_MEDIA) &&
             ((N.testbit (media_of tok) 0 && negb (has_perm p P_AUDIO)) ||
              (N.testbit (media_of tok) 1 && negb (has_perm p P_VIDEO))) in
      let toks := map snd (filter bad s.(s_pubs)) in
      let pubs := filter (fun e => negb (bad e)) s.(s_pubs) in
      let h1 := put_sess h sid (sess_media s s.(s_incall) s.(s_flags) pubs s.(s_subs) s.(s_pubmedia)) in
      close_tokens h1 toks
  end.

Definition resolve_rs (h : hub) (i : idref) : option N :=
  match i with
  | IdRS n => aget h.(h_rs2) (1000000 + n)
  (* a session that joined without a Nextcloud session id is in the map under its own public id *)
  | IdPub n => aget h.(h_rs2) (2000000 + n)
  | _ => None
  end.

(* LeaveCall *)
Definition leave_call (h : hub) (sid : N) : hub * list out :=
  match get_sess h sid with
  | Some s => match s.(s_kind), s.(s_room) with
              | KVirtual _ _, _ => (h, [])
              | _, Some _ => release_mcu h sid
              | _, None => (h, []) end
  | None => (h, [])
  end.

Definition set_incall (h : hub) (k : N * N) (sid : N) (on : bool) : hub :=
  match room_of h k with
  | Some r =>
      (* only members of the room can be in its call *)
      if on && negb (nmem sid r.(r_members)) then h
      else set_rooms h (pset h.(h_rooms) k (mkroom r.(r_members) (if on then nadd sid r.(r_incall) else nrem sid r.(r_incall)) r.(r_sessdata) r.(r_transient) r.(r_props)))
  | None => h
  end.

(* a member of a room that is being deleted leaves it (with notification); connected ones are told *)
Definition delete_member (hh : hub) (m : N) : hub * list out :=
  match get_sess hh m with
  | None => (hh, [])
  | Some s =>
      let '(h2, outs1) := leave_room hh m true in
      if is_virtual s.(s_kind) then (h2, outs1)
      else
        (* connected or not: a disconnected session finds the notice in its queue when it resumes *)
        let '(h3, outs2) := send_session h2 m (SRoom 0) in (h3, outs1 ++ outs2)
  end.

(* ---- the room's transient data (room.go Set/RemoveTransientData -> transient_data.go) ----
   Listeners of a room's data are the client sessions (ordinary and internal, not virtual) that are in the room:
   Room.AddSession registers them, Room.RemoveSession removes them.  Every listener is notified, the session that
   made the request included.  No time-to-live here (see Transient.v). *)
Definition transient_listeners (h : hub) (r : room) : list N :=
  filter (fun m => match get_sess h m with
                   | Some t => negb (is_virtual t.(s_kind)) | None => false end) r.(r_members).
Definition room_set_transient (r : room) (d : alist N) : room :=
  mkroom r.(r_members) r.(r_incall) r.(r_sessdata) d r.(r_props).
Definition transient_notify (h : hub) (k : N * N) (r : room) (d : alist N) (m : tmsg) : hub * list out :=
  fold_sessions (set_rooms h (pset h.(h_rooms) k (room_set_transient r d))) (transient_listeners h r)
                (fun hh x => send_session hh x (STransient m)).
(* TransientData.SetTTL (a nil value removes) / Remove: nothing happens, and nothing is sent, when the key already
   has the value / is absent *)
Definition transient_update (h : hub) (k : N * N) (r : room) (del : bool) (key val : N) : hub * list out :=
  let old := aget r.(r_transient) key in
  if del || N.eqb val 0 then
    match old with
    | Some _ => transient_notify h k r (adel r.(r_transient) key) (TRemove key old)
    | None => (h, [])
    end
  else
    match old with
    | Some v => if N.eqb v val then (h, [])
                else transient_notify h k r (aset r.(r_transient) key val) (TSet key val old)
    | None => transient_notify h k r (aset r.(r_transient) key val) (TSet key val old)
    end.

(* the room's handling of a request coming from the room API *)
Definition room_request (h : hub) (k : N * N) (q : apireq) : hub * list out :=
  match room_of h k with
  | None => (h, [])
  | Some r =>
      match q with
      | ADelete =>
          (* Room.Close: the room goes, every member leaves it (with notification), connected ones are told *)
          let members := r.(r_members) in
          let internals := filter (fun m => match get_sess h m with Some s => is_internal s.(s_kind) | None => false end) members in
          let '(h0, outs0) := fold_sessions h internals (fun hh m => send_session hh m SRoomDeleted) in
          let h1 := set_rooms h0 (pdel h0.(h_rooms) k) in
          let '(h9, outs9) := fold_sessions h1 members delete_member in
          (h9, outs0 ++ outs9)
      | AUpdate tag =>
          if N.eqb r.(r_props) (tag + 1) then (h, [])
          else (publish (set_rooms h (pset h.(h_rooms) k (mkroom r.(r_members) r.(r_incall) r.(r_sessdata) r.(r_transient) (tag + 1))))
                        (SubjRoom (fst k) (snd k)) (AEvent (SRoom (snd k)) 0 false), [])
      | AParticipants l => (publish h (SubjRoom (fst k) (snd k)) (AEvent (SPart 0) 0 false), [])
      | AInCall l =>
          let '(h1, outs) :=
            fold_left (fun acc u =>
               let '(hh, oo) := acc in
               let '(i, ic, _) := u in
               match i with
               | IdPub sid =>
                   match get_sess hh sid with
                   | Some _ =>
                       if N.testbit ic 0 then (set_incall hh k sid true, oo)
                       else let '(h2, o2) := leave_call (set_incall hh k sid false) sid in (h2, oo ++ o2)
                   | None => (hh, oo)
                   end
               | _ => (hh, oo)
               end) l (h, []) in
          (publish h1 (SubjRoom (fst k) (snd k)) (AEvent (SPart 0) 0 false), outs)
      | AInCallAll ic =>
          if N.testbit ic 0 then
            let joiners := filter (fun m => match get_sess h m with
                                            | Some s => match s.(s_kind) with KClient => true | _ => false end
                                            | None => false end) r.(r_members) in
            let fresh := filter (fun m => negb (nmem m r.(r_incall))) joiners in
            match fresh with
            | [] => (h, [])
            | _ =>
                let h1 := fold_left (fun hh m => set_incall hh k m true) fresh h in
                fold_sessions h1 joiners (fun hh m => send_session hh m (SPart 1))
            end
          else
            match r.(r_incall) with
            | [] => (h, [])
            | _ =>
                let notify := filter (fun m => match get_sess h m with
                                               | Some s => negb (is_virtual s.(s_kind)) | None => false end) r.(r_members) in
                let leavers := r.(r_incall) in
                let h1 := set_rooms h (pset h.(h_rooms) k (mkroom r.(r_members) [] r.(r_sessdata) r.(r_transient) r.(r_props))) in
                let '(h2, outs1) := fold_sessions h1 leavers leave_call in
                let '(h3, outs2) := fold_sessions h2 notify (fun hh m => send_session hh m (SPart 1)) in
                (h3, outs1 ++ outs2)
            end
      | AMessage tag => (publish h (SubjRoom (fst k) (snd k)) (AEvent (SRoomMsg tag) 0 false), [])
      | ADisinvite _ _ => (h, [])
      | ADialout _ => (h, [])
      | ATransient del key val => transient_update h k r del key val
      end
  end.

Definition deliver_pub (h : hub) (p : pub) : hub * list out :=
  match p.(p_subj), p.(p_msg) with
  | SubjRoom b r, AEvent m sender callonly =>
      fold_sessions h (room_listeners h (b, r)) (fun hh x => recv_event hh x m sender callonly false p.(p_time))
  | SubjRoom b r, ARoomEvent m =>
      fold_sessions h (room_listeners h (b, r)) (fun hh x => recv_event hh x m 0 false true p.(p_time))
  | SubjUser b u, AEvent m sender callonly =>
      fold_sessions h (user_listeners h b u) (fun hh x => recv_event hh x m sender callonly false p.(p_time))
  | SubjSession sid, AEvent m sender callonly =>
      match get_sess h sid with
      | Some s => if is_virtual s.(s_kind) then (h, []) else recv_event h sid m sender callonly false p.(p_time)
      | None => (h, [])
      end
  | SubjSession sid, ARoomEvent m =>
      match get_sess h sid with
      | Some s => if is_virtual s.(s_kind) then (h, []) else recv_event h sid m 0 false true p.(p_time)
      | None => (h, [])
      end
  | SubjSession sid, APermissions pm =>
      match get_sess h sid with
      | Some s => if is_virtual s.(s_kind) then (h, [])
                  else revoke (put_sess h sid (sess_perms s (Some pm))) sid
      | None => (h, [])
      end
  | SubjSession sid, AKick =>
      match get_sess h sid with
      | Some s => if is_virtual s.(s_kind) then (h, [])
                  else let '(h1, o1) := leave_room h sid false in
                       let '(h2, o2) := send_session h1 sid (SBye B_room_session_reconnected) in
                       let '(h3, o3) := close_session h2 sid in (h3, o1 ++ o2 ++ o3)
      | None => (h, [])
      end
  | SubjBackendRoom b r, ASessionJoined sid internal =>
      match room_of h (b, r) with
      | None => (h, [])
      | Some rm =>
          let others := filter (fun m => negb (N.eqb m sid)) rm.(r_members) in
          match others with
          | [] => (h, [])
          | _ =>
              let entries := map (fun m => (m, match get_sess h m with Some s => sess_userid h m s | None => 0 end)) others in
              let h1 := publish h (SubjSession sid) (ARoomEvent (SJoin entries)) in
              (* initial flags of virtual sessions *)
              let h2 := fold_left (fun hh m => match get_sess hh m with
                                               | Some s => if is_virtual s.(s_kind) && negb (N.eqb s.(s_flags) 0)
                                                           then publish hh (SubjSession sid) (AEvent (SFlags m s.(s_flags)) 0 false) else hh
                                               | None => hh end) others h1 in
              (h2, [])
          end
      end
  | SubjBackendRoom b r, ARoomReq q => room_request h (b, r) q
  | _, _ => (h, [])
  end.

Fixpoint take_nth {A} (n : nat) (l : list A) : option (A * list A) :=
  match n, l with
  | _, [] => None
  | O, x :: r => Some (x, r)
  | S n', x :: r => match take_nth n' r with Some (y, r') => Some (y, x :: r') | None => None end
  end.

Definition deliver_at (h : hub) (pos : nat) : hub * list out :=
  match take_nth pos h.(h_bus) with
  | Some (p, rest) => deliver_pub (set_bus h rest) p
  | None => (h, [])
  end.

(* ------------------------------------------------------------------ room API (authenticated request) *)
(* Hub.GetDialoutSession: a session of the dial-out list (internal clients that announced "start-dialout"
   and are in no room) that belongs to THE REQUEST'S BACKEND and has a connection.  The server walks a Go
   map, so with several such sessions of one backend the choice is not determined; the model takes the
   first in list order, and the generators keep at most one connected dial-out client per backend. *)
Definition dialout_ok (h : hub) (b sid : N) : bool :=
  match get_sess h sid with
  | Some s => N.eqb s.(s_backend) b && match s.(s_conn) with Some _ => true | None => false end
  | None => false
  end.
Definition dialout_session (h : hub) (b : N) : option N := find (dialout_ok h b) h.(h_dialout).

Definition do_api (h : hub) (b room : N) (q : apireq) : hub * list out :=
  let k := (b, room) in
  match q with
  | ADisinvite users rsessions =>
      let h1 := fold_left (fun hh u => publish hh (SubjUser b u) (AEvent (SDisinvite room) 0 false)) users h in
      let h2 := fold_left (fun hh rs => match aget hh.(h_rs2) (1000000 + rs) with
                                        | Some sid => publish hh (SubjSession sid) (AEvent (SDisinvite room) 0 false)
                                        | None => hh end) rsessions h1 in
      (h2, [])
  | ADelete => (publish h (SubjBackendRoom b room) (ARoomReq ADelete), [])
  | AUpdate tag => (publish h (SubjBackendRoom b room) (ARoomReq q), [])
  | AMessage tag => (publish h (SubjBackendRoom b room) (ARoomReq q), [])
  | AInCallAll _ => (publish h (SubjBackendRoom b room) (ARoomReq q), [])
  | ATransient _ _ _ => (publish h (SubjBackendRoom b room) (ARoomReq q), [])
  | AInCall l =>
      let l' := flat_map (fun u => let '(i, ic, p) := u in match resolve_rs h i with Some sid => [(IdPub sid, ic, p)] | None => [] end) l in
      match l' with [] => (h, []) | _ => (publish h (SubjBackendRoom b room) (ARoomReq (AInCall l')), []) end
  | AParticipants l =>
      let l' := flat_map (fun u => let '(i, ic, p) := u in match resolve_rs h i with Some sid => [(IdPub sid, ic, p)] | None => [] end) l in
      match l' with
      | [] => (h, [])
      | _ =>
          let h1 := fold_left (fun hh u => let '(i, _, p) := u in
                                           match i, p with
                                           | IdPub sid, Some pm => publish hh (SubjSession sid) (APermissions pm)
                                           | _, _ => hh end) l' h in
          (publish h1 (SubjBackendRoom b room) (ARoomReq (AParticipants l')), [])
      end
  | ADialout ok =>
      (* BackendServer.startDialout: refused before anybody is asked when the number or the room id is
         malformed; 404 when the backend has no dial-out client; otherwise the request is written to that
         client and the call waits for its answer.  The driver's dial-out clients accept at once; their
         answer ("status: accepted", naming no room) is then handled like any dial-out status: published as
         a transient-data request on the backend-room subject of the room it names - none, nobody listens *)
      if negb ok then (h, [])
      else match dialout_session h b with
           | None => (h, [])
           | Some sid =>
               let '(h1, outs) := send_session h sid (SDialout room) in
               (publish h1 SubjNobody (ARoomReq (ADialout true)), outs)
           end
  end.

(* ------------------------------------------------------------------ housekeeping *)
(* the three timeouts of the housekeeping, in seconds, as the source states them (gen/Params.v) *)
Definition hub_expire_s : N := Z.to_N (hub_sessionExpireDuration / 1000000000).
Definition hub_anonymous_s : N := Z.to_N (hub_anonymousJoinRoomTimeout / 1000000000).
Definition hub_hello_s : N := Z.to_N (hub_initialHelloTimeout / 1000000000).

Definition do_tick (h : hub) (secs : N) : hub * list out :=
  let '(h1, o1) := if hub_expire_s <? secs then fold_sessions h h.(h_expired) close_session else (h, []) in
  let '(h2, o2) := if hub_anonymous_s <? secs then
                     fold_sessions h1 h1.(h_anonymous) (fun hh sid =>
                       match get_sess hh sid with
                       | Some s =>
                           let '(h3, o3) := match s.(s_conn) with
                                            | Some c => send_conn hh c (SBye B_room_join_timeout)
                                            | None => (hh, []) end in
                           let '(h4, o4) := close_session h3 sid in (h4, o3 ++ o4)
                       | None => (hh, [])
                       end)
                   else (h1, []) in
  let '(h3, o3) := if hub_hello_s <? secs then
                     fold_sessions h2 (map fst (filter (fun e => (snd e).(c_expect)) h2.(h_conns)))
                                   (fun hh c => send_conn hh c (SBye B_hello_timeout))
                   else (h2, []) in
  (h3, o1 ++ o2 ++ o3).

(* ------------------------------------------------------------------ virtual sessions *)
Definition do_internal (h : hub) (c sid : N) (s : session) (q : internalreq) : hub * list out :=
  match q with
  | IAdd v rn user flags incall =>
      let k := (s.(s_backend), rn) in
      match room_of h k with
      | None => (h, [])
      | Some r =>
          let vs := next_id h in
          let h0 := set_nextsid h vs in
          let prev := pget h0.(h_vtable) (sid, v) in
          let incallfeat := match s.(s_kind) with KInternal f _ => f | _ => false end in
          let ic := match incall with Some x => x | None => if incallfeat then 0 else 9 end in   (* FlagInCall | FlagWithPhone *)
          let fl := match flags with Some x => x | None => 0 end in
          (* SetRoom: room session = own public id; the new session becomes a member of the room *)
          let vsess := mksess s.(s_backend) (KVirtual sid v) user (Some k) (2000000 + vs) None None [] [] 0 ic fl [] [] [] 0 in
          let r' := mkroom (nadd vs r.(r_members)) r.(r_incall) r.(r_sessdata) r.(r_transient) r.(r_props) in
          let h1 := put_sess (set_rooms h0 (pset h0.(h_rooms) k r')) vs vsess in
          let h2 := set_vtable h1 (pset h1.(h_vtable) (sid, v) vs) in
          let h5 := rs_set h2 vs (2000000 + vs) in
          let h6 := publish h5 (SubjRoom (fst k) (snd k)) (ARoomEvent (SJoin [(vs, user)])) in
          let h7 := publish h6 (SubjRoom (fst k) (snd k)) (AEvent (SPart 0) 0 false) in
          let h8 := if N.eqb fl 0 then h7 else publish h7 (SubjRoom (fst k) (snd k)) (AEvent (SFlags vs fl) 0 false) in
          let h9 := publish h8 (SubjBackendRoom (fst k) (snd k)) (ASessionJoined vs false) in
          (* a virtual session with the same id is replaced: the previous one is closed once the new one joined *)
          let '(h10, outs10) := match prev with Some pv => close_one h9 pv | None => (h9, []) end in
          (h10, ToBackend (s.(s_backend), 2, 2, rn, vs, 1) :: outs10)
      end
  | IUpdate v rn flags incall =>
      let k := (s.(s_backend), rn) in
      match room_of h k, pget h.(h_vtable) (sid, v) with
      | Some r, Some vs =>
          match get_sess h vs with
          | Some t =>
              let fl := match flags with Some x => x | None => t.(s_flags) end in
              let ic := match incall with Some x => x | None => t.(s_incall) end in
              let fchanged := negb (N.eqb fl t.(s_flags)) in
              let ichanged := negb (N.eqb ic t.(s_incall)) in
              let h1 := put_sess h vs (sess_media t ic fl t.(s_pubs) t.(s_subs) t.(s_pubmedia)) in
              let h2 := if fchanged then publish h1 (SubjRoom (fst k) (snd k)) (AEvent (SFlags vs fl) 0 false) else h1 in
              let h3 := if ichanged then
                          publish (set_incall h2 k vs (N.testbit ic 0)) (SubjRoom (fst k) (snd k)) (AEvent (SPart 0) 0 false)
                        else h2 in
              (h3, [])
          | None => (h, [])
          end
      | _, _ => (h, [])
      end
  | IRemove v rn =>
      let k := (s.(s_backend), rn) in
      match room_of h k, pget h.(h_vtable) (sid, v) with
      | Some _, Some vs =>
          let h1 := set_vtable h (pdel h.(h_vtable) (sid, v)) in
          close_one h1 vs
      | _, _ => (h, [])
      end
  | IInCall ic =>
      if N.eqb ic s.(s_incall) then (h, [])
      else
        let h1 := put_sess h sid (sess_media s ic s.(s_flags) s.(s_pubs) s.(s_subs) s.(s_pubmedia)) in
        match s.(s_room) with
        | Some k =>
            if N.testbit ic 0 then (publish (set_incall h1 k sid true) (SubjRoom (fst k) (snd k)) (AEvent (SPart 0) 0 false), [])
            else let '(h2, o2) := leave_call (set_incall h1 k sid false) sid in
                 (publish h2 (SubjRoom (fst k) (snd k)) (AEvent (SPart 0) 0 false), o2)
        | None => (h1, [])
        end
  end.


(* ------------------------------------------------------------------ media (clientsession.go, hub.go processMcuMessage) *)
(* media bits of an offer: 1 audio, 2 video; MediaTypeScreen = 4 *)
Definition offer_allowed (p : option N) (stream media : N) : bool :=
  if N.eqb stream 2 then has_perm p P_SCREEN
  else (negb (N.testbit media 0) || has_perm p P_MEDIA || has_perm p P_AUDIO) &&
       (negb (N.testbit media 1) || has_perm p P_MEDIA || has_perm p P_VIDEO).

(* IsAllowedToSend for candidates and the like *)
Definition send_allowed (p : option N) (stream : N) : bool :=
  if N.eqb stream 2 then has_perm p P_SCREEN
  else has_perm p P_MEDIA || has_perm p P_AUDIO || has_perm p P_VIDEO.

Definition same_call (h : hub) (sid : N) (s : session) (n : N) : bool :=
  if is_internal s.(s_kind) then true
  else
    match s.(s_room) with
    | None => false
    | Some k =>
        in_call h sid s &&
        match get_sess h n with
        | None => false
        | Some t => opt_pair_eqb t.(s_room) (Some k) && (is_internal t.(s_kind) || in_call h n t)
        end
    end.

Definition sub_get (s : session) (pubof stream : N) : option N := pget s.(s_subs) (pubof, stream).

(* the continuation of GetOrCreatePublisher / GetOrCreateSubscriber once the media server answered *)
Definition finish_create (h : hub) (tok : N) (p : mcupend) (ok : bool) : hub * list out :=
  if negb ok then
    let '(h1, o1) := send_session h p.(mp_errto) (SError E_client_not_found) in (h1, ToMcu (MFailed tok) :: o1)
  else
    match get_sess h p.(mp_owner) with
    | None => (* the session was closed: its context is cancelled, the creation fails *)
        (h, [ToMcu (MFailed tok)])
    | Some s =>
        if negb (N.eqb s.(s_rel) p.(mp_rel)) then
          (* released in the meantime: the new object is closed again *)
          let '(h1, o1) := send_session h p.(mp_errto) (SError E_client_not_found) in
          (h1, ToMcu (MCreated tok) :: ToMcu (MClose tok) :: o1)
        else if N.eqb p.(mp_kind) 0 && negb (offer_allowed s.(s_perms) p.(mp_stream) (N.land p.(mp_media) 3)) then
          (* the permission was withdrawn while the publisher was created *)
          let '(h1, o1) := send_session h p.(mp_errto) (SError E_not_allowed) in
          (h1, ToMcu (MCreated tok) :: ToMcu (MClose tok) :: o1)
        else if N.eqb p.(mp_kind) 0 then
          match aget s.(s_pubs) p.(mp_stream) with
          | Some _ => (* somebody else created it while we waited: the new one is closed *)
              let '(h1, o1) := if N.eqb p.(mp_reply) 1 then send_session h p.(mp_owner) (SMedia 1 p.(mp_owner)) else (h, []) in
              (h1, ToMcu (MCreated tok) :: ToMcu (MClose tok) :: o1)
          | None =>
              let s1 := sess_media s s.(s_incall) s.(s_flags) (aset s.(s_pubs) p.(mp_stream) tok) s.(s_subs) (aset s.(s_pubmedia) tok p.(mp_media)) in
              let h1 := put_sess h p.(mp_owner) s1 in
              let h2 := set_mcu h1 h1.(h_mcutok) h1.(h_mcupending) (h1.(h_mcuopen) ++ [tok]) in
              let '(h3, o3) := if N.eqb p.(mp_reply) 1 then send_session h2 p.(mp_owner) (SMedia 1 p.(mp_owner)) else (h2, []) in
              (h3, ToMcu (MCreated tok) :: o3)
          end
        else
          match sub_get s p.(mp_pubof) p.(mp_stream) with
          | Some _ =>
              let '(h1, o1) := if N.eqb p.(mp_reply) 2 then send_session h p.(mp_owner) (SMedia 2 p.(mp_pubof)) else (h, []) in
              (h1, ToMcu (MCreated tok) :: ToMcu (MClose tok) :: o1)
          | None =>
              let s1 := sess_media s s.(s_incall) s.(s_flags) s.(s_pubs) (pset s.(s_subs) (p.(mp_pubof), p.(mp_stream)) tok) s.(s_pubmedia) in
              let h1 := put_sess h p.(mp_owner) s1 in
              let h2 := set_mcu h1 h1.(h_mcutok) h1.(h_mcupending) (h1.(h_mcuopen) ++ [tok]) in
              let '(h3, o3) := if N.eqb p.(mp_reply) 2 then send_session h2 p.(mp_owner) (SMedia 2 p.(mp_pubof)) else (h2, []) in
              (h3, ToMcu (MCreated tok) :: o3)
          end
    end.

Definition start_create (h : hub) (p : mcupend) : hub * list out :=
  let tok := h.(h_mcutok) + 1 in
  let ev := ToMcu (MCreate p.(mp_kind) tok p.(mp_owner) p.(mp_stream) p.(mp_pubof)) in
  if h.(h_gated) then
    (set_mcu h tok (h.(h_mcupending) ++ [(tok, p)]) h.(h_mcuopen), [ev])
  else
    let '(h1, o1) := finish_create (set_mcu h tok h.(h_mcupending) h.(h_mcuopen)) tok p true in (h1, ev :: o1).

Definition do_mcudone (h : hub) (tok : N) (ok : bool) : hub * list out :=
  match aget h.(h_mcupending) tok with
  | None => (h, [])
  | Some p => finish_create (set_mcu h h.(h_mcutok) (adel h.(h_mcupending) tok) h.(h_mcuopen)) tok p ok
  end.

(* the m-lines of an offer as the driver writes them: bit 0 audio, bit 1 video, bit 2 application, and
   bits 3 / 4 an audio / video section with port 0 ("bundle-only": the track is sent all the same) *)
Definition eff_media (m : N) : N := N.lor (N.land m 3) (N.land (N.shiftr m 3) 3).

(* the message kinds that take the path of a candidate through processMcuMessage (its default branch):
   2 candidate, 4 answer, 7 endOfCandidates; the fake media server answers none of them *)
Definition is_cand (mk : N) : bool := N.eqb mk 2 || N.eqb mk 4 || N.eqb mk 7.

(* "sendoffer" (kind 3, hub.go processMessageMsg): the sender asks the hub to make the RECIPIENT subscribe to the
   sender's stream.  The recipient is resolved as for any message (a session of another backend and the sender
   itself: dropped; a virtual session: the client session it belongs to); then the sender's permission for the
   stream type is checked (IsAllowedToSend: not_allowed); then the recipient's session gets (or already has) a
   subscriber for (sender, stream), to which the message is handed: the media server answers with an offer, which
   goes to the recipient as coming from the sender.  A failing creation is reported to the sender
   (client_not_found).  There is no same-call test on this path.  A recipient that is no session of this server:
   after the gate the request is published for "session.<id>", which nobody listens to (the driver discards that
   publication at once, the model has none).  The parent of a virtual session is never virtual (the test is there
   for the proofs only). *)
Definition do_sendoffer (h : hub) (c sid : N) (s : session) (i : idref) (stream : N) : hub * list out :=
  match i with
  | IdPub n =>
      match get_sess h n with
      | Some t =>
          if negb (N.eqb t.(s_backend) s.(s_backend)) then (h, [])
          else if N.eqb n sid then (h, [])
          else if negb (send_allowed s.(s_perms) stream) then (h, [ToConn c (SError E_not_allowed)])
          else
            let r := match t.(s_kind) with KVirtual p _ => p | _ => n end in
            match get_sess h r with
            | None => (h, [])
            | Some rs =>
                if is_virtual rs.(s_kind) then (h, [])
                else match sub_get rs sid stream with
                     | Some _ => send_session h r (SMedia 2 sid)
                     | None => start_create h (mkpend 1 r stream sid 0 rs.(s_rel) 2 sid)
                     end
            end
      | None => if negb (send_allowed s.(s_perms) stream) then (h, [ToConn c (SError E_not_allowed)]) else (h, [])
      end
  | _ => if negb (send_allowed s.(s_perms) stream) then (h, [ToConn c (SError E_not_allowed)]) else (h, [])
  end.

Definition do_media (h : hub) (c sid : N) (s : session) (to : recipient) (mk stream media0 : N) : hub * list out :=
  let media := eff_media media0 in
  match to with
  | RSession i =>
      (* the session the message names; 0 when the string is not the id of a live session *)
      let n := match i with IdPub x => x | _ => 0 end in
      let is_self := match i with IdPub x => N.eqb x sid | _ => false end in
      if N.eqb mk 0 then
        (* offer: create or update the publisher of the stream (the recipient is not looked at) *)
        if negb (offer_allowed s.(s_perms) stream media) then (h, [ToConn c (SError E_not_allowed)])
        else
          let mt := if N.eqb stream 2 then 4 else N.land media 3 in
          match aget s.(s_pubs) stream with
          | Some tok =>
              let s1 := sess_media s s.(s_incall) s.(s_flags) s.(s_pubs) s.(s_subs) (aset s.(s_pubmedia) tok mt) in
              send_session (put_sess h sid s1) sid (SMedia 1 sid)
          | None => start_create h (mkpend 0 sid stream 0 mt s.(s_rel) 1 sid)
          end
      else if N.eqb mk 1 then
        (* requestoffer *)
        if is_self then (h, [])
        else if negb (same_call h sid s n) then (h, [ToConn c (SError E_not_allowed)])
        else match sub_get s n stream with
             | Some _ => send_session h sid (SMedia 2 n)
             | None => start_create h (mkpend 1 sid stream n 0 s.(s_rel) 2 sid)
             end
      else if is_cand mk then
        (* candidate, answer, endOfCandidates *)
        if is_self then
          if negb (send_allowed s.(s_perms) stream) then (h, [ToConn c (SError E_not_allowed)])
          else match aget s.(s_pubs) stream with
               | Some _ => (h, [])
               | None => (h, [ToConn c (SError E_client_not_found)])
               end
        else match sub_get s n stream with
             | Some _ => (h, [])
             | None => (h, [ToConn c (SError E_client_not_found)])
             end
      else if N.eqb mk 3 then do_sendoffer h c sid s i stream
      else (h, [])
  | _ => (h, [])
  end.

(* ------------------------------------------------------------------ one step *)
Definition with_session (h : hub) (c : N) (f : conn -> N -> session -> hub * list out) : hub * list out :=
  match aget h.(h_conns) c with
  | None => (h, [])
  | Some cn =>
      match cn.(c_sess) with
      | None => (h, [ToConn c (SError E_hello_expected)])
      | Some sid => match get_sess h sid with
                    | Some s => f cn sid s
                    | None => (h, [ToConn c (SError E_hello_expected)])
                    end
      end
  end.

Definition allowed_control (s : session) : bool := is_internal s.(s_kind) || sess_has_perm s P_CONTROL.
Definition allowed_transient (s : session) : bool := is_internal s.(s_kind) || sess_has_perm s P_TRANSIENT.

Definition step (h : hub) (o : op) : hub * list out :=
  match o with
  | OConnect c addr =>
      match aget h.(h_conns) c with
      | Some _ => (h, [])
      | None => (set_conns h (aset h.(h_conns) c (mkconn addr None true)), [ToConn c SWelcome])
      end
  | OHello c hl =>
      match aget h.(h_conns) c with
      | None => (h, [])
      | Some cn => match cn.(c_sess) with
                   | Some _ => (h, [])            (* hello on an authenticated connection is ignored *)
                   | None => do_hello (set_conns h (aset h.(h_conns) c (mkconn cn.(c_addr) None (match hl with HResume _ => cn.(c_expect) | _ => false end)))) c cn hl
                   end
      end
  | OJoin c rn rs rep =>
      with_session h c (fun cn sid s =>
        let '(h1, o1) := do_join h c sid s rn rs rep in
        (* permissions of the join response: publishers created before are checked against them *)
        match rep, get_sess h1 sid with
        | RepOk (Some _) _, Some s1 =>
            if negb (N.eqb rn 0) && negb (is_internal s.(s_kind)) && opt_pair_eqb s1.(s_room) (Some (s.(s_backend), rn))
               && negb (opt_pair_eqb s.(s_room) (Some (s.(s_backend), rn)))
            then let '(h2, o2) := revoke h1 sid in (h2, o1 ++ o2) else (h1, o1)
        | _, _ => (h1, o1)
        end)
  | OMsg c to tag => with_session h c (fun cn sid s => do_message h sid s 0 to tag true)
  | OCtl c to tag => with_session h c (fun cn sid s => if allowed_control s then do_message h sid s 1 to tag true else (h, []))
  | OBye c =>
      match aget h.(h_conns) c with
      | None => (h, [])
      | Some cn => match cn.(c_sess) with
                   | None => (h, [ToConn c (SError E_hello_expected)])
                   | Some _ => send_conn h c (SBye 0)
                   end
      end
  | ODrop c =>
      match aget h.(h_conns) c with
      | None => (h, [])
      | Some cn =>
          let h1 := set_conns h (adel h.(h_conns) c) in
          match cn.(c_sess) with
          | Some sid =>
              match get_sess h1 sid with
              | Some s => let h2 := put_sess h1 sid (sess_conn s None) in
                          let h3 := set_clients h2 (nrem sid h2.(h_clients)) in
                          (set_expired h3 (nadd sid h3.(h_expired)), [Closed c])
              | None => (h1, [Closed c])
              end
          | None => (h1, [Closed c])
          end
      end
  | OTick secs => do_tick h secs
  | OApi b signas room q =>
      if negb (N.eqb b signas) || (h.(h_nb) <=? b) then (h, []) else do_api h b room q
  | OInternal c q => with_session h c (fun cn sid s => if is_internal s.(s_kind) then do_internal h c sid s q else (h, []))
  | OMedia c to mk stream media => with_session h c (fun cn sid s => do_media h c sid s to mk stream media)
  | OMcuDone tok ok => do_mcudone h tok ok
  | OTransient c kindn key val =>
      (* hub.go processTransientMsg: kindn 0 = "set" (val = 0: without value, which removes), 1 = "remove",
         anything else = a type the server does not know *)
      with_session h c (fun cn sid s =>
        match s.(s_room) with
        | None => (h, [ToConn c (SError E_not_in_room)])
        | Some k =>
            if 2 <=? kindn then (h, [ToConn c (SError E_ignored)])
            else if negb (allowed_transient s) then (h, [ToConn c (SError E_not_allowed)])
            else match room_of h k with
                 | None => (h, [])
                 | Some r => transient_update h k r (N.eqb kindn 1) key val
                 end
        end)
  | ODeliver pos => deliver_at h (N.to_nat pos)
  | OHelloAborted c hl late =>
      match aget h.(h_conns) c with
      | None => (h, [])
      | Some cn =>
          match cn.(c_sess) with
          | Some _ => (h, [])
          | None =>
              match hl with
              | HResume _ =>
                  (* "client disconnected while checking message": nothing is attached, nothing changes *)
                  close_conn h c
              | HV1 b u false =>
                  if h.(h_nb) <=? b then (h, [])
                  else
                    (* the backend was asked; the answer finds the connection closed. late: a session id was
                       used up and the slot taken in the backend's list is given back when the session is closed *)
                    let h1 := if late then set_nextsid h (next_id h) else h in
                    let '(h2, outs) := close_conn h1 c in (h2, ToBackend (b, 0, 0, 0, 0, 1) :: outs)
              | _ => (h, [])     (* not generated: the driver sends these as a hello followed by a drop *)
              end
          end
      end
  end.

(* quiescent semantics: the step, then every queued publication in publication order *)
Fixpoint drain (fuel : nat) (h : hub) : hub * list out :=
  match fuel with
  | O => (h, [])
  | S f => match h.(h_bus) with
           | [] => (h, [])
           | _ => let '(h1, o1) := deliver_at h 0 in
                  let '(h2, o2) := drain f h1 in (h2, o1 ++ o2)
           end
  end.

Definition qstep (h : hub) (o : op) : hub * list out :=
  let '(h1, o1) := step h o in
  let '(h2, o2) := drain 500 h1 in (h2, o1 ++ o2).
