(* Executable model of backend_configuration.go, backend_storage_static.go and
   backend_storage_etcd.go (backend tables, start, reload, etcd events, lookup).
   No proofs here.

   The model follows the REPAIRED code (fixes/C13/01..07).  The unrepaired
   behaviour is kept next to it (upsert_slices, the flags of reload_with,
   etcd_put_with and find_entry_with) for the `_refuted` theorems and so that the correspondence
   run can tell which of the two the implementation under test is. *)
From Coq Require Import List ZArith NArith Bool String Ascii.
Import ListNotations.
Open Scope string_scope.

(* ---- what net/url reports about a string ---------------------------------
   Oracle: url.Parse is run, not modelled.  The cases files instantiate it with
   the finite table the real library computed for the strings of the case. *)
Record purl := mkPurl {
  p_scheme : string;    (* u.Scheme *)
  p_host : string;      (* u.Host *)
  p_hostname : string;  (* u.Hostname() *)
  p_port : string;      (* u.Port() *)
  p_str : string;       (* u.String() *)
  p_nstr : string       (* u.String() after u.Host = u.Hostname() *)
}.

(* hasStandardPort and the normalisation applied to configured and looked-up URLs:
     if strings.Contains(u.Host, ":") && hasStandardPort(u) { u.Host = u.Hostname() } *)
Fixpoint contains_colon (s : string) : bool :=
  match s with
  | EmptyString => false
  | String c r => Ascii.eqb c ":" || contains_colon r
  end.
Definition has_standard_port (p : purl) : bool :=
  if p_scheme p =? "http" then p_port p =? "80"
  else if p_scheme p =? "https" then p_port p =? "443"
  else false.
Definition normalised (p : purl) : bool := contains_colon (p_host p) && has_standard_port p.
Definition n_host (p : purl) : string := if normalised p then p_hostname p else p_host p.
Definition n_str (p : purl) : string := if normalised p then p_nstr p else p_str p.

(* ---- backends and the table host -> backends ------------------------------ *)
Record backend := mkB {
  b_id : N;          (* configured id ("compat" = 0) / etcd key *)
  b_url : string;
  b_http : bool;     (* allowHttp *)
  b_secret : N;      (* 0 = empty *)
  b_limit : Z;       (* sessionLimit *)
  b_stream : Z;      (* maxStreamBitrate *)
  b_screen : Z;      (* maxScreenBitrate *)
  b_compat : bool
}.

(* reflect.DeepEqual on two freshly built *Backend (no sessions yet) *)
Definition backend_eqb (a b : backend) : bool :=
  N.eqb (b_id a) (b_id b) && String.eqb (b_url a) (b_url b) && Bool.eqb (b_http a) (b_http b) &&
  N.eqb (b_secret a) (b_secret b) && Z.eqb (b_limit a) (b_limit b) && Z.eqb (b_stream a) (b_stream b) &&
  Z.eqb (b_screen a) (b_screen b) && Bool.eqb (b_compat a) (b_compat b).

(* Go map[string][]*Backend *)
Definition table := string -> option (list backend).
Definition tempty : table := fun _ => None.
Definition tset (t : table) (h : string) (v : list backend) : table :=
  fun h' => if String.eqb h h' then Some v else t h'.
Definition tdel (t : table) (h : string) : table :=
  fun h' => if String.eqb h h' then None else t h'.
Definition tget_d (t : table) (h : string) : list backend :=
  match t h with Some l => l | None => [] end.

(* ---- lookup ---------------------------------------------------------------- *)
Inductive lres := LPanic | LRes (o : option backend).

Definition is_url_allowed (b : backend) (sch : string) : bool :=
  if sch =? "https" then true else if sch =? "http" then b_http b else false.

Fixpoint ends_with_slash (s : string) : bool :=
  match s with
  | EmptyString => false
  | String c EmptyString => Ascii.eqb c "/"
  | String _ r => ends_with_slash r
  end.
Definition add_slash (u : string) : string := if ends_with_slash u then u else String.append u "/".

(* The test of one entry in getBackendLocked (fixes/C13/07):
     strings.HasPrefix(url, entry.url) &&
       (entry.url[len(entry.url)-1] == '/' || url[len(entry.url)] == '/')
   `eu` is entry.url (not empty: the branch before returned), `url` the looked-up
   URL after `if url[len(url)-1] != '/' { url += "/" }`.  The second index is in
   range whenever it is evaluated: url has the prefix eu, ends in "/" and eu does
   not, so url is longer than eu (proofs/BackendCfg_proofs.v, boundary_index_in_range).
   boundary_fix = false: the test as it was, strings.HasPrefix(url, entry.url) alone. *)
Definition is_slash (o : option ascii) : bool :=
  match o with Some c => Ascii.eqb c "/" | None => false end.
Definition url_matches (boundary_fix : bool) (eu url : string) : bool :=
  String.prefix eu url &&
  (negb boundary_fix || ends_with_slash eu || is_slash (String.get (String.length eu) url)).

Fixpoint find_entry_with (boundary_fix : bool) (entries : list backend) (sch url : string) : option backend :=
  match entries with
  | [] => None
  | e :: r =>
      if negb (is_url_allowed e sch) then find_entry_with boundary_fix r sch url
      else if b_url e =? "" then Some e
      else if url_matches boundary_fix (b_url e) url then Some e
      else find_entry_with boundary_fix r sch url
  end.
Definition find_entry : list backend -> string -> string -> option backend := find_entry_with true.
Definition find_entry_unrepaired : list backend -> string -> string -> option backend := find_entry_with false.

(* getBackendLocked: host map, then `url[len(url)-1]` (index out of range on an
   empty string), then the first allowed entry that has no url (old-style) or whose
   url is a prefix of the looked-up URL ending at a path-segment boundary *)
Definition get_backend_locked_with (boundary_fix : bool) (t : table) (host sch ustr : string) : lres :=
  match t host with
  | None => LRes None
  | Some entries =>
      if ustr =? "" then LPanic else LRes (find_entry_with boundary_fix entries sch (add_slash ustr))
  end.
Definition get_backend_locked : table -> string -> string -> string -> lres := get_backend_locked_with true.

(* ---- static storage --------------------------------------------------------- *)
Record section := mkSec {
  s_url : string;            (* "" = option missing *)
  s_secret : N;
  s_limit : option Z;        (* None = missing or not a number *)
  s_stream : option Z;
  s_screen : option Z
}.

Record config := mkCfg {
  c_allowall : bool;
  c_allowhttp : bool;
  c_secret : N;               (* [backend] secret *)
  c_limit : option Z;         (* [backend] sessionlimit *)
  c_allowed : list string;    (* host names of the deprecated [backend] allowed option *)
  c_ids : list N;             (* comma separated tokens of [backend] backends, 0 = empty token *)
  c_secs : list (N * section) (* the sections named by ids *)
}.

Definition nonneg (o : option Z) : Z :=
  match o with Some z => if (z <? 0)%Z then 0%Z else z | None => 0%Z end.

(* getConfiguredBackendIDs *)
Fixpoint dedupe_ids (seen : list N) (toks : list N) : list N :=
  match toks with
  | [] => []
  | t :: r => if N.eqb t 0 then dedupe_ids seen r
              else if existsb (N.eqb t) seen then dedupe_ids seen r
              else t :: dedupe_ids (t :: seen) r
  end.
(* backendIds == "" *)
Definition ids_raw_empty (toks : list N) : bool :=
  match toks with [] => true | [t] => N.eqb t 0 | _ => false end.

Fixpoint sec_get (id : N) (l : list (N * section)) : option section :=
  match l with
  | [] => None
  | (i, s) :: r => if N.eqb i id then Some s else sec_get id r
  end.

Section WithUrlParse.
Context (url_parse : string -> option purl).

(* one iteration of the loop in getConfiguredHosts *)
Definition mk_backend (common : N) (id : N) (s : section) : option (string * backend) :=
  if s_url s =? "" then None else
  let u := add_slash (s_url s) in
  match url_parse u with
  | None => None
  | Some p =>
      let u' := if normalised p then p_nstr p else u in
      let secret := if N.eqb (s_secret s) 0 && negb (N.eqb common 0) then common else s_secret s in
      if (u' =? "") || N.eqb secret 0 then None
      else Some (n_host p,
                 mkB id u' (p_scheme p =? "http") secret
                     (nonneg (s_limit s)) (nonneg (s_stream s)) (nonneg (s_screen s)) false)
  end.

(* getConfiguredHosts: the hosts (in order of first appearance) and host -> backends *)
Definition configured_step (c : config) (acc : list string * table) (id : N) : list string * table :=
  match sec_get id (c_secs c) with
  | None => acc
  | Some s =>
      match mk_backend (c_secret c) id s with
      | None => acc
      | Some (h, b) =>
          ((if existsb (String.eqb h) (fst acc) then fst acc else (fst acc ++ [h])%list),
           tset (snd acc) h (tget_d (snd acc) h ++ [b])%list)
      end
  end.
Definition configured (c : config) : list string * table :=
  fold_left (configured_step c) (dedupe_ids [] (c_ids c)) ([], tempty).

Record sstate := mkS { st_allowall : bool; st_compat : option backend; st_tab : table }.

Definition compat_backend (c : config) : backend :=
  mkB 0 "" (c_allowhttp c) (c_secret c) (nonneg (c_limit c)) 0 0 true.

(* NewBackendStorageStatic *)
Definition fresh (c : config) : sstate :=
  if c_allowall c then mkS true (Some (compat_backend c)) tempty
  else if negb (ids_raw_empty (c_ids c)) then mkS false None (snd (configured c))
  else match c_allowed c with
       | [] => mkS false None tempty
       | hs => mkS false (Some (compat_backend c))
                   (fold_left (fun t h => tset t h [compat_backend c]) hs tempty)
       end.

(* backendStorageStatic.GetBackend *)
Definition get_backend_static_with (boundary_fix : bool) (st : sstate) (host sch ustr : string) : lres :=
  match st_tab st host with
  | None => if st_allowall st then LRes (st_compat st) else LRes None
  | Some _ => get_backend_locked_with boundary_fix (st_tab st) host sch ustr
  end.
Definition get_backend_static : sstate -> string -> string -> string -> lres := get_backend_static_with true.

(* BackendConfiguration.IsUrlAllowed / GetBackend / GetSecret for the URL that
   url.Parse makes of the string (a string that does not parse is refused) *)
Definition lookup_static_with (boundary_fix : bool) (st : sstate) (probe : string) : lres :=
  match url_parse probe with
  | None => LRes None
  | Some p => get_backend_static_with boundary_fix st (n_host p) (p_scheme p) (n_str p)
  end.
Definition lookup_static : sstate -> string -> lres := lookup_static_with true.
(* the lookup as it was before fixes/C13/07 *)
Definition lookup_static_unrepaired : sstate -> string -> lres := lookup_static_with false.

(* UpsertHost, repaired: the new list in configured order; an unchanged backend
   keeps its existing object *)
Definition find_by_id (id : N) (l : list backend) : option backend :=
  find (fun e => N.eqb (b_id e) id) l.
Definition upsert_fixed (existing news : list backend) : option (list backend) :=
  Some (map (fun n => match find_by_id (b_id n) existing with
                      | None => n
                      | Some o => if backend_eqb o n then o else n
                      end) news).

(* UpsertHost as it was, with Go's slice semantics: the range expression
   s.backends[host] is evaluated once (n0 iterations, elements read from the
   original backing array `arr`), `cur` is the live length of s.backends[host],
   removals shift the shared array in place; s.backends[host][i] with i >= cur
   and the slice expression [i+1:] with i+1 > cur panic. *)
Fixpoint remove_at {A} (i : nat) (l : list A) : list A :=
  match l, i with [], _ => [] | _ :: r, O => r | a :: r, S j => a :: remove_at j r end.
Fixpoint set_at {A} (i : nat) (x : A) (l : list A) : list A :=
  match l, i with [], _ => [] | _ :: r, O => x :: r | a :: r, S j => a :: set_at j x r end.
Fixpoint scan (ex : backend) (news : list backend) (idx : nat) : option (option backend * nat) :=
  match news with
  | [] => None
  | n :: r => if backend_eqb ex n then Some (None, idx)
              else if N.eqb (b_id n) (b_id ex) then Some (Some n, idx)
              else scan ex r (S idx)
  end.
Fixpoint upsert_outer (fuel i : nat) (arr : list backend) (cur : nat) (news : list backend)
  : option (list backend * list backend) :=
  match fuel with
  | O => Some (firstn cur arr, news)
  | S f =>
      match nth_error arr i with
      | None => Some (firstn cur arr, news)
      | Some ex =>
          match scan ex news 0 with
          | Some (None, idx) => upsert_outer f (S i) arr cur (remove_at idx news)
          | Some (Some n, idx) =>
              if (i <? cur)%nat then upsert_outer f (S i) (set_at i n arr) cur (remove_at idx news)
              else None
          | None =>
              if (i <? cur)%nat then
                let arr' := (firstn i arr ++ skipn (S i) (firstn cur arr) ++ skipn (cur - 1) arr)%list in
                upsert_outer f (S i) arr' (cur - 1) news
              else None
          end
      end
  end.
Definition upsert_slices (existing news : list backend) : option (list backend) :=
  match upsert_outer (List.length existing) 0 existing (List.length existing) news with
  | None => None
  | Some (l, rest) => Some (l ++ rest)%list
  end.

(* backendStorageStatic.Reload; None = the process panicked.
   empty_list_fix = false: the guard `if backendIds != ""` of the unrepaired code *)
Definition upsert_hosts (upsert : list backend -> list backend -> option (list backend))
    (ct : table) (acc : option table) (h : string) : option table :=
  match acc with
  | None => None
  | Some t => match upsert (tget_d t h) (tget_d ct h) with
              | None => None
              | Some l => Some (tset t h l)
              end
  end.
Definition reload_with (upsert : list backend -> list backend -> option (list backend))
    (empty_list_fix : bool) (st : sstate) (c : config) : option sstate :=
  match st_compat st with
  | Some _ => Some st                      (* "Old-style configuration active, reload is not supported" *)
  | None =>
      if ids_raw_empty (c_ids c) && negb empty_list_fix then Some st else
      let hs := fst (configured c) in
      let ct := snd (configured c) in
      (* RemoveBackendsForHost for every host that is no longer configured *)
      let t1 : table := fun h => if existsb (String.eqb h) hs then st_tab st h else None in
      match fold_left (upsert_hosts upsert ct) hs (Some t1) with
      | None => None
      | Some t => Some (mkS (st_allowall st) None t)
      end
  end.

Definition reload : sstate -> config -> option sstate := reload_with upsert_fixed true.
Definition reload_unrepaired : sstate -> config -> option sstate := reload_with upsert_slices false.

Definition reload_opt (rl : sstate -> config -> option sstate) (acc : option sstate) (c : config) : option sstate :=
  match acc with None => None | Some st => rl st c end.
(* start with c0, then reload with each of cs *)
Definition run_chain (c0 : config) (cs : list config) : option sstate :=
  fold_left (reload_opt reload) cs (Some (fresh c0)).
Definition run_chain_unrepaired (c0 : config) (cs : list config) : option sstate :=
  fold_left (reload_opt reload_unrepaired) cs (Some (fresh c0)).

(* ---- etcd storage ------------------------------------------------------------ *)
Record einfo := mkE {
  e_url : string; e_secret : N; e_stream : Z; e_screen : Z; e_limit : Z
}.
Inductive eop :=
| EPut (k : N) (v : option einfo)     (* None: the value is not a JSON object of the expected shape *)
| EDel (k : N).

(* keyInfos: key -> host of the last accepted value *)
Definition keymap := N -> option string.
Definition kset (m : keymap) (k : N) (h : string) : keymap := fun k' => if N.eqb k k' then Some h else m k'.
Definition kdel (m : keymap) (k : N) : keymap := fun k' => if N.eqb k k' then None else m k'.

Record estate := mkES { es_keys : keymap; es_tab : table }.
Definition einit : estate := mkES (fun _ => None) tempty.

(* BackendInformationEtcd.CheckValid + the Backend built from it: (host, backend) *)
Definition check_valid (k : N) (v : einfo) : option (string * backend) :=
  if e_url v =? "" then None
  else if N.eqb (e_secret v) 0 then None
  else match url_parse (e_url v) with
       | None => None
       | Some p =>
           let u := if normalised p then p_nstr p else e_url v in
           Some (n_host p, mkB k u (p_scheme p =? "http") (e_secret v) (e_limit v) (e_stream v) (e_screen v) false)
       end.

(* removeBackendLocked *)
Definition remove_backend (t : table) (k : N) (host : string) : table :=
  match t host with
  | None => t
  | Some entries =>
      match filter (fun e => negb (N.eqb (b_id e) k)) entries with
      | [] => tdel t host
      | l => tset t host l
      end
  end.

Fixpoint replace_first (k : N) (b : backend) (l : list backend) : list backend :=
  match l with
  | [] => []
  | e :: r => if N.eqb (b_id e) k then b :: r else e :: replace_first k b r
  end.
(* sort.Search(len, entries[i].id > key) + slices.Insert *)
Fixpoint insert_sorted (b : backend) (l : list backend) : list backend :=
  match l with
  | [] => [b]
  | e :: r => if (b_id b <? b_id e)%N then b :: e :: r else e :: insert_sorted b r
  end.

(* EtcdKeyDeleted *)
Definition etcd_del (st : estate) (k : N) : estate :=
  match es_keys st k with
  | None => st
  | Some host => mkES (kdel (es_keys st) k) (remove_backend (es_tab st) k host)
  end.

(* EtcdKeyUpdated.  The three flags are the three repairs:
   host_fix    remove the key's backend from the host of its previous value
   invalid_fix an invalid value removes the backend of the key
   sort_fix    a new backend is inserted sorted by key instead of appended *)
Definition etcd_put_with (host_fix invalid_fix sort_fix : bool) (st : estate) (k : N) (v : option einfo) : estate :=
  match match v with None => None | Some i => check_valid k i end with
  | None => if invalid_fix then etcd_del st k else st
  | Some (host, b) =>
      let t0 := match es_keys st k with
                | Some h0 => if host_fix && negb (h0 =? host) then remove_backend (es_tab st) k h0 else es_tab st
                | None => es_tab st
                end in
      let keys := kset (es_keys st) k host in
      match t0 host with
      | None => mkES keys (tset t0 host [b])
      | Some entries =>
          if existsb (fun e => N.eqb (b_id e) k) entries
          then mkES keys (tset t0 host (replace_first k b entries))
          else mkES keys (tset t0 host (if sort_fix then insert_sorted b entries else (entries ++ [b])%list))
      end
  end.

Definition etcd_step_with (f1 f2 f3 : bool) (st : estate) (o : eop) : estate :=
  match o with
  | EPut k v => etcd_put_with f1 f2 f3 st k v
  | EDel k => etcd_del st k
  end.
Definition etcd_step : estate -> eop -> estate := etcd_step_with true true true.
Definition etcd_step_unrepaired : estate -> eop -> estate := etcd_step_with false false false.
Definition run_etcd (evs : list eop) : estate := fold_left etcd_step evs einit.
Definition run_etcd_unrepaired (evs : list eop) : estate := fold_left etcd_step_unrepaired evs einit.

(* what etcd holds after the events: key -> last value, sorted by key *)
Fixpoint kv_set (k : N) (v : option einfo) (kv : list (N * option einfo)) : list (N * option einfo) :=
  match kv with
  | [] => [(k, v)]
  | (k', v') :: r => if (k <? k')%N then (k, v) :: kv
                     else if N.eqb k k' then (k, v) :: r
                     else (k', v') :: kv_set k v r
  end.
Definition kv_del (k : N) (kv : list (N * option einfo)) : list (N * option einfo) :=
  filter (fun e => negb (N.eqb (fst e) k)) kv.
Definition final_kv (evs : list eop) : list (N * option einfo) :=
  fold_left (fun kv o => match o with EPut k v => kv_set k v kv | EDel k => kv_del k kv end) evs [].
(* a fresh start: EtcdKeyUpdated for every key of the initial Get (sorted by key) *)
Definition fresh_etcd (kv : list (N * option einfo)) : estate :=
  run_etcd (map (fun e => EPut (fst e) (snd e)) kv).

Definition fresh_etcd_unrepaired (kv : list (N * option einfo)) : estate :=
  run_etcd_unrepaired (map (fun e => EPut (fst e) (snd e)) kv).

(* backendStorageEtcd.GetBackend through BackendConfiguration *)
Definition lookup_etcd_with (boundary_fix : bool) (st : estate) (probe : string) : lres :=
  match url_parse probe with
  | None => LRes None
  | Some p => get_backend_locked_with boundary_fix (es_tab st) (n_host p) (p_scheme p) (n_str p)
  end.
Definition lookup_etcd : estate -> string -> lres := lookup_etcd_with true.
Definition lookup_etcd_unrepaired : estate -> string -> lres := lookup_etcd_with false.

End WithUrlParse.

(* what a lookup tells the caller: id, secret, limit, bitrates (and the compat flag) *)
Definition proj (b : backend) : N * N * Z * Z * Z * bool :=
  (b_id b, b_secret b, b_limit b, b_stream b, b_screen b, b_compat b).
Inductive answer := APanic | ANone | ASome (p : N * N * Z * Z * Z * bool).
Definition answer_of (r : lres) : answer :=
  match r with LPanic => APanic | LRes None => ANone | LRes (Some b) => ASome (proj b) end.
