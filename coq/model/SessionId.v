(* Executable model of the session id codec and of the hub's decode cache.
   Mirrors, in the order of the checks of the code:
     sessionid_codec.go   EncodePrivate / EncodePublic / DecodePrivate / DecodePublic /
                          reverseSessionId (with the canonical-form check of fixes/C15/01)
     gorilla/securecookie v1.1.2  SecureCookie.Encode / Decode as configured by
                          NewSessionIdCodec (MaxAge(0), MinAge 0, MaxLength 4096,
                          sha256 HMAC, AES-CTR when a block key is set, protobuf serializer)
     hub.go               decodePrivateSessionId / decodePublicSessionId / setDecodedSessionId /
                          invalidateSessionId / getDecodeCache, GetSessionByResumeId /
                          GetSessionByPublicId, the resume branch of processHello,
                          the id part of processRegister and removeSession
     lru.go               LruCache Set / Get / Remove
     hub.go               NewHub: the key set a hub runs with, from the options hashkey and
                          blockkey of section [sessions] (config_keyset, at the end of the file)
   Base64 is concrete (lib/B64.v).  HMAC-SHA256, protobuf and AES-CTR are
   oracles (fields of [oracles]); nothing is assumed about them here.
   No proofs in this file. *)
From Coq Require Import List Ascii String Bool Arith NArith.
From Verif Require Import gen.Params lib.B64.
Import ListNotations.

Definition pipe : ascii := "|"%char.
Definition bs (s : string) : bytes := list_ascii_of_string s.

Inductive role := Private | Public.
Definition role_name (r : role) : bytes :=
  match r with Private => bs privateSessionName | Public => bs publicSessionName end.

(* ---- bytes.SplitN(b, "|", 3): exactly three parts or failure ---------------- *)
Fixpoint split1 (l : bytes) : option (bytes * bytes) :=
  match l with
  | [] => None
  | c :: r => if Ascii.eqb c pipe then Some ([], r)
              else match split1 r with Some (a, b) => Some (c :: a, b) | None => None end
  end.
Definition split3 (l : bytes) : option (bytes * bytes * bytes) :=
  match split1 l with
  | None => None
  | Some (a, r) => match split1 r with None => None | Some (b, c) => Some (a, b, c) end
  end.
Definition join3 (a b c : bytes) : bytes := a ++ pipe :: b ++ pipe :: c.

(* ---- strconv.ParseInt(s, 10, 64) returns no error --------------------------- *)
Definition digit_val (c : ascii) : option N :=
  let n := N_of_ascii c in
  (if (48 <=? n) && (n <=? 57) then Some (n - 48) else None)%N.
Fixpoint digits_val (acc : N) (l : bytes) : option N :=
  match l with
  | [] => Some acc
  | c :: r => match digit_val c with Some d => digits_val (acc * 10 + d)%N r | None => None end
  end.
Definition magnitude_ok (l : bytes) (bound : N) : bool :=
  match l with
  | [] => false
  | _ => match digits_val 0 l with Some n => (n <=? bound)%N | None => false end
  end.
Definition parse_int_ok (l : bytes) : bool :=
  match l with
  | [] => false
  | c :: r =>
      if Ascii.eqb c "-"%char then magnitude_ok r 9223372036854775808
      else if Ascii.eqb c "+"%char then magnitude_ok r 9223372036854775807
      else magnitude_ok l 9223372036854775807
  end.

(* ---- failure modes ----------------------------------------------------------- *)
Inductive err :=
| ENotCanonical    (* sessionid_codec.go: the id is not the canonical base64 spelling *)
| ETooLong         (* securecookie: "the value is too long" (decode) *)
| EBase64          (* securecookie: "base64 decode failed" on the whole value / reverseSessionId failed *)
| EMac             (* securecookie: ErrMacInvalid (fewer than three parts, or MAC differs) *)
| ETimestamp       (* securecookie: "invalid timestamp" *)
| EInner           (* securecookie: "base64 decode failed" on the value part *)
| EDecrypt         (* securecookie: "the value could not be decrypted" *)
| EDeser           (* protobuf Unmarshal failed *)
| ESer             (* protobuf Marshal failed (encode) *)
| EEncTooLong.     (* securecookie: "the value is too long" (encode) *)

Inductive res (A : Type) := Ok (a : A) | Err (e : err).
Arguments Ok {A} a.
Arguments Err {A} e.

Definition max_length : nat := 4096.   (* securecookie.New: maxLength *)
Definition iv_size : nat := 16.        (* aes.BlockSize *)

Section Model.
Context {key bkey data : Type}.

(* library behaviour that is run, not modelled *)
Record oracles := {
  hmac : key -> bytes -> bytes;           (* hmac.New(sha256.New, key) over the message *)
  ser : data -> option bytes;             (* proto.Marshal *)
  deser : bytes -> option data;           (* proto.Unmarshal into a fresh SessionIdData *)
  ctr : bkey -> bytes -> bytes -> bytes;  (* cipher.NewCTR(aes(key), iv).XORKeyStream *)
  sid_of : data -> N                      (* SessionIdData.Sid *)
}.

Record keyset := { hk : key; bk : option bkey }.

Context (O : oracles).

(* securecookie encrypt / decrypt around the stream cipher *)
Definition encrypt (b : option bkey) (iv p : bytes) : bytes :=
  match b with None => p | Some k => iv ++ ctr O k iv p end.
Definition decrypt (b : option bkey) (c : bytes) : option bytes :=
  match b with
  | None => Some c
  | Some k => if (iv_size <? List.length c)%nat then Some (ctr O k (firstn iv_size c) (skipn iv_size c)) else None
  end.

Definition mac_msg (name ts v : bytes) : bytes := name ++ pipe :: ts ++ pipe :: v.

(* SecureCookie.Encode; ts = the decimal digits of the clock, iv = the random
   initialisation vector (used with a block key only) *)
Definition cookie_encode (name : bytes) (ks : keyset) (ts iv : bytes) (d : data) : res bytes :=
  match ser O d with
  | None => Err ESer
  | Some p =>
      let v := b64enc (encrypt (bk ks) iv p) in
      let m := hmac O (hk ks) (mac_msg name ts v) in
      let s := b64enc (join3 ts v m) in
      if (max_length <? List.length s)%nat then Err EEncTooLong else Ok s
  end.

(* SecureCookie.Decode *)
Definition cookie_decode (name : bytes) (ks : keyset) (s : bytes) : res data :=
  if (max_length <? List.length s)%nat then Err ETooLong else
  match b64dec s with
  | None => Err EBase64
  | Some b =>
      match split3 b with
      | None => Err EMac
      | Some (ts, v, m) =>
          if negb (beqb (hmac O (hk ks) (mac_msg name ts v)) m) then Err EMac else
          if negb (parse_int_ok ts) then Err ETimestamp else
          match b64dec v with
          | None => Err EInner
          | Some c =>
              match decrypt (bk ks) c with
              | None => Err EDecrypt
              | Some p => match deser O p with None => Err EDeser | Some d => Ok d end
              end
          end
      end
  end.

(* reverseSessionId *)
Definition reverse_id (s : bytes) : option bytes :=
  match b64dec s with Some b => Some (b64enc (rev b)) | None => None end.

(* ---- the codec ------------------------------------------------------------------ *)
Definition encode_private (ks : keyset) (ts iv : bytes) (d : data) : res bytes :=
  cookie_encode (role_name Private) ks ts iv d.
Definition encode_public (ks : keyset) (ts iv : bytes) (d : data) : res bytes :=
  match cookie_encode (role_name Public) ks ts iv d with
  | Err e => Err e
  | Ok s => match reverse_id s with Some s' => Ok s' | None => Err EBase64 end
  end.
Definition encode (r : role) := match r with Private => encode_private | Public => encode_public end.

(* the decode functions WITHOUT the canonical-form check (the code before
   fixes/C15/01, and still the behaviour of the library underneath) *)
Definition decode_private_lax (ks : keyset) (s : bytes) : res data :=
  cookie_decode (role_name Private) ks s.
Definition decode_public_lax (ks : keyset) (s : bytes) : res data :=
  match reverse_id s with
  | None => Err EBase64
  | Some s' => cookie_decode (role_name Public) ks s'
  end.
Definition decode_lax (r : role) := match r with Private => decode_private_lax | Public => decode_public_lax end.

(* DecodePrivate / DecodePublic as repaired *)
Definition decode_private (ks : keyset) (s : bytes) : res data :=
  if is_canonical s then decode_private_lax ks s else Err ENotCanonical.
Definition decode_public (ks : keyset) (s : bytes) : res data :=
  if is_canonical s then decode_public_lax ks s else Err ENotCanonical.
Definition decode (r : role) := match r with Private => decode_private | Public => decode_public end.

(* ---- lru.go ----------------------------------------------------------------------- *)
(* front of the list = most recently used *)
Definition lru := list (bytes * data).

Fixpoint lru_find (k : bytes) (c : lru) : option data :=
  match c with
  | [] => None
  | (k', v) :: r => if beqb k k' then Some v else lru_find k r
  end.
Definition lru_del (k : bytes) (c : lru) : lru := filter (fun e => negb (beqb k (fst e))) c.
(* Get: a hit moves the entry to the front *)
Definition lru_get (k : bytes) (c : lru) : option data * lru :=
  match lru_find k c with
  | Some v => (Some v, (k, v) :: lru_del k c)
  | None => (None, c)
  end.
(* Set: update and move to front, or push front and drop the oldest when over size *)
Definition lru_set (size : nat) (k : bytes) (v : data) (c : lru) : lru :=
  match lru_find k c with
  | Some _ => (k, v) :: lru_del k c
  | None =>
      let c' := (k, v) :: c in
      if (0 <? size)%nat && (size <? List.length c')%nat then removelast c' else c'
  end.
Definition lru_remove (k : bytes) (c : lru) : lru := lru_del k c.

(* ---- hub.go: decode caches and the session table ---------------------------------------- *)
Definition cache_key (id : bytes) (name : bytes) : bytes := id ++ pipe :: name.

(* hash/fnv New32a *)
Definition fnv32a (l : bytes) : N :=
  fold_left (fun h c => ((N.lxor h (N_of_ascii c)) * 16777619) mod 4294967296)%N l 2166136261%N.

Record hub := {
  caches : list lru;                       (* h.decodeCaches *)
  csize : nat;                             (* size of each cache *)
  sessions : list (N * (bytes * bytes))    (* h.sessions: Sid -> (PrivateId, PublicId) *)
}.
Definition hub_init (ncaches size : nat) : hub :=
  {| caches := repeat [] ncaches; csize := size; sessions := [] |}.

Definition cache_index (h : hub) (ck : bytes) : nat :=
  N.to_nat (fnv32a ck mod N.of_nat (List.length (caches h))).
Fixpoint upd_nth {A} (i : nat) (x : A) (l : list A) : list A :=
  match l with
  | [] => []
  | y :: r => match i with 0%nat => x :: r | S j => y :: upd_nth j x r end
  end.
Definition with_cache (h : hub) (i : nat) (c : lru) : hub :=
  {| caches := upd_nth i c (caches h); csize := csize h; sessions := sessions h |}.
Definition get_cache (h : hub) (i : nat) : lru := nth i (caches h) [].

Fixpoint session_find (sid : N) (l : list (N * (bytes * bytes))) : option (bytes * bytes) :=
  match l with
  | [] => None
  | (s, ids) :: r => if N.eqb s sid then Some ids else session_find sid r
  end.
Definition session_del (sid : N) (l : list (N * (bytes * bytes))) := filter (fun e => negb (N.eqb (fst e) sid)) l.

(* decodePrivateSessionId / decodePublicSessionId *)
Definition hub_decode (ks : keyset) (r : role) (h : hub) (id : bytes) : hub * option data :=
  match id with
  | [] => (h, None)
  | _ =>
      let ck := cache_key id (role_name r) in
      let i := cache_index h ck in
      match lru_get ck (get_cache h i) with
      | (Some d, c') => (with_cache h i c', Some d)
      | (None, _) =>
          match decode r ks id with
          | Err _ => (h, None)
          | Ok d => (with_cache h i (lru_set (csize h) ck d (get_cache h i)), Some d)
          end
      end
  end.

(* setDecodedSessionId / invalidateSessionId *)
Definition hub_set_decoded (r : role) (h : hub) (id : bytes) (d : data) : hub :=
  match id with
  | [] => h
  | _ => let ck := cache_key id (role_name r) in
         let i := cache_index h ck in with_cache h i (lru_set (csize h) ck d (get_cache h i))
  end.
Definition hub_invalidate (r : role) (h : hub) (id : bytes) : hub :=
  match id with
  | [] => h
  | _ => let ck := cache_key id (role_name r) in
         let i := cache_index h ck in with_cache h i (lru_remove ck (get_cache h i))
  end.

Definition stored_id (r : role) (ids : bytes * bytes) : bytes :=
  match r with Private => fst ids | Public => snd ids end.

(* GetSessionByResumeId / GetSessionByPublicId, and the test of the resume
   branch of processHello: the session found under the decoded Sid is returned
   only if its own id is the very string that was presented *)
Definition hub_lookup (ks : keyset) (r : role) (h : hub) (id : bytes) : hub * option N :=
  let '(h', od) := hub_decode ks r h id in
  match od with
  | None => (h', None)
  | Some d =>
      match session_find (sid_of O d) (sessions h') with
      | None => (h', None)
      | Some ids => if beqb (stored_id r ids) id then (h', Some (sid_of O d)) else (h', None)
      end
  end.

Inductive hop :=
| HRegister (d : data) (ts1 iv1 ts2 iv2 : bytes)   (* processRegister: mint both ids, store, prime the caches *)
| HRemove (sid : N)                                (* removeSession *)
| HLookup (r : role) (id : bytes)                  (* GetSessionByResumeId / GetSessionByPublicId *)
| HResume (id : bytes)                             (* hello with resumeid *)
| HDecode (r : role) (id : bytes)                  (* decodePrivateSessionId / decodePublicSessionId: the hub's
                                                      decoder of a role, as its callers (lookups, the resume branch
                                                      of processHello, recipients of messages) use it *)
(* the other request path that makes ids, and the cache operations by themselves
   (hub.go has exactly these writers of the decode caches: processRegister calls setDecodedSessionId
   for both new ids (HRegister), removeSession calls invalidateSessionId for both ids of the session
   that ends -- bye, removesession, a replaced or orphaned virtual session, expiry -- (HRemove), and
   the two decoders store what the codec answered (HDecode); processInternalMsg "addsession" writes
   nothing to the caches) *)
| HAddSession (d : data) (ts1 iv1 ts2 iv2 : bytes) (* processInternalMsg, addsession: mint both ids of the virtual
                                                      session and store it; the caches are not touched *)
| HPrefill (r : role) (id : bytes) (d : data)      (* setDecodedSessionId(id, name of r, d) *)
| HInvalidate (r : role) (id : bytes)              (* invalidateSessionId(id, name of r) *)
| HCodec (r : role) (id : bytes).                  (* hub.cookie.DecodePrivate / DecodePublic: the codec the hub holds,
                                                      asked directly (no cache) *)

Inductive hout :=
| HIds (priv pub : bytes)      (* the ids handed to the client *)
| HFailed                      (* registration answered with an error *)
| HNone                        (* nothing to observe *)
| HFound (sid : N) | HNotFound
| HData (d : data) | HNoData.  (* what the hub's decoder returned: the data, or nil *)

Definition hub_step (ks : keyset) (h : hub) (o : hop) : hub * hout :=
  match o with
  | HRegister d ts1 iv1 ts2 iv2 =>
      match encode_private ks ts1 iv1 d with
      | Err _ => (h, HFailed)
      | Ok priv =>
          match encode_public ks ts2 iv2 d with
          | Err _ => (h, HFailed)
          | Ok pub =>
              let h1 := {| caches := caches h; csize := csize h;
                           sessions := (sid_of O d, (priv, pub)) :: session_del (sid_of O d) (sessions h) |} in
              let h2 := hub_set_decoded Private h1 priv d in
              let h3 := hub_set_decoded Public h2 pub d in
              (h3, HIds priv pub)
          end
      end
  | HRemove sid =>
      match session_find sid (sessions h) with
      | None => (h, HNone)
      | Some ids =>
          let h1 := hub_invalidate Private h (fst ids) in
          let h2 := hub_invalidate Public h1 (snd ids) in
          ({| caches := caches h2; csize := csize h2; sessions := session_del sid (sessions h2) |}, HNone)
      end
  | HLookup r id =>
      let '(h', o) := hub_lookup ks r h id in
      (h', match o with Some sid => HFound sid | None => HNotFound end)
  | HResume id =>
      let '(h', o) := hub_lookup ks Private h id in
      (h', match o with Some sid => HFound sid | None => HNotFound end)
  | HDecode r id =>
      let '(h', o) := hub_decode ks r h id in
      (h', match o with Some d => HData d | None => HNoData end)
  | HAddSession d ts1 iv1 ts2 iv2 =>
      match encode_private ks ts1 iv1 d with
      | Err _ => (h, HFailed)
      | Ok priv =>
          match encode_public ks ts2 iv2 d with
          | Err _ => (h, HFailed)
          | Ok pub =>
              ({| caches := caches h; csize := csize h;
                  sessions := (sid_of O d, (priv, pub)) :: session_del (sid_of O d) (sessions h) |}, HIds priv pub)
          end
      end
  | HPrefill r id d => (hub_set_decoded r h id d, HNone)
  | HInvalidate r id => (hub_invalidate r h id, HNone)
  | HCodec r id => (h, match decode r ks id with Ok d => HData d | Err _ => HNoData end)
  end.

End Model.

Arguments oracles : clear implicits.
Arguments keyset : clear implicits.
Arguments hub : clear implicits.
Arguments hop : clear implicits.
Arguments hout : clear implicits.
Arguments lru : clear implicits.

(* ---- hub.go NewHub: the key set of a hub ------------------------------------------------------
   hashKey  := [sessions] hashkey   used as configured (a length other than 32 / 64 bytes only
                                    logs a warning)
   blockKey := [sessions] blockkey  absent or empty: no block key, ids are signed only;
                                    16, 24 or 32 bytes (AES-128 / -192 / -256): exactly these
                                    bytes are the block key of the codec; any other length:
                                    NewHub fails.
   Lengths are byte lengths (Go's len of a string).  Keys are their own bytes here. *)
Definition block_key_length_ok (n : nat) : bool := Nat.eqb n 16 || Nat.eqb n 24 || Nat.eqb n 32.
Definition config_keyset (hashkey blockkey : bytes) : option (keyset bytes bytes) :=
  match blockkey with
  | [] => Some {| hk := hashkey; bk := None |}
  | _ => if block_key_length_ok (List.length blockkey)
         then Some {| hk := hashkey; bk := Some blockkey |}
         else None
  end.
