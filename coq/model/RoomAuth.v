(* Executable model of the front part of the room API of backend_server.go:
   the mux route (POST only), parseRequestBody (length, content type, presence
   of the two checksum headers) and roomHandler up to the point where the
   request is authenticated and the body is handed to json.Unmarshal, plus the
   status / publication that follows for the request types the correspondence
   uses.  The order of the checks is the order of the code.  No proofs here.

   Oracles (Section context, never axioms):
     hmac         crypto/hmac + sha256
     url_parse    net/url.Parse  (Some u = no error)
     get_backend  BackendConfiguration.GetBackend (the backend table itself is
                  modelled for property C13; here it is any function)
     body_kind    what json.Unmarshal + the type switch make of an
                  authenticated body *)
From Coq Require Import List ZArith NArith Bool String Ascii.
From Verif Require Import gen.Params model.Checksum model.Throttle.
Import ListNotations.
Open Scope Z_scope.

Record backend := { b_id : N; b_secret : bytes }.

(* GetCompatBackend() and GetBackends() (in the order this call returns them) *)
Record config := { cfg_compat : option backend; cfg_backends : list backend }.

Record request := {
  q_post  : bool;     (* method POST; the route has .Methods("POST") *)
  q_clen  : Z;        (* r.ContentLength, -1 = unknown *)
  q_ctype : string;   (* Content-Type header *)
  q_rnd   : bytes;    (* r.Header.Get("Spreed-Signaling-Random"): "" when absent *)
  q_chk   : bytes;    (* r.Header.Get("Spreed-Signaling-Checksum") *)
  q_bhdr  : bytes;    (* r.Header.Get("Spreed-Signaling-Backend") *)
  q_body  : bytes
}.

Inductive result :=
| RPre (status : N)        (* refused before any authentication: 404 / 411 / 413 / 400 *)
| RNoHeaders               (* 403 from parseRequestBody; the throttler is not consulted *)
| RThrottled               (* 429 *)
| RForbidden (delay : Z)   (* 403; the failure is recorded and the delay served *)
| RAuth (b : backend).     (* authenticated as b; body goes to json.Unmarshal *)

(* the action string "BackendRoomAuth" (numbering of model/Throttle.v's users) *)
Definition act_room_auth : N := 2.

Definition precheck (q : request) : option result :=
  if negb (q_post q) then Some (RPre 404)     (* the POST-only route of the sub-router does not match *)
  else if q_clen q =? -1 then Some (RPre 411)
  else if q_clen q >? maxBodySize then Some (RPre 413)
  else if negb (prefix "application/json" (q_ctype q)) then Some (RPre 400)
  else if is_empty (q_rnd q) || is_empty (q_chk q) then Some RNoHeaders
  else None.

Inductive bkind :=
| KMessage          (* {"type":"message","message":{"data":<non-empty>}} *)
| KMessageNoData    (* type "message" without data: published, no client event *)
| KBadJson          (* json.Unmarshal fails, or the decoded request fails CheckValid: 400 *)
| KUnsupported.     (* unknown type: 400 *)

Section RoomAuth.
  Context (hmac : bytes -> bytes -> bytes).
  Context {url : Type} (url_parse : bytes -> option url) (get_backend : url -> option backend).
  Context (body_kind : bytes -> bkind).

  Definition checks (q : request) (b : backend) : bool :=
    validb hmac (q_chk q) (q_rnd q) (q_body q) (b_secret b).

  (* header present: url.Parse, then GetBackend; a parse error leaves backend nil *)
  Definition named_backend (h : bytes) : option backend :=
    match url_parse h with
    | Some u => get_backend u
    | None => None
    end.

  Definition resolve (cfg : config) (q : request) : option backend :=
    if is_empty (q_bhdr q) then
      match cfg_compat cfg with
      | Some c => Some c
      | None => find (checks q) (cfg_backends cfg)
      end
    else named_backend (q_bhdr q).

  (* the final ValidateBackendChecksum against the resolved backend *)
  Definition authenticate (cfg : config) (q : request) : option backend :=
    match resolve cfg q with
    | Some b => if checks q b then Some b else None
    | None => None
    end.

  Definition handle (cfg : config) (th : Throttle.state) (t : Z) (a : addr) (q : request)
    : Throttle.state * result :=
    match precheck q with
    | Some r => (th, r)
    | None =>
        let '(th1, v) := Throttle.step th (OCheck t a act_room_auth) in
        match v with
        | VBlocked => (th1, RThrottled)
        | _ =>
            match authenticate cfg q with
            | Some b => (th1, RAuth b)
            | None =>
                let '(th2, v2) := Throttle.step th1 (OFail t a act_room_auth) in
                (th2, RForbidden (match v2 with VDelay d => d | _ => 0 end))
            end
        end
    end.

  (* ---- what follows the front part ---- *)
  Definition status_of (r : result) (body : bytes) : N :=
    match r with
    | RPre s => s
    | RNoHeaders => 403
    | RThrottled => 429
    | RForbidden _ => 403
    | RAuth _ => match body_kind body with
                 | KMessage | KMessageNoData => 200
                 | KBadJson | KUnsupported => 400
                 end
    end.

  (* the request is handed to the room handlers of this backend
     (PublishBackendRoomMessage on the backend's room subject) *)
  Definition published (r : result) (body : bytes) : option backend :=
    match r with
    | RAuth b => match body_kind body with
                 | KMessage | KMessageNoData => Some b
                 | _ => None
                 end
    | _ => None
    end.

  (* clients in the room of this backend receive an event *)
  Definition client_event (r : result) (body : bytes) : option backend :=
    match r with
    | RAuth b => match body_kind body with KMessage => Some b | _ => None end
    | _ => None
    end.

  Definition delay_of (r : result) : Z :=
    match r with RForbidden d => d | _ => 0 end.
End RoomAuth.
