(* Executable model of the bookkeeping of mcuJanus (mcu_janus.go, mcu_janus_client.go,
   mcu_janus_publisher.go, mcu_janus_subscriber.go) against a Janus gateway as the repository's
   TestJanusGateway implements it.  No proofs here.

   What is modelled
   * the gateway: reachable or not (g_up), whether it still knows the Janus session of the MCU
     (g_sess), the handles and the rooms it holds.  Handle and room numbers are not modelled
     (after a reconnect the real code re-creates the objects of all registered clients in
     goroutines, so the numbers are not determined): a handle / room is identified by the client
     it was made for (0 = the MCU's own handle);
   * mcu.clients (m_clients: the ids registered for NotifyReconnected), mcu.publishers (m_pubs:
     stream key (session id, stream type) -> publisher), every client object ever made with its
     handle field (nil / a handle the gateway has / a handle the gateway has forgotten) and its
     roomId (0 / a room the gateway has / a room the gateway has forgotten), mcu.clientId (m_next);
   * what the listener of a client is told (PublisherClosed, SubscriberClosed, SubscriberSidUpdated).

   The order of the real code and its failure branches are kept:
   * NewPublisher: attach (fails when the gateway is unreachable or has forgotten the session: nothing
     changes, no client id is used up), create room (refused: the handle is detached again, error),
     join, registerClient, publishers[key] = client  -- WITHOUT looking whether the key is taken: a
     second publisher for the same (session, stream type) is registered next to the first and takes
     over the key (surprising; kept; see close);
   * NewSubscriber: getPublisher waits for publishers[key] until the context ends (error "timeout"),
     then attach, registerClient;
   * mcuJanusPublisher.Close: only when it has a handle and a room: "destroy" on the handle (the result
     is only logged), delete(publishers, key) -- whoever holds the key, also a second publisher of the same
     stream (surprising; kept) --, roomId = 0; closeClient (handle = nil, "detach", result only logged);
     then unregisterClient and PublisherClosed -- whether or not the requests succeeded;
   * mcuJanusSubscriber.Close: closeClient; unregisterClient and SubscriberClosed ALWAYS, also on a second
     Close (the listener is told again; surprising; kept);
   * doReconnect (always to a gateway that has forgotten everything, see notes/C09J.md): new session and
     MCU handle, clear(publishers), NotifyReconnected of every registered client.  A publisher attaches a
     new handle, creates a new room (refused: the new handle is detached, the publisher stays registered
     with its stale handle and room number) and joins.  NotifyReconnected does NOT put the publisher back into
     mcu.publishers, so a subscriber's NotifyReconnected never finds its publisher: getPublisher runs into the
     MCU timeout and the subscriber closes itself (SubscriberClosed).  Surprising; kept: no subscriber
     survives a reconnect, and until its session creates a new publisher nobody can subscribe to a
     reconnected publisher. *)
From Coq Require Import List NArith Bool.
Import ListNotations.
Open Scope N_scope.

Inductive hstate := HNone | HLive | HStale.
Inductive kind := Pub | Sub.

Record client := {
  c_id : N;
  c_kind : kind;
  c_owner : N;       (* the session on whose behalf it was made (the listener) *)
  c_sid : N;         (* publisher: its session id; subscriber: the session id of the publisher it follows *)
  c_stream : N;      (* stream type: 0 video, 1 screen *)
  c_handle : hstate;
  c_room : hstate;
  c_closed : bool    (* ghost: Close was called on it (by the owner, or by itself after a failed reconnect) *)
}.

Inductive event := EPubClosed (c : N) | ESubClosed (c : N) | ESidUpdated (c : N).
Inductive result := RNone | ROk (c : N) | RErrGateway | RErrTimeout.

Inductive op :=
| ONewPub (s t : N) (refuse_create : bool)   (* mcu.NewPublisher for session s, stream t (owner = s) *)
| ONewSub (o s t : N)                        (* mcu.NewSubscriber of session o for the publisher (s, t) *)
| OClose (c : N) (rd rt : bool)              (* Close of client c; the gateway refuses "destroy" / "detach" *)
| OCloseAll (o : N)                          (* session o closes everything it has not closed yet *)
| OGwDown (wipe : bool)                      (* the gateway goes away: unreachable, or restarted (forgets everything) *)
| OGwUp                                      (* reachable again, nothing forgotten, no reconnect *)
| OReconnect (fail : list (N * N)).          (* doReconnect; "create" is refused for the listed stream keys *)

Record state := {
  g_up : bool;
  g_sess : bool;
  g_handles : list N;
  g_rooms : list N;
  m_clients : list N;
  m_pubs : list (N * N * N);
  m_objs : list client;
  m_next : N
}.

Definition init : state :=
  {| g_up := true; g_sess := true; g_handles := [0]; g_rooms := [];
     m_clients := []; m_pubs := []; m_objs := []; m_next := 1 |}.

(* ---- small list functions ---------------------------------------------------------------- *)
Fixpoint memN (x : N) (l : list N) : bool :=
  match l with [] => false | y :: r => N.eqb x y || memN x r end.
Fixpoint remove1 (x : N) (l : list N) : list N :=     (* one occurrence *)
  match l with [] => [] | y :: r => if N.eqb x y then r else y :: remove1 x r end.
Definition removeN (x : N) (l : list N) : list N := filter (fun y => negb (N.eqb x y)) l.
Definition key_eqb (a b : N * N) : bool := N.eqb (fst a) (fst b) && N.eqb (snd a) (snd b).
Fixpoint mem_key (k : N * N) (l : list (N * N)) : bool :=
  match l with [] => false | y :: r => key_eqb k y || mem_key k r end.
Definition pkey (e : N * N * N) : N * N := fst e.
Definition pub_of (pubs : list (N * N * N)) (k : N * N) : option N :=
  match find (fun e => key_eqb (pkey e) k) pubs with Some e => Some (snd e) | None => None end.
Definition del_key (pubs : list (N * N * N)) (k : N * N) : list (N * N * N) :=
  filter (fun e => negb (key_eqb (pkey e) k)) pubs.
Definition set_key (pubs : list (N * N * N)) (k : N * N) (c : N) : list (N * N * N) :=
  del_key pubs k ++ [(k, c)].

Definition get_obj (st : state) (c : N) : option client :=
  find (fun x => N.eqb (c_id x) c) (m_objs st).
Definition upd_obj (f : client -> client) (c : N) (l : list client) : list client :=
  map (fun x => if N.eqb (c_id x) c then f x else x) l.
Definition ckey (x : client) : N * N := (c_sid x, c_stream x).

Definition hs_is_none (h : hstate) : bool := match h with HNone => true | _ => false end.
Definition hs_is_live (h : hstate) : bool := match h with HLive => true | _ => false end.
Definition forget (h : hstate) : hstate := match h with HLive => HStale | x => x end.

Definition set_handle (h : hstate) (x : client) : client :=
  {| c_id := c_id x; c_kind := c_kind x; c_owner := c_owner x; c_sid := c_sid x; c_stream := c_stream x;
     c_handle := h; c_room := c_room x; c_closed := c_closed x |}.
Definition set_room (r : hstate) (x : client) : client :=
  {| c_id := c_id x; c_kind := c_kind x; c_owner := c_owner x; c_sid := c_sid x; c_stream := c_stream x;
     c_handle := c_handle x; c_room := r; c_closed := c_closed x |}.
Definition set_closed (x : client) : client :=
  {| c_id := c_id x; c_kind := c_kind x; c_owner := c_owner x; c_sid := c_sid x; c_stream := c_stream x;
     c_handle := c_handle x; c_room := c_room x; c_closed := true |}.
Definition forget_obj (x : client) : client :=
  {| c_id := c_id x; c_kind := c_kind x; c_owner := c_owner x; c_sid := c_sid x; c_stream := c_stream x;
     c_handle := forget (c_handle x); c_room := forget (c_room x); c_closed := c_closed x |}.

(* state updates *)
Definition with_gw (st : state) (up sess : bool) (hs rs : list N) : state :=
  {| g_up := up; g_sess := sess; g_handles := hs; g_rooms := rs;
     m_clients := m_clients st; m_pubs := m_pubs st; m_objs := m_objs st; m_next := m_next st |}.
Definition with_objs (st : state) (objs : list client) : state :=
  {| g_up := g_up st; g_sess := g_sess st; g_handles := g_handles st; g_rooms := g_rooms st;
     m_clients := m_clients st; m_pubs := m_pubs st; m_objs := objs; m_next := m_next st |}.
Definition with_clients (st : state) (cl : list N) : state :=
  {| g_up := g_up st; g_sess := g_sess st; g_handles := g_handles st; g_rooms := g_rooms st;
     m_clients := cl; m_pubs := m_pubs st; m_objs := m_objs st; m_next := m_next st |}.
Definition with_pubs (st : state) (ps : list (N * N * N)) : state :=
  {| g_up := g_up st; g_sess := g_sess st; g_handles := g_handles st; g_rooms := g_rooms st;
     m_clients := m_clients st; m_pubs := ps; m_objs := m_objs st; m_next := m_next st |}.

(* the gateway answers requests of the MCU's session *)
Definition reachable (st : state) : bool := g_up st && g_sess st.
(* a request on the handle of a client is served *)
Definition handle_ok (st : state) (x : client) : bool := reachable st && hs_is_live (c_handle x).

(* ---- creation ------------------------------------------------------------------------------ *)
Definition new_pub (st : state) (s t : N) (refuse_create : bool) : state * result * list event :=
  if negb (reachable st) then (st, RErrGateway, [])              (* attach fails *)
  else if refuse_create then (st, RErrGateway, [])               (* attached, create refused, detached again *)
  else
    let c := m_next st in
    let x := {| c_id := c; c_kind := Pub; c_owner := s; c_sid := s; c_stream := t;
                c_handle := HLive; c_room := HLive; c_closed := false |} in
    ({| g_up := g_up st; g_sess := g_sess st;
        g_handles := g_handles st ++ [c]; g_rooms := g_rooms st ++ [c];
        m_clients := m_clients st ++ [c];
        m_pubs := set_key (m_pubs st) (s, t) c;
        m_objs := m_objs st ++ [x];
        m_next := c + 1 |}, ROk c, []).

Definition new_sub (st : state) (o s t : N) : state * result * list event :=
  match pub_of (m_pubs st) (s, t) with
  | None => (st, RErrTimeout, [])                                 (* getPublisher waits until the context ends *)
  | Some _ =>
      if negb (reachable st) then (st, RErrGateway, [])
      else
        let c := m_next st in
        let x := {| c_id := c; c_kind := Sub; c_owner := o; c_sid := s; c_stream := t;
                    c_handle := HLive; c_room := HLive; c_closed := false |} in
        ({| g_up := g_up st; g_sess := g_sess st;
            g_handles := g_handles st ++ [c]; g_rooms := g_rooms st;
            m_clients := m_clients st ++ [c];
            m_pubs := m_pubs st;
            m_objs := m_objs st ++ [x];
            m_next := c + 1 |}, ROk c, [])
  end.

(* ---- close ----------------------------------------------------------------------------------- *)
(* mcuJanusClient.closeClient: handle = nil, "detach" (result only logged); returns whether there was a handle *)
Definition close_client (st : state) (x : client) (rt : bool) : state * bool :=
  if hs_is_none (c_handle x) then (st, false)
  else
    let st1 := if handle_ok st x && negb rt
               then with_gw st (g_up st) (g_sess st) (remove1 (c_id x) (g_handles st)) (g_rooms st)
               else st in
    (with_objs st1 (upd_obj (set_handle HNone) (c_id x) (m_objs st1)), true).

Definition close_pub (st : state) (x : client) (rd rt : bool) : state * list event :=
  let c := c_id x in
  let '(st1, notify) :=
    if negb (hs_is_none (c_handle x)) && negb (hs_is_none (c_room x)) then
      let sta := if handle_ok st x && hs_is_live (c_room x) && negb rd
                 then with_gw st (g_up st) (g_sess st) (g_handles st) (remove1 c (g_rooms st))
                 else st in
      let stb := with_pubs sta (del_key (m_pubs sta) (ckey x)) in
      (with_objs stb (upd_obj (set_room HNone) c (m_objs stb)), true)
    else (st, false) in
  let '(st2, _) := close_client st1 x rt in
  let st3 := with_objs st2 (upd_obj set_closed c (m_objs st2)) in
  if notify then (with_clients st3 (removeN c (m_clients st3)), [EPubClosed c])
  else (st3, []).

Definition close_sub (st : state) (x : client) (rt : bool) : state * list event :=
  let c := c_id x in
  let '(st1, _) := close_client st x rt in
  let st2 := with_objs st1 (upd_obj set_closed c (m_objs st1)) in
  (with_clients st2 (removeN c (m_clients st2)), [ESubClosed c]).

Definition close (st : state) (c : N) (rd rt : bool) : state * list event :=
  match get_obj st c with
  | None => (st, [])
  | Some x => match c_kind x with Pub => close_pub st x rd rt | Sub => close_sub st x rt end
  end.

Fixpoint close_list (st : state) (l : list N) : state * list event :=
  match l with
  | [] => (st, [])
  | c :: r => let '(st1, e1) := close st c false false in
              let '(st2, e2) := close_list st1 r in (st2, e1 ++ e2)
  end.
Definition owned_open (st : state) (o : N) : list N :=
  map c_id (filter (fun x => N.eqb (c_owner x) o && negb (c_closed x)) (m_objs st)).

(* ---- the gateway goes away / comes back ------------------------------------------------------ *)
Definition wipe (st : state) (up sess : bool) (hs : list N) : state :=
  {| g_up := up; g_sess := sess; g_handles := hs; g_rooms := [];
     m_clients := m_clients st; m_pubs := m_pubs st; m_objs := map forget_obj (m_objs st); m_next := m_next st |}.

(* NotifyReconnected of one registered client *)
Definition notify_reconnected (fail : list (N * N)) (st : state) (c : N) : state * list event :=
  match get_obj st c with
  | None => (st, [])
  | Some x =>
      match c_kind x with
      | Pub =>
          if negb (reachable st) then (st, [])
          else if mem_key (ckey x) fail then (st, [])         (* attached, create refused, detached; stays as it was *)
          else
            let st1 := with_gw st (g_up st) (g_sess st) (g_handles st ++ [c]) (g_rooms st ++ [c]) in
            (with_objs st1 (upd_obj (fun y => set_room HLive (set_handle HLive y)) c (m_objs st1)), [])
      | Sub =>
          match pub_of (m_pubs st) (ckey x) with
          | None => close_sub st x false                       (* getPublisher times out: the subscriber closes itself *)
          | Some _ =>
              if negb (reachable st) then close_sub st x false
              else
                let st1 := with_gw st (g_up st) (g_sess st) (g_handles st ++ [c]) (g_rooms st) in
                (with_objs st1 (upd_obj (set_handle HLive) c (m_objs st1)), [ESidUpdated c])
          end
      end
  end.
Fixpoint notify_all (fail : list (N * N)) (st : state) (l : list N) : state * list event :=
  match l with
  | [] => (st, [])
  | c :: r => let '(st1, e1) := notify_reconnected fail st c in
              let '(st2, e2) := notify_all fail st1 r in (st2, e1 ++ e2)
  end.

Definition reconnect (st : state) (fail : list (N * N)) : state * list event :=
  let st1 := with_pubs (wipe st true true [0]) [] in
  notify_all fail st1 (m_clients st1).

(* ---- step ---------------------------------------------------------------------------------------- *)
Definition step (st : state) (o : op) : state * result * list event :=
  match o with
  | ONewPub s t rc => new_pub st s t rc
  | ONewSub o s t => new_sub st o s t
  | OClose c rd rt => let '(st', ev) := close st c rd rt in (st', RNone, ev)
  | OCloseAll o => let '(st', ev) := close_list st (owned_open st o) in (st', RNone, ev)
  | OGwDown true => (wipe st (g_up st) false [], RNone, [])
  | OGwDown false => (with_gw st false (g_sess st) (g_handles st) (g_rooms st), RNone, [])
  | OGwUp => (with_gw st true (g_sess st) (g_handles st) (g_rooms st), RNone, [])
  | OReconnect fail => let '(st', ev) := reconnect st fail in (st', RNone, ev)
  end.

Definition step_st (st : state) (o : op) : state := fst (fst (step st o)).
Definition run_from (st : state) (ops : list op) : state := fold_left step_st ops st.
Definition run (ops : list op) : state := run_from init ops.
