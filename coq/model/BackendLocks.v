(* Small-step model of threads running lock programs (sequences of
   Lock/RLock/Unlock/RUnlock on ONE sync.RWMutex, as extracted by the
   translator into gen/LockProgs.v) under an arbitrary scheduler.  No proofs.

   sync.RWMutex as in Go: writers exclude each other from the moment they
   announce themselves (rw.w is taken first); an announced writer waits for the
   readers that are inside to leave; while a writer is announced or inside,
   RLock blocks - also for a goroutine that already holds a read lock. *)
From Coq Require Import List Arith Bool.
From Verif Require Import gen.LockProgs.
Import ListNotations.

Inductive mode := MR | MW.
Record thread := mkT {
  prog : list lockop;       (* what is left to do *)
  announced : bool;         (* Lock(): rw.w taken and readers told, waiting for them to leave *)
  held : option mode        (* ghost: what the thread holds (does not influence the steps) *)
}.
Record mu := mkMu {
  readers : nat;            (* read locks held *)
  writer : bool;            (* write lock held *)
  pending : bool            (* a writer is announced *)
}.
Definition st := (mu * list thread)%type.

(* one step of thread t, None = blocked (or finished) *)
Definition tstep (m : mu) (t : thread) : option (mu * thread) :=
  match prog t with
  | [] => None
  | RLock :: r =>
      if writer m || pending m then None
      else Some (mkMu (S (readers m)) (writer m) (pending m), mkT r false (Some MR))
  | RUnlock :: r => Some (mkMu (pred (readers m)) (writer m) (pending m), mkT r false None)
  | Lock :: r =>
      if negb (announced t) then
        if writer m || pending m then None
        else Some (mkMu (readers m) (writer m) true, mkT (Lock :: r) true (held t))
      else if writer m || (0 <? readers m) then None
      else Some (mkMu (readers m) true false, mkT r false (Some MW))
  | Unlock :: r => Some (mkMu (readers m) false (pending m), mkT r false None)
  end.

Fixpoint upd {A} (i : nat) (x : A) (l : list A) : list A :=
  match l, i with [], _ => [] | _ :: r, O => x :: r | a :: r, S j => a :: upd j x r end.

(* the scheduler picks thread tid; a blocked or finished thread does not move *)
Definition step (s : st) (tid : nat) : st :=
  match nth_error (snd s) tid with
  | Some t => match tstep (fst s) t with Some (m', t') => (m', upd tid t' (snd s)) | None => s end
  | None => s
  end.
Definition enabled (s : st) (tid : nat) : bool :=
  match nth_error (snd s) tid with
  | Some t => match tstep (fst s) t with Some _ => true | None => false end
  | None => false
  end.
Definition done_t (t : thread) : bool := match prog t with [] => true | _ => false end.
Definition all_done (s : st) : bool := forallb done_t (snd s).
Definition deadlocked (s : st) : bool :=
  negb (all_done s) && forallb (fun i => negb (enabled s i)) (seq 0 (length (snd s))).

Definition init (ps : list (list lockop)) : st := (mkMu 0 false false, map (fun p => mkT p false None) ps).
Definition run (sched : list nat) (s : st) : st := fold_left step sched s.

(* a program that never asks for the mutex while holding it, and leaves it released *)
Fixpoint nr (h : option mode) (p : list lockop) : bool :=
  match p, h with
  | [], None => true
  | RLock :: r, None => nr (Some MR) r
  | Lock :: r, None => nr (Some MW) r
  | RUnlock :: r, Some MR => nr None r
  | Unlock :: r, Some MW => nr None r
  | _, _ => false
  end.
Definition non_reentrant (p : list lockop) : bool := nr None p.

(* steps a schedule really takes (choices of blocked threads do nothing) *)
Fixpoint effective (sched : list nat) (s : st) : nat :=
  match sched with
  | [] => 0
  | tid :: r => (if enabled s tid then 1 else 0) + effective r (step s tid)
  end.
(* upper bound on the number of steps: two per operation *)
Definition budget (ps : list (list lockop)) : nat := fold_right (fun p n => 2 * length p + n) 0 ps.

(* the entry points of the backend storages, as generated from the current source *)
Definition generated_progs : list (list lockop) :=
  map snd (c13_locks_static ++ c13_locks_etcd ++ c13_locks_config_static ++ c13_locks_config_etcd).

(* the lookup path as it was before the repair (GetBackend -> getBackendLocked) *)
Definition unrepaired_GetBackend : list lockop := [RLock; RLock; RUnlock; RUnlock].
Definition unrepaired_Reload : list lockop := [Lock; Unlock].
