(* Executable model of what the hub does with one frame received from a
   websocket client, up to the point where a valid message is handed to its
   handler (client.go ReadPump, hub.go processMessage, api_signaling.go
   ClientMessage.CheckValid and the CheckValid methods of all sub-structs,
   the entry of every per-type handler, clientsession.go ProcessResponse with
   the response handler installed by backend_server.go startDialout,
   federation.go ProxyMessage).  No proofs here.

   The hub's own state machine (what the handlers do) is model/Hub.v; this
   model stops at "message m is handed to handler H with these fields" and
   makes explicit every pointer dereference the code performs on the decoded
   message on the way (a nil dereference in the goroutine that processes the
   messages of a client is not recovered by anybody: the process exits).

   [fx : fixes] says which repairs the code contains: [fx_dialout] is
   fixes/C10/01 (the response handler of a pending dialout only takes validated
   "dialout" messages), [fx_label] is fixes/C10/02 (the message type is no longer
   used as label value of a prometheus counter, which panics on text that is not
   valid UTF-8).  [unrepaired] is the code as found, kept for the *_refuted
   theorems and for judging runs against an unrepaired tree.

   Library behaviour that is not modelled is a parameter of the section:
   url.Parse / url.ParseRequestURI (do they return an error?) and the SDP parser
   of pion (does Unmarshal return an error?).  *)
From Coq Require Import List ZArith NArith String Bool Ascii.
From Verif Require Import gen.Params gen.Schema lib.Json lib.Decode.
Import ListNotations.
Open Scope string_scope.
Open Scope list_scope.

(* ---- the message types, resolved from the generated schema ------------------------------- *)
Definition c10_tyenv : tyenv := {|
  te_structs := [
    ("ClientMessage", schema_ClientMessage);
    ("HelloClientMessage", schema_HelloClientMessage);
    ("HelloClientMessageAuth", schema_HelloClientMessageAuth);
    ("ClientTypeInternalAuthParams", schema_ClientTypeInternalAuthParams);
    ("HelloV2AuthParams", schema_HelloV2AuthParams);
    ("FederationAuthParams", schema_FederationAuthParams);
    ("ByeClientMessage", schema_ByeClientMessage);
    ("RoomClientMessage", schema_RoomClientMessage);
    ("RoomFederationMessage", schema_RoomFederationMessage);
    ("MessageClientMessage", schema_MessageClientMessage);
    ("MessageClientMessageRecipient", schema_MessageClientMessageRecipient);
    ("MessageClientMessageData", schema_MessageClientMessageData);
    ("ControlClientMessage", schema_ControlClientMessage);
    ("InternalClientMessage", schema_InternalClientMessage);
    ("CommonSessionInternalClientMessage", schema_CommonSessionInternalClientMessage);
    ("AddSessionInternalClientMessage", schema_AddSessionInternalClientMessage);
    ("AddSessionOptions", schema_AddSessionOptions);
    ("UpdateSessionInternalClientMessage", schema_UpdateSessionInternalClientMessage);
    ("RemoveSessionInternalClientMessage", schema_RemoveSessionInternalClientMessage);
    ("InCallInternalClientMessage", schema_InCallInternalClientMessage);
    ("DialoutInternalClientMessage", schema_DialoutInternalClientMessage);
    ("DialoutStatusInternalClientMessage", schema_DialoutStatusInternalClientMessage);
    ("Error", schema_Error);
    ("TransientDataClientMessage", schema_TransientDataClientMessage);
    ("MessageServerMessageData", schema_MessageServerMessageData);
    ("MessageServerMessageDataChat", schema_MessageServerMessageDataChat)];
  (* named non-struct types (hand-written; a wrong entry shows up as a
     correspondence mismatch on the wrong-kind cases) *)
  te_aliases := [("DialoutStatus", "string")];
  te_opaque := []
|}.

Definition resolved (name : string) : gty :=
  match resolve 12 c10_tyenv name with
  | Some t => t
  | None => TOpaque "unresolved"
  end.

Definition ty_client : gty := resolved "ClientMessage".
Definition ty_v2params : gty := resolved "HelloV2AuthParams".
Definition ty_fedparams : gty := resolved "FederationAuthParams".
Definition ty_intparams : gty := resolved "ClientTypeInternalAuthParams".
Definition ty_mcudata : gty := resolved "MessageClientMessageData".
Definition ty_srvdata : gty := resolved "MessageServerMessageData".

(* ---- input: one websocket frame ------------------------------------------------------------ *)
Inductive input :=
| IOversize          (* a frame longer than maxMessageSize *)
| IBinary            (* a binary frame within the limit *)
| IBad               (* a text frame within the limit that the lexer of the decoder rejects (also the empty frame);
                        the lexical level is not modelled: which texts these are is decided by the real lexer *)
| IDoc (j : json).   (* a text frame holding the JSON document j *)

(* ---- what the hub knows about the connection the frame arrived on ---------------------------- *)
Inductive skind :=
| SNone              (* no session yet (no successful hello on this connection) *)
| SClient            (* a ClientSession of type "client" (or "federation") *)
| SInternal.         (* a ClientSession of type "internal" *)
(* Client.SetSession is only ever called with a *ClientSession, so the
   type assertions to ClientSession of the handlers cannot fail for a
   websocket client and are not modelled. *)

Record session_state := {
  ss_kind : skind;
  ss_federated : bool;         (* the session has a FederationClient (it joined a federated room) *)
  ss_pending : list string;    (* message ids with a response handler installed by startDialout *)
  ss_mcu : bool;               (* the hub has a media server (Hub.mcu != nil) *)
  ss_inroom : bool;            (* the session is in a room *)
  ss_self : string;            (* the session's own public id (session.PublicId()) *)
  ss_self_user : string;       (* its user id (session.UserId()); empty for internal clients and anonymous sessions *)
  (* Sessions of the sender's backend that are known to this hub but have no connection at the
     moment (the connection was interrupted, the session is kept to be resumed): what is sent
     to them goes through ClientSession.storePendingMessage, which looks into the payload. *)
  ss_offline : list string;        (* their public session ids *)
  ss_offline_users : list string;  (* user ids (other than the sender's) that have such a session *)
  ss_offline_room : bool;          (* the sender's room has such a member *)
  ss_offline_call : bool           (* ... that is in the call *)
}.

(* ---- outcome ---------------------------------------------------------------------------------- *)
Inductive errcode :=
| EInvalidFormat | EHelloExpected | EInvalidHelloVersion | EInvalidClientType
| ENoSdp | EInvalidSdp | ENotInRoom.

Definition code_text (c : errcode) : string :=
  match c with
  | EInvalidFormat => "invalid_format"
  | EHelloExpected => "hello_expected"
  | EInvalidHelloVersion => "invalid_hello_version"
  | EInvalidClientType => "invalid_client_type"
  | ENoSdp => "no_sdp"
  | EInvalidSdp => "invalid_sdp"
  | ENotInRoom => "not_in_room"
  end.

Inductive hello_req :=
| HResume (resumeid : string)
| HClient (v2 federation : bool) (url : string) (params : json) (token : string)
| HInternal (random token backend : string).

(* "handler H is called with these fields" *)
Inductive call :=
| CHello (version : string) (features : list string) (h : hello_req)                  (* processHello *)
| CRoom (roomid sessionid : string) (fed : option (string * string * string * string)) (* processRoom; federation = (signaling url after normalisation, nextcloud url, remote room id, token) *)
| CMessage (rtype sessionid userid : string) (data : json) (mcu : option gval)        (* processMessageMsg; mcu = the payload decoded as MessageClientMessageData (and validated) where the code does that *)
| CControl (rtype sessionid userid : string) (data : json)                            (* processControlMsg *)
| CInternal (ty : string) (sub : gval)                                                (* processInternalMsg, switch on the type; sub = *msg.<Sub> (for "dialout"/"status" the status object is dereferenced as well) *)
| CResponse (id : string) (dialout : gval)                                            (* the response handler of a pending dialout took message.Internal.Dialout *)
| CTransient (ty key : string) (value : option json) (ttl : Z)                        (* processTransientMsg, after the room check *)
| CStore (refresh : bool)                                                             (* the message was handed to a session without connection: storePendingMessage, with what IsChatRefresh said *)
| CBye                                                                                (* processByeMsg *)
| CProxy (ty : string).                                                               (* FederationClient.ProxyMessage: forwarded to the remote server *)

Inductive verdict :=
| VTooLarge                            (* ReadPump: read limit exceeded; the connection is closed, nothing is processed *)
| VDecodeError                         (* error invalid_format without id: binary frame, or the text does not decode *)
| VError (c : errcode) (id : string)   (* exactly one error reply carrying the id of the message; nothing dispatched, no state touched *)
| VIgnored                             (* logged; nothing sent, nothing dispatched, no state touched *)
| VDispatch (cs : list call)           (* handed to these handlers, in this order *)
| VPanic.                              (* nil dereference in the goroutine processing the messages of the client: process exit *)

(* what CheckValid computes besides the verdict (the fields it fills in) *)
Record parsed := {
  p_auth_type : string;     (* Hello.Auth.Type after defaulting "" to "client" *)
  p_url : bool;             (* Hello.Auth.parsedUrl set *)
  p_backend : bool;         (* Hello.Auth.internalParams.parsedBackend set *)
  p_params : gval;          (* the decoded helloV2Params / federationParams / internalParams *)
  p_signaling : string;     (* Room.Federation.SignalingUrl after appending "/" *)
  p_fed_sig : bool;         (* Room.Federation.parsedSignalingUrl set *)
  p_fed_nc : bool           (* Room.Federation.parsedNextcloudUrl set *)
}.
Definition p0 : parsed :=
  {| p_auth_type := ""; p_url := false; p_backend := false; p_params := GNil;
     p_signaling := ""; p_fed_sig := false; p_fed_nc := false |}.

Inductive cres := COk (p : parsed) | CErr (c : errcode).

Definition eqs (a b : string) : bool := String.eqb a b.
Definition sfld (f : string) (v : gval) : string := as_str (fld f v).
Definition is_nil (v : gval) : bool := match v with GNil => true | _ => false end.

(* encoding/json validates the text before it calls the (easyjson) UnmarshalJSON of
   the target and refuses nesting deeper than 10000 *)
Definition max_nesting : nat := 10000.
Definition std_unmarshal (t : gty) (raw : json) : result gval :=
  if Nat.ltb max_nesting (json_depth raw) then Err EKind else decode t (zero t) raw.

(* The generated decoders hand every array / object they do not decode member by
   member - the value of an unknown member, of a json.RawMessage - to
   jlexer.SkipRecursive, which checks it with json.Valid: nesting deeper than
   10000 is an error of the whole document.  (Skipped scalars are not checked.) *)
Definition raw_ok (v : json) : bool := Nat.leb (json_depth v) max_nesting.
Definition field_type (k : string) (fs : list (string * string * gty)) : option gty :=
  match find (fun f => String.eqb k (snd (fst f))) fs with
  | Some f => Some (snd f)
  | None => None
  end.
Fixpoint strip_ptr (t : gty) : gty := match t with TPtr t' => strip_ptr t' | _ => t end.
Fixpoint skipped_ok (t : gty) (j : json) {struct j} : bool :=
  match j with
  | JObj ms =>
      match strip_ptr t with
      | TStruct fs =>
          (fix go (ms : list (string * json)) : bool :=
             match ms with
             | [] => true
             | (k, v) :: r =>
                 match field_type k fs with Some ft => skipped_ok ft v | None => raw_ok v end && go r
             end) ms
      | TMap t' =>
          (fix go (ms : list (string * json)) : bool :=
             match ms with
             | [] => true
             | (_, v) :: r => skipped_ok t' v && go r
             end) ms
      | TRaw | TIface | TOpaque _ => raw_ok j
      | _ => true
      end
  | JArr l =>
      match strip_ptr t with
      | TSlice t' => forallb (skipped_ok t') l
      | TRaw | TIface | TOpaque _ => raw_ok j
      | _ => true
      end
  | _ => true
  end.

Fixpoint last_char (s : string) : option ascii :=
  match s with
  | EmptyString => None
  | String c EmptyString => Some c
  | String _ r => last_char r
  end.
Definition with_slash (s : string) : string :=
  match last_char s with
  | Some c => if Ascii.eqb c "/"%char then s else s ++ "/"
  | None => s
  end.

(* which repairs the tree contains *)
Record fixes := { fx_dialout : bool; fx_label : bool }.
Definition repaired : fixes := {| fx_dialout := true; fx_label := true |}.
Definition unrepaired : fixes := {| fx_dialout := false; fx_label := false |}.

(* unicode/utf8.ValidString on the bytes of the string (prometheus checks label values with it) *)
Definition btw (lo hi n : nat) : bool := Nat.leb lo n && Nat.leb n hi.
Fixpoint utf8_go (s : string) (need lo hi : nat) : bool :=
  match s with
  | EmptyString => Nat.eqb need 0
  | String c r =>
      let n := nat_of_ascii c in
      match need with
      | O =>
          if Nat.ltb n 128 then utf8_go r 0 128 191
          else if btw 194 223 n then utf8_go r 1 128 191
          else if Nat.eqb n 224 then utf8_go r 2 160 191
          else if btw 225 236 n || btw 238 239 n then utf8_go r 2 128 191
          else if Nat.eqb n 237 then utf8_go r 2 128 159
          else if Nat.eqb n 240 then utf8_go r 3 144 191
          else if btw 241 243 n then utf8_go r 3 128 191
          else if Nat.eqb n 244 then utf8_go r 3 128 143
          else false
      | S k => if btw lo hi n then utf8_go r k 128 191 else false
      end
  end.
Definition utf8_valid (s : string) : bool := utf8_go s 0 128 191.

Section WithOracles.
  Context (url_ok : string -> bool)        (* url.Parse returns no error *)
          (requri_ok : string -> bool)     (* url.ParseRequestURI returns no error *)
          (sdp_ok : string -> bool).       (* sdp.SessionDescription.Unmarshal returns no error *)

  (* ---- CheckValid ---------------------------------------------------------------------------- *)
  Definition check_token_params (t : gty) (params : json) (p : parsed) : cres :=
    match std_unmarshal t params with
    | Err _ => CErr EInvalidFormat
    | Ok v => if eqs (sfld "Token" v) "" then CErr EInvalidFormat
              else COk {| p_auth_type := p_auth_type p; p_url := p_url p; p_backend := p_backend p; p_params := v;
                          p_signaling := p_signaling p; p_fed_sig := p_fed_sig p; p_fed_nc := p_fed_nc p |}
    end.

  Definition check_hello (h : gval) : cres :=
    let version := sfld "Version" h in
    if negb (eqs version "1.0" || eqs version "2.0") then CErr EInvalidHelloVersion
    else if negb (eqs (sfld "ResumeId" h) "") then COk p0
    else
      match deref (fld "Auth" h) with
      | None => CErr EInvalidFormat
      | Some a =>
          match as_raw (fld "Params" a) with
          | None => CErr EInvalidFormat
          | Some params =>
              let ty := if eqs (sfld "Type" a) "" then "client" else sfld "Type" a in
              if eqs ty "client" || eqs ty "federation" then
                if eqs (sfld "Url" a) "" then CErr EInvalidFormat
                else if negb (requri_ok (sfld "Url" a)) then CErr EInvalidFormat
                else
                  let p := {| p_auth_type := ty; p_url := true; p_backend := false; p_params := GNil;
                              p_signaling := ""; p_fed_sig := false; p_fed_nc := false |} in
                  if eqs version "1.0" then COk p
                  else if eqs ty "client" then check_token_params ty_v2params params p
                  else check_token_params ty_fedparams params p
              else if eqs ty "internal" then
                match std_unmarshal ty_intparams params with
                | Err _ => CErr EInvalidFormat
                | Ok v =>
                    if eqs (sfld "Backend" v) "" then CErr EInvalidFormat
                    else if negb (url_ok (sfld "Backend" v)) then CErr EInvalidFormat
                    else COk {| p_auth_type := ty; p_url := false; p_backend := true; p_params := v;
                                p_signaling := ""; p_fed_sig := false; p_fed_nc := false |}
                end
              else CErr EInvalidFormat
          end
      end.

  Definition check_federation (f : gval) : cres :=
    let sig := sfld "SignalingUrl" f in
    if eqs sig "" then CErr EInvalidFormat
    else
      let sig' := with_slash sig in
      if negb (url_ok sig') then CErr EInvalidFormat
      else if eqs (sfld "NextcloudUrl" f) "" then CErr EInvalidFormat
      else if negb (url_ok (sfld "NextcloudUrl" f)) then CErr EInvalidFormat
      else if eqs (sfld "Token" f) "" then CErr EInvalidFormat
      else COk {| p_auth_type := ""; p_url := false; p_backend := false; p_params := GNil;
                  p_signaling := sig'; p_fed_sig := true; p_fed_nc := true |}.

  Definition check_room (r : gval) : cres :=
    match deref (fld "Federation" r) with
    | None => COk p0
    | Some f => check_federation f
    end.

  (* MessageClientMessage.CheckValid (also ControlClientMessage, which embeds it) *)
  Definition check_message (m : gval) : cres :=
    match as_raw (fld "Data" m) with
    | None => CErr EInvalidFormat
    | Some _ =>
        let rc := fld "Recipient" m in
        let ty := sfld "Type" rc in
        if eqs ty "room" || eqs ty "call" then COk p0
        else if eqs ty "session" then (if eqs (sfld "SessionId" rc) "" then CErr EInvalidFormat else COk p0)
        else if eqs ty "user" then (if eqs (sfld "UserId" rc) "" then CErr EInvalidFormat else COk p0)
        else CErr EInvalidFormat
    end.

  Definition check_common (s : gval) : cres :=
    if eqs (sfld "SessionId" s) "" then CErr EInvalidFormat
    else if eqs (sfld "RoomId" s) "" then CErr EInvalidFormat
    else COk p0.

  Definition check_dialout (d : gval) : cres :=
    let ty := sfld "Type" d in
    if eqs ty "" then CErr EInvalidFormat
    else if eqs ty "error" then (match deref (fld "Error" d) with None => CErr EInvalidFormat | Some _ => COk p0 end)
    else if eqs ty "status" then (match deref (fld "Status" d) with None => CErr EInvalidFormat | Some _ => COk p0 end)
    else COk p0.

  Definition check_sub (f : string) (chk : gval -> cres) (v : gval) : cres :=
    match deref (fld f v) with
    | None => CErr EInvalidFormat
    | Some s => chk s
    end.

  Definition check_internal (i : gval) : cres :=
    let ty := sfld "Type" i in
    if eqs ty "" then CErr EInvalidFormat
    else if eqs ty "addsession" then check_sub "AddSession" check_common i
    else if eqs ty "updatesession" then check_sub "UpdateSession" check_common i
    else if eqs ty "removesession" then check_sub "RemoveSession" check_common i
    else if eqs ty "incall" then check_sub "InCall" (fun _ => COk p0) i
    else if eqs ty "dialout" then check_sub "Dialout" check_dialout i
    else COk p0.

  Definition check_transient (t : gval) : cres :=
    let ty := sfld "Type" t in
    if eqs ty "set" || eqs ty "remove" then
      (if eqs (sfld "Key" t) "" then CErr EInvalidFormat else COk p0)
    else COk p0.

  Definition check_valid (m : gval) : cres :=
    let ty := sfld "Type" m in
    if eqs ty "" then CErr EInvalidFormat
    else if eqs ty "hello" then check_sub "Hello" check_hello m
    else if eqs ty "bye" then COk p0
    else if eqs ty "room" then check_sub "Room" check_room m
    else if eqs ty "message" then check_sub "Message" check_message m
    else if eqs ty "control" then check_sub "Control" check_message m
    else if eqs ty "internal" then check_sub "Internal" check_internal m
    else if eqs ty "transient" then check_sub "TransientData" check_transient m
    else COk p0.

  (* ---- the handlers, up to the first use of the message ----------------------------------------- *)
  Definition msg_id (m : gval) : string := sfld "Id" m.

  (* processHello (+ processHelloClient / processHelloV1 / processHelloV2 / processHelloInternal
     up to the use of the parsed URL) *)
  Definition enter_hello (m : gval) (p : parsed) : verdict :=
    match deref (fld "Hello" m) with
    | None => VPanic                                      (* message.Hello.ResumeId *)
    | Some h =>
        let version := sfld "Version" h in
        let feats := as_strs (fld "Features" h) in
        if negb (eqs (sfld "ResumeId" h) "") then VDispatch [CHello version feats (HResume (sfld "ResumeId" h))]
        else
          match deref (fld "Auth" h) with
          | None => VPanic                                (* message.Hello.Auth.Type *)
          | Some a =>
              let ty := p_auth_type p in
              if eqs ty "client" || eqs ty "federation" then
                if negb (eqs version "1.0" || eqs version "2.0") then VError EInvalidHelloVersion (msg_id m)
                else if negb (p_url p) then VPanic        (* GetBackend(message.Hello.Auth.parsedUrl) *)
                else
                  let params := match as_raw (fld "Params" a) with Some j => j | None => JNull end in
                  VDispatch [CHello version feats
                               (HClient (eqs version "2.0") (eqs ty "federation") (sfld "Url" a) params (sfld "Token" (p_params p)))]
              else if eqs ty "internal" then
                if negb (p_backend p) then VPanic         (* GetBackend(...internalParams.parsedBackend) *)
                else VDispatch [CHello version feats
                                  (HInternal (sfld "Random" (p_params p)) (sfld "Token" (p_params p)) (sfld "Backend" (p_params p)))]
              else VError EInvalidClientType (msg_id m)
          end
    end.

  Definition enter_room (m : gval) (p : parsed) : verdict :=
    match deref (fld "Room" m) with
    | None => VPanic                                      (* message.Room.RoomId *)
    | Some r =>
        let roomid := sfld "RoomId" r in
        if eqs roomid "" then VDispatch [CRoom "" (sfld "SessionId" r) None]   (* leave: the federation member is not looked at *)
        else
          match deref (fld "Federation" r) with
          | None => VDispatch [CRoom roomid (sfld "SessionId" r) None]
          | Some f =>
              if negb (p_fed_sig p) then VPanic           (* NewFederationClient: *room.Federation.parsedSignalingUrl *)
              else VDispatch [CRoom roomid (sfld "SessionId" r)
                                (Some (p_signaling p, sfld "NextcloudUrl" f, sfld "RoomId" f, sfld "Token" f))]
          end
    end.

  (* MessageClientMessageData.CheckValid *)
  Definition valid_stream_type (s : string) : bool := eqs s "audio" || eqs s "video" || eqs s "screen".
  Definition check_mcudata (d : gval) : option errcode :=
    let rt := sfld "RoomType" d in
    if negb (eqs rt "") && negb (valid_stream_type rt) then Some EInvalidFormat
    else if eqs (sfld "Type" d) "offer" || eqs (sfld "Type" d) "answer" then
      match assoc "sdp" (as_map (fld "Payload" d)) with
      | None => Some ENoSdp
      | Some (GIface (JStr s)) => if sdp_ok s then None else Some EInvalidSdp
      | Some _ => Some EInvalidSdp
      end
    else None.

  Definition mem (s : string) (l : list string) : bool := existsb (eqs s) l.

  (* Does what is sent to this recipient reach a session without connection? *)
  Definition reaches_offline (st : session_state) (rtype sid uid : string) : bool :=
    if eqs rtype "session" then mem sid (ss_offline st)
    else if eqs rtype "user" then mem uid (ss_offline_users st)
    else if eqs rtype "room" then ss_inroom st && ss_offline_room st
    else if eqs rtype "call" then ss_inroom st && ss_offline_call st
    else false.

  (* ServerMessage.IsChatRefresh on a "message" with this payload (called by storePendingMessage):
     None = nil dereference.  json.Unmarshal into MessageServerMessageData; an error, another type
     than "chat" or no chat object: false; else data.Chat.Refresh. *)
  Definition is_chat_refresh (data : json) : option bool :=
    match std_unmarshal ty_srvdata data with
    | Err _ => Some false
    | Ok d =>
        if negb (eqs (sfld "Type" d) "chat") || is_nil (fld "Chat" d) then Some false
        else match deref (fld "Chat" d) with
             | None => None                               (* data.Chat.Refresh *)
             | Some c => Some (as_bool (fld "Refresh" c))
             end
    end.

  (* payloads the hub hands to the media server (or turns into a "sendoffer" request) instead of
     forwarding them to the recipient; d = the payload decoded and validated, where the code did that *)
  Definition mcu_consumes (rtype : string) (d : gval) : bool :=
    let t := sfld "Type" d in
    (eqs rtype "session" &&
     (eqs t "requestoffer" || eqs t "offer" || eqs t "answer" || eqs t "endOfCandidates" || eqs t "selectStream" || eqs t "candidate"))
    || eqs t "sendoffer".

  (* "Don't loop messages to the sender": a message / control message whose recipient is the sender's
     own session id, or - a non-empty - user id equal to the sender's, is dropped: the handler returns
     without reply, without handing anything to anybody and - what the locks are about - with every
     lock it took released (processMessageMsg looks its own session up through GetSessionByPublicId,
     processControlMsg compares the ids before it takes Hub.mu). *)
  Definition to_self (st : session_state) (rtype sid uid : string) : bool :=
    (eqs rtype "session" && eqs sid (ss_self st)) ||
    (eqs rtype "user" && negb (eqs uid "") && eqs uid (ss_self_user st)).

  (* payloads to a session id that are handed to the media server before the recipient is looked up *)
  Definition mcu_direct (d : gval) : bool :=
    let t := sfld "Type" d in
    eqs t "requestoffer" || eqs t "offer" || eqs t "answer" || eqs t "endOfCandidates" || eqs t "selectStream" || eqs t "candidate".

  (* A session of this hub is handed the message directly; users, rooms and calls are reached
     through the event bus: the message travels as JSON text inside
     {"type":"message","message":{"type":..,"message":{"sender":..,"data":<data>}}} and is parsed
     again by encoding/json - beyond its nesting limit the publication is lost. *)
  Definition bus_ok (data : json) : bool := Nat.leb (json_depth data + 3) max_nesting.
  Definition delivered (rtype : string) (data : json) : bool := eqs rtype "session" || bus_ok data.

  (* the message is forwarded; where a recipient has no connection it is stored for the resume *)
  Definition forward (st : session_state) (rtype sid uid : string) (data : json) (c : call) : verdict :=
    if reaches_offline st rtype sid uid && delivered rtype data then
      match is_chat_refresh data with
      | None => VPanic
      | Some r => VDispatch [c; CStore r]
      end
    else VDispatch [c].

  Definition enter_message (st : session_state) (m : gval) : verdict :=
    match deref (fld "Message" m) with
    | None => VPanic                                      (* msg.Recipient.Type *)
    | Some mm =>
        let rc := fld "Recipient" mm in
        let ty := sfld "Type" rc in
        let data := match as_raw (fld "Data" mm) with Some j => j | None => JNull end in
        let self := to_self st ty (sfld "SessionId" rc) (sfld "UserId" rc) in
        let plain := if self then VIgnored
                     else forward st ty (sfld "SessionId" rc) (sfld "UserId" rc) data
                            (CMessage ty (sfld "SessionId" rc) (sfld "UserId" rc) data None) in
        let looks_at_payload :=
          ss_mcu st && (eqs ty "session" || ((eqs ty "room" || eqs ty "call") && ss_inroom st)) in
        if looks_at_payload then
          match std_unmarshal ty_mcudata data with
          | Err _ => plain
          | Ok d =>
              match check_mcudata d with
              | Some c => VError c (msg_id m)
              | None =>
                  let c := CMessage ty (sfld "SessionId" rc) (sfld "UserId" rc) data (Some d) in
                  if eqs ty "session" && mcu_direct d then VDispatch [c]     (* also from / to the sender itself: publishing *)
                  else if self then VIgnored
                  else if mcu_consumes ty d then VDispatch [c]
                  else forward st ty (sfld "SessionId" rc) (sfld "UserId" rc) data c
              end
          end
        else plain
    end.

  (* IsChatRefresh of a "control" message is false without looking at the payload *)
  Definition enter_control (st : session_state) (m : gval) : verdict :=
    match deref (fld "Control" m) with
    | None => VPanic                                      (* msg.Recipient.Type (after the permission check, which does not look at msg) *)
    | Some c =>
        let rc := fld "Recipient" c in
        let data := match as_raw (fld "Data" c) with Some j => j | None => JNull end in
        let call := CControl (sfld "Type" rc) (sfld "SessionId" rc) (sfld "UserId" rc) data in
        (* allowed to control or not (the permission is Hub.v's): to the sender itself nothing happens *)
        if to_self st (sfld "Type" rc) (sfld "SessionId" rc) (sfld "UserId" rc) then VIgnored
        else if reaches_offline st (sfld "Type" rc) (sfld "SessionId" rc) (sfld "UserId" rc) && delivered (sfld "Type" rc) data
        then VDispatch [call; CStore false] else VDispatch [call]
    end.

  (* the response handler installed by startDialout; None = nil dereference,
     Some (took, consumed) *)
  Definition response_handler (fixed : bool) (m : gval) : option (option gval * bool) :=
    match deref (fld "Internal" m) with
    | None => if fixed then Some (None, false) else None              (* message.Internal.Dialout *)
    | Some i =>
        let d := fld "Dialout" i in
        if fixed && (negb (eqs (sfld "Type" i) "dialout") || match deref d with None => true | Some _ => false end)
        then Some (None, false)
        else
          match deref d with
          | None => None                                              (* message.Internal.Dialout.Error *)
          | Some dv => Some (Some d, match deref (fld "Error" dv) with Some _ => true | None => false end)
          end
    end.

  Definition internal_switch (m : gval) (pre : list call) : verdict :=
    match deref (fld "Internal" m) with
    | None => VPanic                                      (* msg.Type *)
    | Some i =>
        let ty := sfld "Type" i in
        let sub (f : string) : verdict :=
          match deref (fld f i) with
          | None => VPanic                                (* msg.AddSession.RoomId, ... *)
          | Some s => VDispatch (pre ++ [CInternal ty s])
          end in
        if eqs ty "addsession" then sub "AddSession"
        else if eqs ty "updatesession" then sub "UpdateSession"
        else if eqs ty "removesession" then sub "RemoveSession"
        else if eqs ty "incall" then sub "InCall"
        else if eqs ty "dialout" then
          match deref (fld "Dialout" i) with
          | None => VPanic                                (* msg.Dialout.RoomId *)
          | Some d =>
              if eqs (sfld "Type" d) "status" then
                match deref (fld "Status" d) with
                | None => VPanic                          (* msg.Dialout.Status.CallId *)
                | Some _ => VDispatch (pre ++ [CInternal ty d])
                end
              else VDispatch (pre ++ [CInternal ty d])
          end
        else match pre with [] => VIgnored | _ => VDispatch pre end
    end.

  Definition enter_internal (fixed : bool) (st : session_state) (m : gval) : verdict :=
    match ss_kind st with
    | SInternal =>
        let id := msg_id m in
        if negb (eqs id "") && mem id (ss_pending st) then
          match response_handler fixed m with
          | None => VPanic
          | Some (None, _) => internal_switch m []
          | Some (Some d, true) => VDispatch [CResponse id d]
          | Some (Some d, false) => internal_switch m [CResponse id d]
          end
        else internal_switch m []
    | _ => VIgnored                                       (* "Ignore internal message" *)
    end.

  Definition enter_transient (st : session_state) (m : gval) : verdict :=
    if negb (ss_inroom st) then VError ENotInRoom (msg_id m)
    else
      match deref (fld "TransientData" m) with
      | None => VPanic                                    (* msg.Type *)
      | Some t => VDispatch [CTransient (sfld "Type" t) (sfld "Key" t) (as_raw (fld "Value" t)) (as_int (fld "TTL" t))]
      end.

  Definition enter_proxy (m : gval) : verdict :=
    let ty := sfld "Type" m in
    if eqs ty "message" then
      match deref (fld "Message" m) with
      | None => VPanic                                    (* &message.Message.Recipient *)
      | Some _ => VDispatch [CProxy ty]
      end
    else VDispatch [CProxy ty].

  (* hub.processMessage after CheckValid *)
  Definition dispatch (fixed : bool) (st : session_state) (m : gval) (p : parsed) : verdict :=
    let ty := sfld "Type" m in
    match ss_kind st with
    | SNone => if eqs ty "hello" then enter_hello m p else VError EHelloExpected (msg_id m)
    | _ =>
        let local := eqs ty "room" || eqs ty "hello" || eqs ty "bye" in
        if negb local && ss_federated st then enter_proxy m
        else if eqs ty "room" then enter_room m p
        else if eqs ty "message" then enter_message st m
        else if eqs ty "control" then enter_control st m
        else if eqs ty "internal" then enter_internal fixed st m
        else if eqs ty "transient" then enter_transient st m
        else if eqs ty "bye" then VDispatch [CBye]
        else VIgnored                                     (* hello on an authenticated connection; unknown type *)
    end.

  Definition classify (fx : fixes) (st : session_state) (i : input) : verdict :=
    match i with
    | IOversize => VTooLarge
    | IBinary | IBad => VDecodeError
    | IDoc j =>
        if negb (skipped_ok ty_client j) then VDecodeError else
        match decode ty_client (zero ty_client) j with
        | Err _ => VDecodeError
        | Ok m =>
            match check_valid m with
            | CErr c => VError c (msg_id m)
            | COk p =>
                (* statsMessagesTotal.WithLabelValues(message.Type) *)
                if negb (fx_label fx) && negb (utf8_valid (sfld "Type" m)) then VPanic
                else dispatch (fx_dialout fx) st m p
            end
        end
    end.
End WithOracles.

(* ---- the HTTP handler that waits for the response (backend_server.go startDialout
        after the response handler stored the value) ----------------------------------------------- *)
Inductive api_result := AStatus (code : Z) | ANoReply.   (* ANoReply: the handler panicked, net/http closed the connection *)

Definition api_outcome (d : gval) : api_result :=
  match deref d with
  | None => AStatus 502
  | Some dv =>
      let ty := sfld "Type" dv in
      if eqs ty "error" then AStatus 502
      else if eqs ty "status" then
        match deref (fld "Status" dv) with
        | None => ANoReply                                (* dialout.Status.Status *)
        | Some s => if eqs (sfld "Status" s) "accepted" then AStatus 200 else AStatus 502
        end
      else AStatus 502
  end.

(* ---- what a verdict means for the outside ------------------------------------------------------- *)
Record effect := {
  e_replies : list (string * string);   (* error replies (code, id) sent to the sender by this layer *)
  e_calls : list call;                  (* what the handlers get *)
  e_exit : bool;                        (* the process exits *)
  e_closed : bool                       (* this layer closes the connection *)
}.

Definition effect_of (v : verdict) : effect :=
  match v with
  | VTooLarge => {| e_replies := []; e_calls := []; e_exit := false; e_closed := true |}
  | VDecodeError => {| e_replies := [("invalid_format", "")]; e_calls := []; e_exit := false; e_closed := false |}
  | VError c id => {| e_replies := [(code_text c, id)]; e_calls := []; e_exit := false; e_closed := false |}
  | VIgnored => {| e_replies := []; e_calls := []; e_exit := false; e_closed := false |}
  | VDispatch cs => {| e_replies := []; e_calls := cs; e_exit := false; e_closed := false |}
  | VPanic => {| e_replies := []; e_calls := []; e_exit := true; e_closed := false |}
  end.
