(* Executable model of the media proxy (proxy/proxy_server.go, proxy_session.go,
   proxy_tokens_static.go, api_proxy.go): token acceptance, session and client
   tables, asynchronous creation of publishers/subscribers, cleanup.
   No proofs here.

   Identifiers are numbers:
     connection c  : a websocket connection to /proxy, numbered by the harness
     session   sid : ProxyServer.sid counter (first session = 1)
     object    id  : n-th creation request that reached the media server
                     (the uuid generated in processCommand; the same number is the
                     token of the pending creation)
   Times are nanoseconds (Z).                                                   *)
From Coq Require Import List ZArith NArith Bool String.
From Verif Require Import gen.Params.
Import ListNotations.
Open Scope N_scope.

(* ---- tokens ---------------------------------------------------------------
   What golang-jwt extracts from the token string before anything is decided.
   t_wf     : three segments, header and claims base64+JSON decode, "alg" is a
              string naming a registered signing method (ParseUnverified passes)
   t_sigdec : the signature segment base64-decodes
   t_text / t_sig : identity of the signing input "header.claims" and of the
              signature bytes (arguments of the signature oracle)              *)
Record token := {
  t_wf : bool;
  t_alg : string;
  t_sigdec : bool;
  t_iss : N;
  t_iat : option Z;
  t_exp : option Z;
  t_nbf : option Z;
  t_text : N;
  t_sig : N }.

Inductive err :=
| EHelloExpected | EInvalidFormat | EAuthFailed | ETokenExpired | ETokenNotValidYet
| ENoSuchSession | EUnknownClient | EBadRequest | EUnsupportedPayload
| EInternal | ETimeout | EOtherErr (tag : N).

Inductive reason := RClosed | RExpired | RResumed | ROtherReason (tag : N).

Inductive kind := Pub | Sub.

(* messages the proxy sends on a connection *)
Inductive msg :=
| MHello (sid : N)
| MErr (e : err)
| MBye (r : reason)
| MCmd (id : N)            (* command response carrying a client id *)
| MPayload (id : N)        (* payload response *)
| MEvLoad                  (* event update-load *)
| MEvBackendDisc           (* event backend-disconnected *)
| MOther (tag : N).

Inductive cmd :=
| CCreatePub | CCreateSub
| CCreateSubRemote         (* create-subscriber with remoteUrl + remoteToken (token accepted, subject = publisher id):
                              NewRemotePublisher, then NewRemoteSubscriber; see "remote subscribers" at the end *)
| CDeletePub (id : N) | CDeleteSub (id : N)
| CStreams (id : N)        (* get-publisher-streams *)
| COther.                  (* a command type the proxy does not know *)

Inductive pay := PEnd | PFwd | PBad.   (* endOfCandidates / forwarded to the media server / unknown type *)
Inductive bad := BJson | BNoType | BNoBody.
Inductive mres := MOk | MFail | MTimeout.

(* ---- the close of a session in its phases ----------------------------------
   deleteSessionLocked + ProxySession.Close run in this order; each constructor
   names the window that FOLLOWS the step:
     PhList   : the session was deleted from ProxyServer.sessions, its connection
                detached (SetClient(nil)) and told bye; the session context is alive
     PhCtx    : closeFunc() ran, the session context is cancelled
     PhPubs   : clearPublishers() ran
     PhSubs   : clearSubscribers() ran (Close waits for remotePublishersLock)
     PhRemote : clearRemotePublishers() ran; Close waits in proxy.DeleteSession for
                the write lock of the sessions list (held off by every reader, e.g.
                IterateSessions) and returns
   A slot (w, tok, r) says: the media server finishes creation tok with r while
   the close is in window w.                                                    *)
Inductive phase := PhList | PhCtx | PhPubs | PhSubs | PhRemote.
Definition slot := (phase * N * mres)%type.

Inductive op :=
| OHello (c : N) (now : Z) (t : token)
| OResume (c : N) (sid : N)       (* hello carrying the resume id the server issued for sid *)
| OResumeBad (c : N)              (* hello carrying a resume id the server never issued *)
| OCmd (c : N) (k : cmd)
| OPayload (c : N) (id : N) (p : pay)
| OBye (c : N)
| OUnknownType (c : N)            (* well-formed message of an unknown type *)
| OMalformed (c : N) (b : bad)
| ODrop (c : N)                   (* the client closes the connection *)
| OExpire (sid : N)               (* sid has not been used for sessionExpirationTime; expireSessions runs *)
| OMcuLost                        (* onMcuDisconnected *)
| OMcuDone (tok : N) (r : mres)   (* the media server finishes creation tok *)
| OByeIn (c : N) (sched : list slot)      (* bye; the close runs in phases, the creations of sched complete inside it *)
| OExpireIn (sid : N) (sched : list slot). (* expiry likewise *)

(* ---- state ---------------------------------------------------------------- *)
Record sess := { ss_sid : N; ss_conn : N; ss_pubs : list N; ss_subs : list N }.
Record cst := { cs_sess : option N; cs_closed : bool; cs_busy : bool }.
Record pend := { p_tok : N; p_kind : kind; p_sid : N; p_conn : N }.
Definition entry := (N * kind * N)%type.     (* client id, kind, sid of the creating session *)

Record state := {
  next_sid : N;                (* ProxyServer.sid *)
  next_obj : N;                (* number of creation requests so far *)
  sessions : list sess;        (* ProxyServer.sessions, in order of creation *)
  conns : N -> cst;            (* ProxyClient.session / connection state *)
  clients : list entry;        (* ProxyServer.clients *)
  mopen : list entry;          (* objects open at the media server *)
  pendings : list pend }.      (* NewPublisher / NewSubscriber calls in flight *)

Definition fresh_conn : cst := {| cs_sess := None; cs_closed := false; cs_busy := false |}.
Definition init : state :=
  {| next_sid := 0; next_obj := 0; sessions := []; conns := fun _ => fresh_conn;
     clients := []; mopen := []; pendings := [] |}.

Definition upd_conn (f : N -> cst) (c : N) (v : cst) : N -> cst :=
  fun c' => if N.eqb c' c then v else f c'.

Definition find_sess (sid : N) (l : list sess) : option sess :=
  find (fun s => N.eqb (ss_sid s) sid) l.
Definition upd_sess (sid : N) (f : sess -> sess) (l : list sess) : list sess :=
  map (fun s => if N.eqb (ss_sid s) sid then f s else s) l.
Definition del_sess (sid : N) (l : list sess) : list sess :=
  filter (fun s => negb (N.eqb (ss_sid s) sid)) l.

Definition memN (x : N) (l : list N) : bool := existsb (N.eqb x) l.
Definition delN (x : N) (l : list N) : list N := filter (fun y => negb (N.eqb y x)) l.
Definition e_id (e : entry) : N := fst (fst e).
Definition e_kind (e : entry) : kind := snd (fst e).
Definition e_owner (e : entry) : N := snd e.
Definition find_entry (id : N) (l : list entry) : option entry :=
  find (fun e => N.eqb (e_id e) id) l.
Definition drop_ids (ids : list N) (l : list entry) : list entry :=
  filter (fun e => negb (memN (e_id e) ids)) l.

Definition kind_eqb (a b : kind) : bool :=
  match a, b with Pub, Pub | Sub, Sub => true | _, _ => false end.

Definition str_mem (s : string) (l : list string) : bool := existsb (String.eqb s) l.

(* what is observable on a connection: nothing once it is closed *)
Definition send (st : state) (c : N) (m : msg) : list (N * msg) :=
  if cs_closed (conns st c) then [] else [(c, m)].

(* ProxySession.sendMessage: goes to the connection currently attached to the
   session; a closed session queues the message for ever *)
Definition send_sess (st : state) (sid : N) (m : msg) : list (N * msg) :=
  match find_sess sid (sessions st) with
  | Some s => send st (ss_conn s) m
  | None => []
  end.

(* outcome of one operation: was it executed at all (operations on a closed
   connection, or on a connection whose message loop is blocked in a creation,
   are not), and the messages sent, in order of sending *)
Record outcome := { applied : bool; msgs : list (N * msg) }.
Definition skip (st : state) : state * outcome := (st, {| applied := false; msgs := [] |}).
Definition done (st : state) (l : list (N * msg)) : state * outcome :=
  (st, {| applied := true; msgs := l |}).

Section Oracles.
(* signature verification of the library (crypto/rsa through golang-jwt):
   sigvalid alg key text sig; and the configured issuer -> key table *)
Context (sigvalid : string -> N -> N -> N -> bool).
Context (keys : N -> option N).
(* recheck = true: the repaired code (a creation that completes after the
   session was closed is closed again); false: the code as found *)
Context (recheck : bool).

(* the methods golang-jwt implements with type *SigningMethodRSA (library fact;
   PS256/384/512 are *SigningMethodRSAPSS and fail the type assertion of the key
   function) *)
Definition jwt_rsa_methods : list string := ["RS256"; "RS384"; "RS512"]%string.

(* ---- parseToken: order of checks of jwt.ParseWithClaims (v5.2.2) with
   WithValidMethods, WithIssuedAt, WithLeeway, followed by the age check ------ *)
Definition check_token (now : Z) (t : token) : option err :=
  if negb (t_wf t) then Some EAuthFailed
  else if negb (str_mem (t_alg t) proxy_valid_methods) then Some EAuthFailed
  else if negb (t_sigdec t) then Some EAuthFailed
  else if negb (str_mem (t_alg t) jwt_rsa_methods) then Some EAuthFailed   (* key function: token.Method.( *jwt.SigningMethodRSA) *)
  else match keys (t_iss t) with
  | None => Some EAuthFailed
  | Some k =>
    if negb (sigvalid (t_alg t) k (t_text t) (t_sig t)) then Some EAuthFailed
    else
      let exp_bad := match t_exp t with Some e => negb (now <? e + proxy_tokenLeeway)%Z | None => false end in
      let nbf_bad := match t_nbf t with Some n => (now <? n - proxy_tokenLeeway)%Z | None => false end in
      let iat_bad := match t_iat t with Some i => (now <? i - proxy_tokenLeeway)%Z | None => false end in
      if nbf_bad || iat_bad then Some ETokenNotValidYet
      else if exp_bad then Some ETokenExpired
      else match t_iat t with
           | None => Some ETokenExpired
           | Some i => if (i <? now - (proxy_maxTokenAge + proxy_tokenLeeway))%Z then Some ETokenExpired else None
           end
  end.

(* ---- ProxySession.Close (through DeleteSession / expireSessions) ----------- *)
Definition close_session (st : state) (sid : N) (r : reason) : state * list (N * msg) :=
  match find_sess sid (sessions st) with
  | None => (st, [])
  | Some s =>
      let ids := ss_pubs s ++ ss_subs s in
      let c0 := ss_conn s in
      let out := send st c0 (MBye r) in
      ({| next_sid := next_sid st; next_obj := next_obj st;
          sessions := del_sess sid (sessions st);
          conns := upd_conn (conns st) c0
                     {| cs_sess := None; cs_closed := true; cs_busy := cs_busy (conns st c0) |};
          clients := drop_ids ids (clients st);
          mopen := drop_ids ids (mopen st);
          pendings := pendings st |}, out)
  end.

Definition set_sessions (st : state) (l : list sess) : state :=
  {| next_sid := next_sid st; next_obj := next_obj st; sessions := l; conns := conns st;
     clients := clients st; mopen := mopen st; pendings := pendings st |}.

(* a command or payload of an authenticated connection *)
Definition create (st : state) (c sid : N) (k : kind) : state * outcome :=
  let tok := next_obj st in
  done {| next_sid := next_sid st; next_obj := tok + 1; sessions := sessions st;
          conns := upd_conn (conns st) c
                     {| cs_sess := cs_sess (conns st c); cs_closed := cs_closed (conns st c); cs_busy := true |};
          clients := clients st; mopen := mopen st;
          pendings := pendings st ++ [{| p_tok := tok; p_kind := k; p_sid := sid; p_conn := c |}] |} [].

Definition owns (s : sess) (k : kind) (id : N) : bool :=
  match k with Pub => memN id (ss_pubs s) | Sub => memN id (ss_subs s) end.
Definition forget (k : kind) (id : N) (s : sess) : sess :=
  match k with
  | Pub => {| ss_sid := ss_sid s; ss_conn := ss_conn s; ss_pubs := delN id (ss_pubs s); ss_subs := ss_subs s |}
  | Sub => {| ss_sid := ss_sid s; ss_conn := ss_conn s; ss_pubs := ss_pubs s; ss_subs := delN id (ss_subs s) |}
  end.
Definition remember (k : kind) (id : N) (s : sess) : sess :=
  match k with
  | Pub => {| ss_sid := ss_sid s; ss_conn := ss_conn s; ss_pubs := ss_pubs s ++ [id]; ss_subs := ss_subs s |}
  | Sub => {| ss_sid := ss_sid s; ss_conn := ss_conn s; ss_pubs := ss_pubs s; ss_subs := ss_subs s ++ [id] |}
  end.

(* delete-publisher / delete-subscriber: the id must resolve, be of the right
   kind, and be in the table of the asking session *)
Definition delete (st : state) (c sid : N) (k : kind) (id : N) : state * outcome :=
  match find_entry id (clients st) with
  | None => done st (send st c (MErr EUnknownClient))
  | Some e =>
      if negb (kind_eqb (e_kind e) k) then done st (send st c (MErr EUnknownClient))
      else match find_sess sid (sessions st) with
      | None => done st (send st c (MErr EUnknownClient))
      | Some s =>
          if negb (owns s k id) then done st (send st c (MErr EUnknownClient))
          else
            done {| next_sid := next_sid st; next_obj := next_obj st;
                    sessions := upd_sess sid (forget k id) (sessions st);
                    conns := conns st;
                    clients := drop_ids [id] (clients st);
                    mopen := drop_ids [id] (mopen st);
                    pendings := pendings st |} (send st c (MCmd id))
      end
  end.

Definition command (st : state) (c sid : N) (k : cmd) : state * outcome :=
  match k with
  | CCreatePub => create st c sid Pub
  | CCreateSub => create st c sid Sub
  | CCreateSubRemote => create st c sid Sub    (* one pending creation for both calls at the media server *)
  | CDeletePub id => delete st c sid Pub id
  | CDeleteSub id => delete st c sid Sub id
  | CStreams id =>
      match find_entry id (clients st) with
      | Some e => if kind_eqb (e_kind e) Pub then done st (send st c (MCmd id))
                  else done st (send st c (MErr EUnknownClient))
      | None => done st (send st c (MErr EUnknownClient))
      end
  | COther => done st (send st c (MErr EBadRequest))
  end.

Definition payload (st : state) (c : N) (id : N) (p : pay) : state * outcome :=
  match find_entry id (clients st) with
  | None => done st (send st c (MErr EUnknownClient))
  | Some _ =>
      match p with
      | PEnd | PFwd => done st (send st c (MPayload id))
      | PBad => done st (send st c (MErr EUnsupportedPayload))
      end
  end.

(* messages of a connection: not executed when the connection is closed or
   its message loop is blocked; `k` gets the session bound to the connection *)
Definition on_conn (st : state) (c : N) (k : option N -> state * outcome) : state * outcome :=
  let cs := conns st c in
  if cs_closed cs || cs_busy cs then skip st else k (cs_sess cs).

(* the continuation of create-publisher / create-subscriber *)
Definition mcu_done (st : state) (tok : N) (r : mres) : state * outcome :=
  match find (fun p => N.eqb (p_tok p) tok) (pendings st) with
  | None => done st []
  | Some p =>
      let c := p_conn p in
      let st1 := {| next_sid := next_sid st; next_obj := next_obj st; sessions := sessions st;
                    conns := upd_conn (conns st) c
                               {| cs_sess := cs_sess (conns st c); cs_closed := cs_closed (conns st c); cs_busy := false |};
                    clients := clients st; mopen := mopen st;
                    pendings := filter (fun q => negb (N.eqb (p_tok q) tok)) (pendings st) |} in
      match r with
      | MFail => done st1 (send_sess st1 (p_sid p) (MErr EInternal))
      | MTimeout => done st1 (send_sess st1 (p_sid p) (MErr ETimeout))
      | MOk =>
          let e : entry := (tok, p_kind p, p_sid p) in
          match find_sess (p_sid p) (sessions st1) with
          | Some _ =>
              (* StorePublisher / StoreSubscriber, StoreClient, response *)
              let st2 := {| next_sid := next_sid st1; next_obj := next_obj st1;
                            sessions := upd_sess (p_sid p) (remember (p_kind p) tok) (sessions st1);
                            conns := conns st1;
                            clients := clients st1 ++ [e];
                            mopen := mopen st1 ++ [e];
                            pendings := pendings st1 |} in
              done st2 (send_sess st2 (p_sid p) (MCmd tok))
          | None =>
              (* the session was closed while the media server was working *)
              if recheck then done st1 []      (* stored, found closed, removed and closed again *)
              else done {| next_sid := next_sid st1; next_obj := next_obj st1; sessions := sessions st1;
                           conns := conns st1;
                           clients := clients st1 ++ [e];
                           mopen := mopen st1 ++ [e];
                           pendings := pendings st1 |} []
          end
      end
  end.

(* ---- the close in phases ------------------------------------------------------
   While the close runs the session object still exists (the handlers of creations
   in flight hold a pointer to it); here it stays in `sessions` until the last
   step, with its connection already detached, so the continuation of a creation
   finds its tables.                                                              *)
Definition phase_eqb (a b : phase) : bool :=
  match a, b with
  | PhList, PhList | PhCtx, PhCtx | PhPubs, PhPubs | PhSubs, PhSubs | PhRemote, PhRemote => true
  | _, _ => false
  end.
(* is the session context cancelled in window w *)
Definition cancelled (w : phase) : bool := match w with PhList => false | _ => true end.
Definition is_ok (r : mres) : bool := match r with MOk => true | _ => false end.

(* the request is over: its connection's message loop continues *)
Definition unpend (st : state) (p : pend) : state :=
  let c := p_conn p in
  {| next_sid := next_sid st; next_obj := next_obj st; sessions := sessions st;
     conns := upd_conn (conns st) c
                {| cs_sess := cs_sess (conns st c); cs_closed := cs_closed (conns st c); cs_busy := false |};
     clients := clients st; mopen := mopen st;
     pendings := filter (fun q => negb (N.eqb (p_tok q) (p_tok p))) (pendings st) |}.

(* a completion while session sid is being closed.  Its own successful creation,
   context already cancelled: StoreX + StoreClient, then ctx.Err() != nil:
   DeleteX, DeleteClient, Close of the object - nothing remains (repaired code).
   Context still alive (or code as found): stored in the tables of the closing
   session like for a live one; the answer is queued in the detached session.
   Creations of other sessions, failures and timeouts: as always.                *)
Definition mcu_done_in (canc : bool) (sid : N) (st : state) (tok : N) (r : mres) : state * outcome :=
  match find (fun p => N.eqb (p_tok p) tok) (pendings st) with
  | Some p =>
      if N.eqb (p_sid p) sid && is_ok r && canc && recheck then done (unpend st p) []
      else mcu_done st tok r
  | None => mcu_done st tok r
  end.

(* the completions scheduled for window w, in the order of the schedule *)
Fixpoint window (w : phase) (sid : N) (sched : list slot) (st : state) : state * list (N * msg) :=
  match sched with
  | [] => (st, [])
  | (w', tok, r) :: rest =>
      if phase_eqb w' w then
        let '(st1, o1) := mcu_done_in (cancelled w) sid st tok r in
        let '(st2, m2) := window w sid rest st1 in
        (st2, msgs o1 ++ m2)
      else window w sid rest st
  end.

Definition tab (k : kind) (s : sess) : list N := match k with Pub => ss_pubs s | Sub => ss_subs s end.
Definition clear_tab (k : kind) (s : sess) : sess :=
  match k with
  | Pub => {| ss_sid := ss_sid s; ss_conn := ss_conn s; ss_pubs := []; ss_subs := ss_subs s |}
  | Sub => {| ss_sid := ss_sid s; ss_conn := ss_conn s; ss_pubs := ss_pubs s; ss_subs := [] |}
  end.
(* clearPublishers / clearSubscribers: what the table holds now is unregistered and closed *)
Definition clear_kind (k : kind) (sid : N) (st : state) : state :=
  match find_sess sid (sessions st) with
  | None => st
  | Some s =>
      {| next_sid := next_sid st; next_obj := next_obj st;
         sessions := upd_sess sid (clear_tab k) (sessions st);
         conns := conns st;
         clients := drop_ids (tab k s) (clients st);
         mopen := drop_ids (tab k s) (mopen st);
         pendings := pendings st |}
  end.

Definition close_phased (st : state) (sid : N) (r : reason) (sched : list slot) : state * list (N * msg) :=
  match find_sess sid (sessions st) with
  | None => (st, [])
  | Some s =>
      let c0 := ss_conn s in
      let out0 := send st c0 (MBye r) in
      let st0 := {| next_sid := next_sid st; next_obj := next_obj st; sessions := sessions st;
                    conns := upd_conn (conns st) c0
                               {| cs_sess := None; cs_closed := true; cs_busy := cs_busy (conns st c0) |};
                    clients := clients st; mopen := mopen st; pendings := pendings st |} in
      let '(st1, m1) := window PhList sid sched st0 in
      let '(st2, m2) := window PhCtx sid sched st1 in
      let '(st3, m3) := window PhPubs sid sched (clear_kind Pub sid st2) in
      let '(st4, m4) := window PhSubs sid sched (clear_kind Sub sid st3) in
      let '(st5, m5) := window PhRemote sid sched st4 in
      (set_sessions st5 (del_sess sid (sessions st5)), out0 ++ m1 ++ m2 ++ m3 ++ m4 ++ m5)
  end.

Definition all_ids (l : list sess) : list N := flat_map (fun s => ss_pubs s ++ ss_subs s) l.
Definition clear_sess (s : sess) : sess :=
  {| ss_sid := ss_sid s; ss_conn := ss_conn s; ss_pubs := []; ss_subs := [] |}.

Definition step (st : state) (o : op) : state * outcome :=
  match o with
  | OHello c now t =>
      on_conn st c (fun b =>
        match b with
        | Some _ => done st (send st c (MErr EBadRequest))
        | None =>
            match check_token now t with
            | Some e => done st (send st c (MErr e))
            | None =>
                let sid := next_sid st + 1 in
                done {| next_sid := sid; next_obj := next_obj st;
                        sessions := sessions st ++ [{| ss_sid := sid; ss_conn := c; ss_pubs := []; ss_subs := [] |}];
                        conns := upd_conn (conns st) c {| cs_sess := Some sid; cs_closed := false; cs_busy := false |};
                        clients := clients st; mopen := mopen st; pendings := pendings st |}
                     [(c, MHello sid); (c, MEvLoad)]
            end
        end)
  | OResume c sid =>
      on_conn st c (fun b =>
        match b with
        | Some _ => done st (send st c (MErr EBadRequest))
        | None =>
            match find_sess sid (sessions st) with
            | None => done st (send st c (MErr ENoSuchSession))
            | Some s =>
                let c0 := ss_conn s in
                (* load to the old connection, SetClient, bye to the old connection *)
                let out0 := send st c0 MEvLoad ++ send st c0 (MBye RResumed) in
                let conns1 := upd_conn (conns st) c0
                                {| cs_sess := None; cs_closed := true; cs_busy := cs_busy (conns st c0) |} in
                let conns2 := upd_conn conns1 c {| cs_sess := Some sid; cs_closed := false; cs_busy := false |} in
                done {| next_sid := next_sid st; next_obj := next_obj st;
                        sessions := upd_sess sid (fun s => {| ss_sid := ss_sid s; ss_conn := c; ss_pubs := ss_pubs s; ss_subs := ss_subs s |}) (sessions st);
                        conns := conns2;
                        clients := clients st; mopen := mopen st; pendings := pendings st |}
                     (out0 ++ [(c, MHello sid); (c, MEvLoad)])
            end
        end)
  | OResumeBad c =>
      on_conn st c (fun b =>
        match b with
        | Some _ => done st (send st c (MErr EBadRequest))
        | None => done st (send st c (MErr ENoSuchSession))
        end)
  | OCmd c k =>
      on_conn st c (fun b =>
        match b with
        | None => done st (send st c (MErr EHelloExpected))
        | Some sid => command st c sid k
        end)
  | OPayload c id p =>
      on_conn st c (fun b =>
        match b with
        | None => done st (send st c (MErr EHelloExpected))
        | Some _ => payload st c id p
        end)
  | OBye c =>
      on_conn st c (fun b =>
        match b with
        | None => done st (send st c (MErr EHelloExpected))
        | Some sid => let '(st', out) := close_session st sid RClosed in done st' out
        end)
  | OUnknownType c =>
      on_conn st c (fun b =>
        match b with
        | None => done st (send st c (MErr EHelloExpected))
        | Some _ => done st (send st c (MErr EBadRequest))
        end)
  | OMalformed c _ =>
      on_conn st c (fun _ => done st (send st c (MErr EInvalidFormat)))
  | ODrop c =>
      if cs_closed (conns st c) then skip st
      else done {| next_sid := next_sid st; next_obj := next_obj st; sessions := sessions st;
                   conns := upd_conn (conns st) c
                              {| cs_sess := cs_sess (conns st c); cs_closed := true; cs_busy := cs_busy (conns st c) |};
                   clients := clients st; mopen := mopen st; pendings := pendings st |} []
  | OExpire sid =>
      let '(st', out) := close_session st sid RExpired in done st' out
  | OMcuLost =>
      let ids := all_ids (sessions st) in
      done {| next_sid := next_sid st; next_obj := next_obj st;
              sessions := map clear_sess (sessions st);
              conns := conns st;
              clients := drop_ids ids (clients st);
              mopen := drop_ids ids (mopen st);
              pendings := pendings st |}
           (flat_map (fun s => send st (ss_conn s) MEvBackendDisc) (sessions st))
  | OMcuDone tok r => mcu_done st tok r
  | OByeIn c sched =>
      on_conn st c (fun b =>
        match b with
        | None => done st (send st c (MErr EHelloExpected))
        | Some sid => let '(st', out) := close_phased st sid RClosed sched in done st' out
        end)
  | OExpireIn sid sched =>
      let '(st', out) := close_phased st sid RExpired sched in done st' out
  end.

End Oracles.

(* ---- remote subscribers (create-subscriber with remoteUrl + remoteToken) -------
   processCommand first asks the media server for the remote publisher of the
   stream (NewRemotePublisher: reference-counted, the creator holds one reference),
   then attaches the subscriber to it (NewRemoteSubscriber: the subscriber takes
   its own reference and gives it back, once, when it is closed), and gives the
   creator's reference back on every way out of the handler (a `defer`).  The
   remote publisher is closed at the media server when its count reaches 0; it is
   in no table of the session - the only thing that keeps it open, and the only
   thing whose Close closes it, is its subscriber.

   In `step` a remote create-subscriber is the same operation as a local one
   (OCmd c CCreateSub; one completion OMcuDone tok r for the whole continuation,
   r = MFail / MTimeout for a failure of either call): below are the reference
   operations the continuation performs for each outcome, and the proofs
   (Proxy_proofs.v, lemmas remote_refs_handler etc.) that afterwards the remote publisher is open
   exactly when its subscriber is, holding exactly the subscriber's reference.
   That is what lets one entry (tok, Sub, sid) of `mopen` stand for the pair; the
   harness lists a remote publisher that is still referenced under its creation
   request tok, so it shows on its own exactly when it is open without its
   subscriber.                                                                   *)
Inductive rres := RROk | RRPubFail | RRPubTimeout | RRSubFail | RRSubTimeout.
Definition rres_mres (r : rres) : mres :=
  match r with
  | RROk => MOk
  | RRPubFail | RRSubFail => MFail
  | RRPubTimeout | RRSubTimeout => MTimeout
  end.

Inductive refop :=
| RNew        (* NewRemotePublisher succeeded: the publisher exists, count 1 *)
| RAttach     (* NewRemoteSubscriber succeeded: the subscriber's reference *)
| RRelease.   (* Close of the remote publisher: one reference back, closed at 0 *)

(* None: no remote publisher open at the media server; Some n: open, n references *)
Definition apply_ref (n : option N) (o : refop) : option N :=
  match o, n with
  | RNew, None => Some 1
  | RAttach, Some k => Some (k + 1)
  | RRelease, Some k => if N.eqb k 1 then None else Some (k - 1)
  | _, _ => n
  end.
Definition refs_after (l : list refop) : option N := fold_left apply_ref l None.

(* the continuation of the handler.  release_always = true: the code (the
   creator's reference goes back on every exit after NewRemotePublisher
   succeeded); false: only after NewRemoteSubscriber succeeded as well *)
Definition handler_refops (release_always : bool) (r : rres) : list refop :=
  match r with
  | RRPubFail | RRPubTimeout => []
  | RRSubFail | RRSubTimeout => RNew :: (if release_always then [RRelease] else [])
  | RROk => [RNew; RAttach; RRelease]
  end.

(* the Close of the subscriber (delete-subscriber, clearSubscribers at the end of
   the session or when the media server is lost, or at once when the session was
   found closed after storing): exists only when the request succeeded *)
Definition sub_close_refops (r : rres) : list refop :=
  match r with RROk => [RRelease] | _ => [] end.
