(* Executable model of the checksum functions of api_backend.go
   (CalculateBackendChecksum, ValidateBackendChecksumValue, newRandomString,
   AddBackendChecksum).  No proofs here.

   Byte strings are Coq strings (lists of 8-bit characters).  HMAC-SHA256 is
   not modelled: `hmac key msg` is a parameter of every function that needs it
   (an oracle; theorems quantify over it, cases files instantiate it with the
   values computed by crypto/hmac for exactly the strings that occur).
   hex.EncodeToString is modelled concretely (lower-case, two digits a byte). *)
From Coq Require Import List NArith Bool String Ascii Arith.
Import ListNotations.
Local Open Scope string_scope.

Definition bytes := string.

Definition is_empty (s : bytes) : bool :=
  match s with EmptyString => true | String _ _ => false end.

(* ---- encoding/hex -------------------------------------------------------- *)
Definition hexdigit (n : N) : ascii :=
  ascii_of_N (if (n <? 10)%N then 48 + n else 87 + n).     (* "0".."9", "a".."f" *)

Definition hex_byte (c : ascii) (rest : string) : string :=
  let n := N_of_ascii c in
  String (hexdigit (n / 16)) (String (hexdigit (n mod 16)) rest).

Fixpoint hex (s : bytes) : string :=
  match s with
  | EmptyString => EmptyString
  | String c r => hex_byte c (hex r)
  end.

(* value of a hexadecimal digit; upper-case letters are digits for the decoder
   (as for hex.DecodeString), anything else decodes as 0: only used to read the
   hexadecimal literals of generated cases files and to state that `hex` has a
   left inverse *)
Definition hexval (c : ascii) : N :=
  let n := N_of_ascii c in
  if ((48 <=? n) && (n <=? 57))%N then n - 48
  else if ((97 <=? n) && (n <=? 102))%N then n - 87
  else if ((65 <=? n) && (n <=? 70))%N then n - 55
  else 0.

Fixpoint unhex (s : string) : bytes :=
  match s with
  | String a (String b r) => String (ascii_of_N (hexval a * 16 + hexval b)) (unhex r)
  | _ => EmptyString
  end.

(* ---- CalculateBackendChecksum / ValidateBackendChecksumValue -------------- *)
Section Checksum.
  Context (hmac : bytes -> bytes -> bytes).       (* key, message -> 32 bytes *)

  (* mac.Write(random); mac.Write(body): the MAC input is the plain concatenation *)
  Definition calculate (rnd body secret : bytes) : string :=
    hex (hmac secret (rnd ++ body)).

  (* the property's acceptance condition *)
  Definition valid (chk rnd body secret : bytes) : Prop :=
    chk = hex (hmac secret (rnd ++ body)).

  (* subtle.ConstantTimeCompare(verify, checksum) == 1: equal length and equal bytes *)
  Definition validb (chk rnd body secret : bytes) : bool :=
    String.eqb (calculate rnd body secret) chk.
End Checksum.

(* ---- outgoing direction: newRandomString / AddBackendChecksum -------------
   crypto/rand is an oracle: `rand i` is the i-th byte the reader delivers to
   this call.  rand.Read fills the whole buffer or the process panics. *)
Definition rand_read (rand : nat -> ascii) (n : nat) : bytes :=
  string_of_list_ascii (map rand (seq 0 n)).

Definition new_random_string (rand : nat -> ascii) (len : nat) : string :=
  hex (rand_read rand (len / 2)).

(* the literal argument of newRandomString in AddBackendChecksum *)
Definition outgoing_random_len : nat := 64.

(* the two headers set on an outgoing request: (Spreed-Signaling-Random, Spreed-Signaling-Checksum) *)
Definition add_backend_checksum (hmac : bytes -> bytes -> bytes) (rand : nat -> ascii)
           (body secret : bytes) : string * string :=
  let rnd := new_random_string rand outgoing_random_len in
  (rnd, calculate hmac rnd body secret).
