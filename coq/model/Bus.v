(* Executable model of the event bus: async_events.go, async_events_nats.go,
   natsclient_loopback.go, natsclient.go (GetEncodedSubject).  No proofs here.

   Granularity: one op = one critical section of the code (or one lock-free
   action between two critical sections).  Every goroutine scheduling decision
   is an op, so "every interleaving" = "every op list".

   The model follows the code after fixes/C20/01 (listeners are visited from a
   snapshot taken under the subscriber's mutex; membership is re-checked before
   each callback). *)
From Coq Require Import List Arith NArith Bool String Ascii.
Import ListNotations.

(* ======================================================================== *)
(* 1. Subjects                                                              *)
(* ======================================================================== *)

(* ---- encoding/base64.StdEncoding.EncodeToString, modelled concretely ---- *)
Definition b64_alphabet : string :=
  "ABCDEFGHIJKLMNOPQRSTUVWXYZabcdefghijklmnopqrstuvwxyz0123456789+/".

(* 0..63: the alphabet; anything else (the model uses 64): the padding sign *)
Definition b64_char (n : nat) : ascii :=
  match String.get n b64_alphabet with Some c => c | None => "="%char end.

(* bytes -> sextets (64 = padding) *)
Fixpoint b64_sextets (l : list nat) : list nat :=
  match l with
  | [] => []
  | [a] => [a / 4; (a mod 4) * 16; 64; 64]
  | [a; b] => [a / 4; (a mod 4) * 16 + b / 16; (b mod 16) * 4; 64]
  | a :: b :: c :: r =>
      a / 4 :: (a mod 4) * 16 + b / 16 :: (b mod 16) * 4 + c / 64 :: c mod 64 :: b64_sextets r
  end.

Definition bytes_of (s : string) : list nat := map nat_of_ascii (list_ascii_of_string s).

Definition b64 (s : string) : string :=
  string_of_list_ascii (map b64_char (b64_sextets (bytes_of s))).

(* ---- the four subject kinds and their key construction ------------------ *)
Inductive kind := KBackendRoom | KRoom | KUser | KSession.

Definition kind_eqb (a b : kind) : bool :=
  match a, b with
  | KBackendRoom, KBackendRoom | KRoom, KRoom | KUser, KUser | KSession, KSession => true
  | _, _ => false
  end.

(* what a caller names: a kind, an id (room id, user id, session id) and the
   backend; None = nil backend or the compat backend (Backend.IsCompat) *)
Record target := T { tkind : kind; tid : string; tbackend : option string }.

Definition prefix (k : kind) : string :=
  match k with
  | KBackendRoom => "backend.room"
  | KRoom => "room"
  | KUser => "user"
  | KSession => "session"
  end.

(* roomId  or  roomId + "|" + backend.Id() *)
Definition suffix (t : target) : string :=
  match tbackend t with
  | None => tid t
  | Some b => tid t ++ "|" ++ b
  end.

(* GetSubjectForBackendRoomId / RoomId / UserId : GetEncodedSubject(prefix, suffix)
   GetSubjectForSessionId : "session." + sessionId (backend ignored, no encoding) *)
Definition subject_of (t : target) : string :=
  match tkind t with
  | KSession => "session." ++ tid t
  | k => prefix k ++ "." ++ b64 (suffix t)
  end.

(* LoopbackNatsClient.Subscribe / Publish:
   strings.HasSuffix(subject, ".") || strings.Contains(subject, " ") *)
Fixpoint ends_with_dot (s : string) : bool :=
  match s with
  | EmptyString => false
  | String c EmptyString => Ascii.eqb c "."%char
  | String _ r => ends_with_dot r
  end.
Fixpoint contains_char (c : ascii) (s : string) : bool :=
  match s with
  | EmptyString => false
  | String d r => Ascii.eqb c d || contains_char c r
  end.
Definition bad_subject (s : string) : bool := ends_with_dot s || contains_char " "%char s.

(* ======================================================================== *)
(* 2. The bus                                                               *)
(* ======================================================================== *)

Definition lid := N.   (* a listener object (Go: interface value, compared by identity) *)
Definition msg := N.   (* a published message (identified by its payload) *)

(* make(chan *nats.Msg, 64) in newAsyncSubscriberNats *)
Definition chan_cap : nat := 64.

(* one asyncSubscriberNats + its async<Kind>Subscriber + its loopback subscription *)
Record sub := mkSub {
  skind : kind;                       (* which of the four maps of asyncEventsNats holds it *)
  skey : string;                      (* subject *)
  chan : list msg;                    (* receiver channel, oldest first *)
  ls : list lid;                      (* listeners map *)
  infl : option (msg * list lid);     (* message being processed, snapshot entries still to visit *)
  cur : option lid;                   (* listener chosen for the next callback (mutex released) *)
  opened : bool;                      (* still in the map of asyncEventsNats (closeChan not closed) *)
  live : bool;                        (* still in LoopbackNatsClient.subscriptions *)
  running : bool                      (* goroutine run() has not returned *)
}.

Record st := mkSt {
  q : list (string * msg);                     (* LoopbackNatsClient.incoming *)
  disp : option (string * msg * list nat);     (* processMessage: message taken, channels still to send to *)
  subs : list sub;                             (* every subscriber ever created, by creation order *)
  emu : option (nat * lid);                    (* asyncEventsNats.mu held by a Register that created a
                                                  subscriber and has not yet added its listener *)
  dlog : list (nat * lid * msg);               (* callbacks made: subscriber, listener, message *)
  drops : list (nat * msg)                     (* "Slow consumer, dropping message" *)
}.

Definition init : st := mkSt [] None [] None [] [].

Inductive op :=
| Publish (t : target) (m : msg)     (* Publish*Message: LoopbackNatsClient.Publish critical section *)
| Dispatch                           (* processMessages: pop front, collect the channels (under mu) *)
| Send (i : nat)                     (* processMessage: non-blocking send to one collected channel *)
| Begin (i : nat)                    (* run(): receive from the channel; process*: snapshot under mu *)
| Pick (i : nat) (l : lid)           (* process*: next snapshot entry, membership check under mu *)
| Call (i : nat)                     (* process*: the callback, no lock held *)
| End_ (i : nat)                     (* process*: snapshot exhausted *)
| Register (t : target) (l : lid)    (* Register*Listener up to and including Subscribe / addListener *)
| RegFinish                          (* ... addListener of a freshly created subscriber, mu released *)
| Unregister (t : target) (l : lid)  (* Unregister*Listener *)
| Exit (i : nat).                    (* run(): closeChan selected; deferred Unsubscribe *)

Fixpoint upd {A} (i : nat) (f : A -> A) (l : list A) : list A :=
  match l, i with
  | [], _ => []
  | a :: r, O => f a :: r
  | a :: r, S j => a :: upd j f r
  end.

Definition set_chan c (x : sub) := mkSub (skind x) (skey x) c (ls x) (infl x) (cur x) (opened x) (live x) (running x).
Definition set_ls l (x : sub) := mkSub (skind x) (skey x) (chan x) l (infl x) (cur x) (opened x) (live x) (running x).
Definition set_infl f (x : sub) := mkSub (skind x) (skey x) (chan x) (ls x) f (cur x) (opened x) (live x) (running x).
Definition set_cur c (x : sub) := mkSub (skind x) (skey x) (chan x) (ls x) (infl x) c (opened x) (live x) (running x).
Definition set_opened b (x : sub) := mkSub (skind x) (skey x) (chan x) (ls x) (infl x) (cur x) b (live x) (running x).
Definition set_gone (x : sub) := mkSub (skind x) (skey x) (chan x) (ls x) (infl x) (cur x) (opened x) false false.

Definition memb (l : lid) (xs : list lid) : bool := existsb (N.eqb l) xs.
Definition remove_l (l : lid) (xs : list lid) : list lid := filter (fun y => negb (N.eqb l y)) xs.
Definition memn (i : nat) (xs : list nat) : bool := existsb (Nat.eqb i) xs.
Definition remove_n (i : nat) (xs : list nat) : list nat := filter (fun y => negb (Nat.eqb i y)) xs.

(* s.listeners[listener] = true *)
Definition add_listener (l : lid) (x : sub) : sub :=
  if memb l (ls x) then x else set_ls (ls x ++ [l]) x.

(* the channels LoopbackNatsClient.processMessage collects for a subject *)
Fixpoint targets_from (s : string) (l : list sub) (k : nat) : list nat :=
  match l with
  | [] => []
  | x :: r => if String.eqb (skey x) s && live x then k :: targets_from s r (S k)
              else targets_from s r (S k)
  end.
Definition targets (s : string) (l : list sub) : list nat := targets_from s l 0.

(* e.<kind>Subscriptions[key] *)
Fixpoint find_open (k : kind) (s : string) (l : list sub) (n : nat) : option nat :=
  match l with
  | [] => None
  | x :: r => if kind_eqb (skind x) k && String.eqb (skey x) s && opened x then Some n
              else find_open k s r (S n)
  end.

Definition new_sub (k : kind) (s : string) : sub := mkSub k s [] [] None None true true true.

(* the dispatcher is between two messages *)
Definition disp_idle (t : st) : bool :=
  match disp t with None => true | Some (_, _, []) => true | Some _ => false end.

(* precondition of each op; a call whose precondition is false waits (mutex)
   or, for internal steps, is simply not what the goroutine does next *)
Definition enabled (t : st) (o : op) : bool :=
  match o with
  | Publish _ _ => true
  | Dispatch => disp_idle t && match q t with [] => false | _ => true end
  | Send i => match disp t with Some (_, _, tg) => memn i tg | None => false end
  | Begin i =>
      match nth_error (subs t) i with
      | Some x => running x && match infl x, cur x, chan x with None, None, _ :: _ => true | _, _, _ => false end
      | None => false
      end
  | Pick i l =>
      match nth_error (subs t) i with
      | Some x => match infl x, cur x with Some (_, vis), None => memb l vis | _, _ => false end
      | None => false
      end
  | Call i =>
      match nth_error (subs t) i with
      | Some x => match infl x, cur x with Some _, Some _ => true | _, _ => false end
      | None => false
      end
  | End_ i =>
      match nth_error (subs t) i with
      | Some x => match infl x, cur x with Some (_, []), None => true | _, _ => false end
      | None => false
      end
  | Register _ _ | Unregister _ _ => match emu t with None => true | Some _ => false end
  | RegFinish => match emu t with None => false | Some _ => true end
  | Exit i =>
      match nth_error (subs t) i with
      | Some x => running x && negb (opened x) &&
                  match infl x, cur x with None, None => true | _, _ => false end
      | None => false
      end
  end.

Definition step (t : st) (o : op) : st :=
  if negb (enabled t o) then t else
  match o with
  | Publish tg m =>
      let s := subject_of tg in
      if bad_subject s then t                                   (* nats.ErrBadSubject *)
      else mkSt (q t ++ [(s, m)]) (disp t) (subs t) (emu t) (dlog t) (drops t)
  | Dispatch =>
      match q t with
      | (s, m) :: r => mkSt r (Some (s, m, targets s (subs t))) (subs t) (emu t) (dlog t) (drops t)
      | [] => t
      end
  | Send i =>
      match disp t with
      | Some (s, m, tg) =>
          let d' := Some (s, m, remove_n i tg) in
          match nth_error (subs t) i with
          | Some x =>
              if List.length (chan x) <? chan_cap
              then mkSt (q t) d' (upd i (set_chan (chan x ++ [m])) (subs t)) (emu t) (dlog t) (drops t)
              else mkSt (q t) d' (subs t) (emu t) (dlog t) (drops t ++ [(i, m)])   (* select default *)
          | None => mkSt (q t) d' (subs t) (emu t) (dlog t) (drops t)
          end
      | None => t
      end
  | Begin i =>
      match nth_error (subs t) i with
      | Some x =>
          match chan x with
          | m :: c => mkSt (q t) (disp t) (upd i (fun x => set_infl (Some (m, ls x)) (set_chan c x)) (subs t))
                           (emu t) (dlog t) (drops t)
          | [] => t
          end
      | None => t
      end
  | Pick i l =>
      match nth_error (subs t) i with
      | Some x =>
          match infl x with
          | Some (m, vis) =>
              let x1 := set_infl (Some (m, remove_l l vis)) x in
              let x2 := if memb l (ls x) then set_cur (Some l) x1 else x1 in  (* removed meanwhile: skipped *)
              mkSt (q t) (disp t) (upd i (fun _ => x2) (subs t)) (emu t) (dlog t) (drops t)
          | None => t
          end
      | None => t
      end
  | Call i =>
      match nth_error (subs t) i with
      | Some x =>
          match infl x, cur x with
          | Some (m, _), Some l =>
              mkSt (q t) (disp t) (upd i (set_cur None) (subs t)) (emu t) (dlog t ++ [(i, l, m)]) (drops t)
          | _, _ => t
          end
      | None => t
      end
  | End_ i => mkSt (q t) (disp t) (upd i (set_infl None) (subs t)) (emu t) (dlog t) (drops t)
  | Register tg l =>
      let k := tkind tg in
      let s := subject_of tg in
      match find_open k s (subs t) 0 with
      | Some i => mkSt (q t) (disp t) (upd i (add_listener l) (subs t)) (emu t) (dlog t) (drops t)
      | None =>
          if bad_subject s then t                               (* Subscribe: nats.ErrBadSubject *)
          else mkSt (q t) (disp t) (subs t ++ [new_sub k s]) (Some (List.length (subs t), l)) (dlog t) (drops t)
      end
  | RegFinish =>
      match emu t with
      | Some (i, l) => mkSt (q t) (disp t) (upd i (add_listener l) (subs t)) None (dlog t) (drops t)
      | None => t
      end
  | Unregister tg l =>
      match find_open (tkind tg) (subject_of tg) (subs t) 0 with
      | Some i =>
          mkSt (q t) (disp t)
               (upd i (fun x => let l' := remove_l l (ls x) in
                                match l' with
                                | [] => set_opened false (set_ls l' x)   (* delete from the map; close() *)
                                | _ => set_ls l' x
                                end) (subs t))
               (emu t) (dlog t) (drops t)
      | None => t
      end
  | Exit i => mkSt (q t) (disp t) (upd i set_gone (subs t)) (emu t) (dlog t) (drops t)
  end.

Definition run (ops : list op) (t : st) : st := fold_left step ops t.

(* what a caller of the API observes *)
Inductive res := ROk | RBadSubject | RWait.

Definition result (t : st) (o : op) : res :=
  match o with
  | Publish tg _ => if bad_subject (subject_of tg) then RBadSubject else ROk
  | Register tg _ =>
      match emu t with
      | Some _ => RWait
      | None =>
          match find_open (tkind tg) (subject_of tg) (subs t) 0 with
          | Some _ => ROk
          | None => if bad_subject (subject_of tg) then RBadSubject else ROk
          end
      end
  | Unregister _ _ => match emu t with Some _ => RWait | None => ROk end
  | _ => ROk
  end.
