(* Executable model of transient_data.go (TransientData).  No proofs here.

   One model, two variants selected by [fixed : bool]:
     fixed = true   the code with fixes/C14/01-stale-ttl-timer.patch applied
                    (every request on a key stops and forgets the pending timer
                    of that key; the timer callback acts only if it still is the
                    timer registered for its key)
     fixed = false  the code as it was (updateTTL deletes the map entry without
                    Stop, removeAfterTTL returns early for ttl <= 0, the callback
                    compares only the value)

   Every exported method of TransientData is one critical section on
   TransientData.mu (gen/LockProgs.v), notifications are sent while it is held,
   so a method call is one atomic step.  Timers are first-class objects. *)
From Coq Require Import List ZArith NArith Bool.
Import ListNotations.
Open Scope Z_scope.

(* ---- JSON values ------------------------------------------------------------
   What encoding/json produces for interface{} (nil, bool, float64, string,
   []interface{}, map[string]interface{}), plus json.RawMessage (the type the
   hub hands to the store: compared byte-wise by reflect.DeepEqual).  Arrays and
   objects are cons cells so that the type is not nested; objects are kept
   sorted by key by whoever builds them (the harness), which makes structural
   equality the equality of maps.  Numbers: the float64 value times 1000.
   Strings and raw byte strings: an index into the harness's string table. *)
Inductive json :=
| JNull | JBool (b : bool) | JNum (milli : Z) | JStr (s : N) | JRaw (bytes : N)
| JANil | JACons (hd tl : json)
| JONil | JOCons (k : N) (v tl : json).

Fixpoint json_eqb (a b : json) : bool :=
  match a, b with
  | JNull, JNull => true
  | JBool x, JBool y => Bool.eqb x y
  | JNum x, JNum y => Z.eqb x y
  | JStr x, JStr y => N.eqb x y
  | JRaw x, JRaw y => N.eqb x y
  | JANil, JANil => true
  | JACons h t, JACons h' t' => json_eqb h h' && json_eqb t t'
  | JONil, JONil => true
  | JOCons k v t, JOCons k' v' t' => N.eqb k k' && json_eqb v v' && json_eqb t t'
  | _, _ => false
  end.

(* ---- the store: key -> value, kept sorted by key ----------------------------- *)
Notation key := N (only parsing).
Notation lid := N (only parsing).          (* a listener (a session of the room) *)
Definition dmap := list (key * json).

Fixpoint dget (m : dmap) (k : key) : option json :=
  match m with
  | [] => None
  | (k', v) :: r => if N.eqb k k' then Some v else dget r k
  end.
Fixpoint dset (m : dmap) (k : key) (v : json) : dmap :=
  match m with
  | [] => [(k, v)]
  | (k', v') :: r =>
      if N.ltb k k' then (k, v) :: m
      else if N.eqb k k' then (k, v) :: r
      else (k', v') :: dset r k v
  end.
Definition ddel (m : dmap) (k : key) : dmap := filter (fun e => negb (N.eqb k (fst e))) m.

(* ---- messages to listeners ----------------------------------------------------- *)
Inductive msg :=
| MInitial (d : dmap)                              (* type "initial": the whole map *)
| MSet (k : key) (old : option json) (v : json)    (* type "set" *)
| MRemove (k : key) (old : json).                  (* type "remove" *)

Arguments MSet k%N old v.
Arguments MRemove k%N old.

(* ---- timers ---------------------------------------------------------------------
   Armed   : created by time.AfterFunc, not yet run, not stopped
   Stopped : Stop() was called before the callback ran (or, schedule FireLate,
             after it had already started and was waiting for the mutex)
   Fired   : the callback has run *)
Inductive tstate := Armed | Stopped | Fired.
Record timer := mkTimer { t_key : key; t_val : json; t_deadline : Z; t_state : tstate }.

Record state := mkSt {
  data      : dmap;
  listeners : list lid;
  tmap      : key -> option nat;        (* TransientData.timers: key -> timer id *)
  timers    : list timer;               (* every timer ever created; id = index *)
  now       : Z                         (* nanoseconds *)
}.
Definition init : state := mkSt [] [] (fun _ => None) [] 0.

Definition upd {A} (f : key -> option A) (k : key) (v : option A) : key -> option A :=
  fun k' => if N.eqb k' k then v else f k'.

Fixpoint set_state (i : nat) (x : tstate) (l : list timer) : list timer :=
  match l, i with
  | [], _ => []
  | t :: r, O => mkTimer (t_key t) (t_val t) (t_deadline t) x :: r
  | t :: r, S j => t :: set_state j x r
  end.
(* Timer.Stop(): prevents the callback only if it has not started *)
Definition stop (i : nat) (l : list timer) : list timer :=
  match nth_error l i with
  | Some t => match t_state t with Armed => set_state i Stopped l | _ => l end
  | None => l
  end.
Definition stop_opt (o : option nat) (l : list timer) : list timer :=
  match o with Some i => stop i l | None => l end.

Fixpoint ladd (l : lid) (ls : list lid) : list lid :=
  match ls with
  | [] => [l]
  | x :: r => if N.eqb l x then ls else x :: ladd l r
  end.
Definition lremove (l : lid) (ls : list lid) : list lid := filter (fun x => negb (N.eqb l x)) ls.

(* ---- operations -------------------------------------------------------------------- *)
Inductive op :=
| OSet (k : key) (v : option json) (ttl : Z)              (* Set / SetTTL; v = None is a nil value *)
| OCas (k : key) (old v : option json) (ttl : Z)          (* CompareAndSet / CompareAndSetTTL *)
| ORemove (k : key)
| OCasRemove (k : key) (old : option json)
| OAddL (l : lid)
| ORemoveL (l : lid)
| OAdvance (dt : Z)      (* time passes; due, unstopped timers fire in deadline order *)
| OFireLate (tid : nat). (* the callback of a timer that had already started when Stop was called gets the mutex *)

Arguments OSet k%N v ttl%Z.
Arguments OCas k%N old v ttl%Z.
Arguments ORemove k%N.
Arguments OCasRemove k%N old.
Arguments OAddL l%N.
Arguments ORemoveL l%N.
Arguments OAdvance dt%Z.
Arguments OFireLate tid%nat.

Definition outs := list (lid * msg).
Definition notify (s : state) (m : msg) : outs := map (fun l => (l, m)) (listeners s).

Section Variant.
Context (fixed : bool).

(* stopTimer (repaired code): Stop + delete *)
Definition clear_timer (s : state) (k : key) : state :=
  mkSt (data s) (listeners s) (upd (tmap s) k None) (stop_opt (tmap s k) (timers s)) (now s).

(* time.AfterFunc + t.timers[key] = timer *)
Definition arm_timer (s : state) (k : key) (v : json) (ttl : Z) : state :=
  mkSt (data s) (listeners s) (upd (tmap s) k (Some (length (timers s))))
       (timers s ++ [mkTimer k v (now s + ttl) Armed]) (now s).

(* the ttl part of a request.  unchanged = true: updateTTL (value was equal);
   unchanged = false: removeAfterTTL called from doSet *)
Definition set_ttl (unchanged : bool) (s : state) (k : key) (v : json) (ttl : Z) : state :=
  if fixed then
    if ttl <=? 0 then clear_timer s k else arm_timer (clear_timer s k) k v ttl
  else
    if ttl <=? 0 then
      (if unchanged
       then mkSt (data s) (listeners s) (upd (tmap s) k None) (timers s) (now s)   (* delete(t.timers, key), no Stop *)
       else s)                                                                      (* early return, old timer untouched *)
    else
      arm_timer (mkSt (data s) (listeners s) (tmap s) (stop_opt (tmap s k) (timers s)) (now s)) k v ttl.

Definition do_set (s : state) (k : key) (v : json) (prev : option json) (ttl : Z) : state * (bool * outs) :=
  let s1 := mkSt (dset (data s) k v) (listeners s) (tmap s) (timers s) (now s) in
  (set_ttl false s1 k v ttl, (true, notify s (MSet k prev v))).

Definition do_remove (s : state) (k : key) (prev : json) : state * (bool * outs) :=
  (mkSt (ddel (data s) k) (listeners s) (upd (tmap s) k None) (stop_opt (tmap s k) (timers s)) (now s),
   (true, notify s (MRemove k prev))).

Definition remove (s : state) (k : key) : state * (bool * outs) :=
  match dget (data s) k with
  | None => (s, (false, []))
  | Some p => do_remove s k p
  end.

(* compareAndRemove: reflect.DeepEqual(prev, old); a stored value is never nil *)
Definition compare_and_remove (s : state) (k : key) (old : option json) : state * (bool * outs) :=
  match dget (data s) k, old with
  | Some p, Some o => if json_eqb p o then do_remove s k p else (s, (false, []))
  | _, _ => (s, (false, []))
  end.

(* the callback of timer i *)
Definition callback (s : state) (i : nat) (t : timer) : state * (bool * outs) :=
  if fixed && negb (match tmap s (t_key t) with Some j => Nat.eqb j i | None => false end)
  then (s, (false, []))
  else compare_and_remove s (t_key t) (Some (t_val t)).

Definition fire (s : state) (i : nat) (t : timer) : state * outs :=
  let s1 := mkSt (data s) (listeners s) (tmap s) (set_state i Fired (timers s)) (now s) in
  let '(s2, (_, o)) := callback s1 i t in (s2, o).

(* the armed timer with the smallest deadline <= now (earliest created on ties) *)
Fixpoint next_due (ts : list timer) (now : Z) : option (nat * Z) :=
  match ts with
  | [] => None
  | t :: r =>
      let rest := match next_due r now with Some (j, d) => Some (S j, d) | None => None end in
      match t_state t with
      | Armed =>
          if t_deadline t <=? now then
            match rest with
            | Some (j, d) => if d <? t_deadline t then rest else Some (O, t_deadline t)
            | None => Some (O, t_deadline t)
            end
          else rest
      | _ => rest
      end
  end.

Fixpoint fire_all (fuel : nat) (s : state) : state * outs :=
  match fuel with
  | O => (s, [])
  | S f =>
      match next_due (timers s) (now s) with
      | None => (s, [])
      | Some (i, _) =>
          match nth_error (timers s) i with
          | Some t => let '(s1, o1) := fire s i t in
                      let '(s2, o2) := fire_all f s1 in (s2, o1 ++ o2)
          | None => (s, [])
          end
      end
  end.

Definition step (s : state) (o : op) : state * (bool * outs) :=
  match o with
  | OSet k None _ => remove s k
  | OSet k (Some v) ttl =>
      match dget (data s) k with
      | Some p => if json_eqb p v then (set_ttl true s k v ttl, (false, []))
                  else do_set s k v (Some p) ttl
      | None => do_set s k v None ttl
      end
  | OCas k old None _ => compare_and_remove s k old
  | OCas k old (Some v) ttl =>
      match old, dget (data s) k with
      | Some o, Some p => if json_eqb p o then do_set s k v (Some p) ttl else (s, (false, []))
      | Some _, None => (s, (false, []))
      | None, Some _ => (s, (false, []))
      | None, None => do_set s k v None ttl
      end
  | ORemove k => remove s k
  | OCasRemove k old => compare_and_remove s k old
  | OAddL l =>
      (mkSt (data s) (ladd l (listeners s)) (tmap s) (timers s) (now s),
       (false, match data s with [] => [] | _ => [(l, MInitial (data s))] end))
  | ORemoveL l =>
      (mkSt (data s) (lremove l (listeners s)) (tmap s) (timers s) (now s), (false, []))
  | OAdvance dt =>
      if dt <? 0 then (s, (false, []))
      else
        let s1 := mkSt (data s) (listeners s) (tmap s) (timers s) (now s + dt) in
        let '(s2, o) := fire_all (length (timers s)) s1 in (s2, (false, o))
  | OFireLate i =>
      match nth_error (timers s) i with
      | Some t => match t_state t with
                  | Stopped => let '(s2, o) := fire s i t in (s2, (false, o))
                  | _ => (s, (false, []))
                  end
      | None => (s, (false, []))
      end
  end.

Fixpoint run_from (s : state) (ops : list op) : state :=
  match ops with
  | [] => s
  | o :: r => run_from (fst (step s o)) r
  end.
Definition run (ops : list op) : state := run_from init ops.

End Variant.
