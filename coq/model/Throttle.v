(* Executable model of throttle.go (memoryThrottler).  No proofs here. *)
From Coq Require Import List ZArith NArith Bool.
From Verif Require Import gen.Params.
Import ListNotations.
Open Scope Z_scope.

(* ---- addresses and keys (getThrottleIp) ---------------------------------
   A4 n      : an IPv4 address in the textual form the server itself produces
   A6 hi lo  : an IPv6 address, hi = upper 64 bits, lo = lower 64 bits
   ARaw i    : any other string (does not parse as an IP address)
   The key is the raw string for IPv4 / unparsable input and the canonical
   text of the /64 for IPv6. *)
Inductive addr := A4 (n : N) | A6 (hi lo : N) | ARaw (i : N).
Inductive ipkey := K4 (n : N) | K6 (hi : N) | KRaw (i : N).

Definition throttle_ip (a : addr) : ipkey :=
  match a with A4 n => K4 n | A6 hi _ => K6 hi | ARaw i => KRaw i end.

Definition ipkey_eqb (a b : ipkey) : bool :=
  match a, b with
  | K4 x, K4 y => N.eqb x y
  | K6 x, K6 y => N.eqb x y
  | KRaw x, KRaw y => N.eqb x y
  | _, _ => false
  end.

Definition key := (ipkey * N)%type.            (* (throttle ip, action) *)
Definition key_eqb (a b : key) : bool := ipkey_eqb (fst a) (fst b) && N.eqb (snd a) (snd b).

(* ---- state: the entries stored per key, oldest first --------------------- *)
Definition state := key -> list Z.
Definition init : state := fun _ => [].
Definition upd (s : state) (k : key) (v : list Z) : state :=
  fun k' => if key_eqb k k' then v else s k'.

(* ---- getDelay ------------------------------------------------------------ *)
Definition get_delay (c : Z) : Z :=
  if c >? 16 then maxThrottleDelay
  else Z.min (100 * 2 ^ c * 1000000) maxThrottleDelay.

(* ---- filterEntries: drop the prefix that is older than maxBruteforceAge --- *)
Fixpoint dropold (now : Z) (l : list Z) : list Z :=
  match l with
  | [] => []
  | t :: r => if now - t >? maxBruteforceAge then dropold now r else l
  end.

(* the test in CheckBruteforce *)
Definition blocked (now : Z) (es : list Z) : bool :=
  let n := Z.to_nat maxBruteforceAttempts in
  (n <=? length es)%nat &&
  (now - nth (length es - n) es 0 <=? maxBruteforceDurationThreshold).

(* ---- operations ----------------------------------------------------------
   OCheck t a act  : CheckBruteforce called when the clock shows t
   OFail t a act   : the throttle function returned by such a call is invoked
                     (the attempt failed); it records t, not the current time
   OCleanup t      : housekeeping tick *)
Inductive op :=
| OCheck (t : Z) (a : addr) (act : N)
| OFail (t : Z) (a : addr) (act : N)
| OCleanup (t : Z)
| OProbe (t : Z) (a : addr) (act : N).   (* harness only: number of stored entries *)

Inductive out :=
| VBlocked | VAllowed
| VDelay (d : Z)
| VNone
| VCount (n : Z).

Definition step (s : state) (o : op) : state * out :=
  match o with
  | OCheck t a act =>
      let k := (throttle_ip a, act) in
      let es := s k in
      if blocked t es then (s, VBlocked)
      else (upd s k (dropold t es), VAllowed)
  | OFail t a act =>
      let k := (throttle_ip a, act) in
      let es := s k ++ [t] in
      (upd s k es, VDelay (get_delay (Z.of_nat (length es) - 1)))
  | OCleanup t => (fun k => dropold t (s k), VNone)
  | OProbe _ a act => (s, VCount (Z.of_nat (length (s (throttle_ip a, act)))))
  end.

Fixpoint run_from (s : state) (ops : list op) : list out * state :=
  match ops with
  | [] => ([], s)
  | o :: r => let '(s', v) := step s o in
              let '(vs, sf) := run_from s' r in (v :: vs, sf)
  end.

Definition run (ops : list op) : list out := fst (run_from init ops).
Definition final (ops : list op) : state := snd (run_from init ops).
