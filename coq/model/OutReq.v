(* Executable model of the front part of BackendClient.PerformJSONRequest
   (backend_client.go): the backend is looked up for the request URL in the
   backend tables AS THEY ARE NOW (b.backends.GetBackend(u), the tables of
   model/BackendCfg.v - property C13), a URL no backend is configured for is
   refused before anything is sent ("no backend configured for %s"), otherwise
   AddBackendChecksum(req, body, backend.Secret()) signs the request.
   No proofs here.

   Histories: the configuration changes between requests - static storage by
   Reload (SIGHUP), etcd storage by put / delete events.  The client keeps no
   state of its own between requests: what an earlier request resolved to is
   not remembered.

   BackendCfg.v abstracts secrets to numbers; `secret_of` maps them back to the
   byte strings (universally quantified in the theorems; the identity table of
   the harness in cases files). *)
From Coq Require Import List ZArith NArith Bool String Ascii.
From Verif Require Import model.Checksum model.BackendCfg.
Import ListNotations.

(* what PerformJSONRequest does with one request: index out of range inside the
   lookup (never, proofs/OutReq_proofs.v), error return before sending, or the
   request leaves with the two headers (Spreed-Signaling-Random, -Checksum) *)
Inductive sent := SPanic | SNone | SSent (hdr : string * string).

(* the secret in a lookup answer (BackendCfg.proj: id, secret, limit, bitrates, compat) *)
Definition answer_secret (p : N * N * Z * Z * Z * bool) : N := snd (fst (fst (fst (fst p)))).

(* ---- the back part of PerformJSONRequest: what happens to a request that left -----
   c.Do(req) is called ONCE per call of PerformJSONRequest.  Whatever becomes of the
   request at the backend - answered; connection closed before a response byte;
   connection closed in the middle of the response; answered 500; no answer until the
   context of the call expires - the client does not send it again: the caller gets the
   response or the error.  (net/http's transport re-sends on its own only what provably
   never reached the backend: a POST without Idempotency-Key is retried only when not
   one byte of it was written to a reused connection.)  A caller that tries again calls
   PerformJSONRequest again: a new request of the history, signed with the next random.
   Redirects (307/308 to the same host are followed by the http.Client with the same
   headers) are outside this model: see notes/strengthen-c2.md. *)
Inductive fate := FAnswered | FClosed | FCut | FStatus500 | FSilent.
Inductive outcome := OResponse | OError.

(* the requests that arrive at the backend because of one call (with their two headers), and
   what the caller gets *)
Definition deliver (s : sent) (f : fate) : list (string * string) * outcome :=
  match s with
  | SSent h => ([h], match f with FAnswered => OResponse | _ => OError end)
  | _ => ([], OError)
  end.

(* everything that arrives at the backends during a history: `fates k` is what happens to
   the k-th request *)
Fixpoint wire (fates : nat -> fate) (k : nat) (ss : list sent) : list (string * string) :=
  match ss with
  | [] => []
  | s :: r => (fst (deliver s (fates k)) ++ wire fates (S k) r)%list
  end.

Section OutReq.
Context (hmac : bytes -> bytes -> bytes) (up : string -> option purl) (secret_of : N -> bytes).

Definition sign (rand : nat -> ascii) (a : answer) (body : bytes) : sent :=
  match a with
  | APanic => SPanic
  | ANone => SNone
  | ASome p => SSent (add_backend_checksum hmac rand body (secret_of (answer_secret p)))
  end.

Definition perform_static (rand : nat -> ascii) (st : sstate) (u : string) (body : bytes) : sent :=
  sign rand (answer_of (lookup_static up st u)) body.
Definition perform_etcd (rand : nat -> ascii) (st : estate) (u : string) (body : bytes) : sent :=
  sign rand (answer_of (lookup_etcd up st u)) body.

(* ---- histories, static storage: reloads and requests ------------------------
   `rand k` is what crypto/rand delivers to the k-th request.  st = None: a reload
   panicked (never: C13_reload_no_panic). *)
Inductive oop := OReload (c : config) | OReq (u : string) (body : bytes).

Fixpoint orun (rand : nat -> nat -> ascii) (st : option sstate) (k : nat) (ops : list oop) : list sent :=
  match ops with
  | [] => []
  | OReload c :: r => orun rand (reload_opt (reload up) st c) k r
  | OReq u body :: r =>
      (match st with Some s => perform_static (rand k) s u body | None => SPanic end)
      :: orun rand st (S k) r
  end.
(* a server started with c0 *)
Definition orun_static (rand : nat -> nat -> ascii) (c0 : config) (ops : list oop) : list sent :=
  orun rand (Some (fresh up c0)) 0 ops.

Definition configs_of (ops : list oop) : list config :=
  flat_map (fun o => match o with OReload c => [c] | OReq _ _ => [] end) ops.
Definition requests_in (ops : list oop) : nat :=
  List.length (filter (fun o => match o with OReq _ _ => true | OReload _ => false end) ops).

(* ---- histories, etcd storage: events and requests ----------------------------- *)
Inductive eoop := EEvent (e : eop) | EReq (u : string) (body : bytes).

Fixpoint erun (rand : nat -> nat -> ascii) (st : estate) (k : nat) (ops : list eoop) : list sent :=
  match ops with
  | [] => []
  | EEvent e :: r => erun rand (etcd_step up st e) k r
  | EReq u body :: r => perform_etcd (rand k) st u body :: erun rand st (S k) r
  end.
Definition erun_etcd (rand : nat -> nat -> ascii) (ops : list eoop) : list sent := erun rand einit 0 ops.

Definition events_of (ops : list eoop) : list eop :=
  flat_map (fun o => match o with EEvent e => [e] | EReq _ _ => [] end) ops.
Definition erequests_in (ops : list eoop) : nat :=
  List.length (filter (fun o => match o with EReq _ _ => true | EEvent _ => false end) ops).

End OutReq.
