From Verif Require Import corr.Run_C15.
Theorem C15_placeholder : True. Proof. exact I. Qed.
