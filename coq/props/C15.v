(* C15 — Session ids cannot be forged, altered or used across roles.
   Only statements here; proofs are in lib/B64.v and proofs/SessionId_proofs.v.

   HMAC-SHA256, protobuf and AES-CTR are oracles: every theorem is quantified
   over [O : oracles key bkey data].  "Cannot be forged" is stated as
   "acceptance implies the MAC equation"; no collision resistance is assumed.
   An id is the base64 text of  date|value|mac  (private) or of the same bytes
   in reverse order (public):  id_string r ts v m. *)
From Coq Require Import List Ascii String Bool Arith NArith.
From Verif Require Import gen.Params lib.B64 model.SessionId proofs.SessionId_proofs.
Import ListNotations.

(* ---- base64 (concrete): round trip, and the decoder's laxness ------------------------------ *)
Theorem C15_b64_roundtrip : forall x, b64dec (b64enc x) = Some x.
Proof. exact b64_roundtrip. Qed.

(* Go's decoder skips CR and LF wherever they stand ... *)
Theorem C15_b64_decoder_ignores_line_breaks : forall s, b64dec s = b64dec (strip_nl s).
Proof. exact b64dec_ignores_nl. Qed.
Theorem C15_b64_line_break_inserted : forall s1 s2 c, is_nl c = true -> b64dec (s1 ++ c :: s2) = b64dec (s1 ++ s2).
Proof. exact b64dec_insert_nl. Qed.
(* ... and does not look at the unused bits before the padding (4 bits before "==", 2 before "=") *)
Theorem C15_b64_trailing_bits_4 : forall x a s1 s2 b3 b2 b1 b0, Nat.modulo (List.length x) 3 = 0 ->
  pack1 a = (s1, s2) ->
  let '(Sx a1 a0 _ _ _ _) := s2 in
  b64dec (b64enc x ++ [enc_char s1; enc_char (Sx a1 a0 b3 b2 b1 b0); pad; pad]) = Some (x ++ [a]).
Proof. exact b64dec_trailing4. Qed.
Theorem C15_b64_trailing_bits_2 : forall x a b s1 s2 s3 c1 c0, Nat.modulo (List.length x) 3 = 0 ->
  pack2 a b = (s1, s2, s3) ->
  let '(Sx b3 b2 b1 b0 _ _) := s3 in
  b64dec (b64enc x ++ [enc_char s1; enc_char s2; enc_char (Sx b3 b2 b1 b0 c1 c0); pad]) = Some (x ++ [a; b]).
Proof. exact b64dec_trailing2. Qed.
(* the canonical-form check singles out one spelling per byte string *)
Theorem C15_b64_canonical_iff_encoder_output : forall s, is_canonical s = true <-> exists x, s = b64enc x.
Proof. exact is_canonical_spec. Qed.
Theorem C15_b64_canonical_unique : forall s s', is_canonical s = true -> is_canonical s' = true ->
  b64dec s = b64dec s' -> s = s'.
Proof. exact canonical_unique. Qed.

(* ---- date|value|mac ---------------------------------------------------------------------------- *)
Theorem C15_split3_unambiguous : forall a b c a' b' c',
  nopipe a -> nopipe b -> nopipe a' -> nopipe b' ->
  join3 a b c = join3 a' b' c' -> a = a' /\ b = b' /\ c = c'.
Proof. exact split3_unambiguous. Qed.
Theorem C15_split3_inverts_join : forall a b c, nopipe a -> nopipe b -> split3 (join3 a b c) = Some (a, b, c).
Proof. exact split3_join. Qed.

(* the messages authenticated for the two roles (names from the current source) never coincide *)
Theorem C15_role_messages_differ : forall ts v ts' v',
  mac_msg (role_name Private) ts v <> mac_msg (role_name Public) ts' v'.
Proof. exact role_msgs_differ. Qed.

(* ---- round trip ------------------------------------------------------------------------------------
   Full statement: for every data value d and key set, an id minted for d decodes to d.
   Proved for key sets without block key (hypotheses: Unmarshal undoes Marshal on d; the clock
   prints a number that ParseInt accepts), and with a block key under [stream_ok], which by
   C15_stream_ok_from_cipher_laws holds for every length-preserving involutive stream cipher
   unless the serialization of d is EMPTY.  That exception is real:
   C15_decode_encode_empty_value_refuted (known finding C15/codec/empty-data-blockkey). *)
Theorem C15_decode_encode_partial : forall (key bkey data : Type) (O : oracles key bkey data) r ks ts iv d p s,
  ser O d = Some p -> deser O p = Some d -> stream_ok O (bk ks) iv p -> parse_int_ok ts = true ->
  encode O r ks ts iv d = Ok s -> decode O r ks s = Ok d.
Proof. exact @decode_encode. Qed.

Theorem C15_decode_encode_without_block_key : forall (key bkey data : Type) (O : oracles key bkey data) r ks ts iv d p s,
  bk ks = None ->
  ser O d = Some p -> deser O p = Some d -> parse_int_ok ts = true ->
  encode O r ks ts iv d = Ok s -> decode O r ks s = Ok d.
Proof. exact @decode_encode_without_block_key. Qed.

Theorem C15_stream_ok_from_cipher_laws : forall (key bkey data : Type) (O : oracles key bkey data) k iv p,
  List.length iv = iv_size -> (forall x, List.length (ctr O k iv x) = List.length x) ->
  (forall x, ctr O k iv (ctr O k iv x) = x) -> p <> [] -> stream_ok O (Some k) iv p.
Proof. exact @stream_ok_from_ctr_laws. Qed.

Theorem C15_decode_encode_empty_value_refuted :
  (* for every oracle: the value with the empty serialization is minted and then refused *)
  (forall (key bkey data : Type) (O : oracles key bkey data) r ks k ts iv d s,
     bk ks = Some k -> ser O d = Some [] -> List.length iv = iv_size -> ctr O k iv [] = [] -> parse_int_ok ts = true ->
     encode O r ks ts iv d = Ok s -> decode O r ks s = Err EDecrypt) /\
  (* and such a situation exists *)
  (forall r, exists s, encode toy_oracles r toy_ks1 (bs "17") toy_iv [] = Ok s /\ decode toy_oracles r toy_ks1 s = Err EDecrypt).
Proof. exact empty_value_refuted. Qed.

Example C15_decode_encode_nonvacuous : forall r,
  ser toy_oracles (bs "data") = Some (bs "data") /\ deser toy_oracles (bs "data") = Some (bs "data") /\
  stream_ok toy_oracles (bk toy_ks1) toy_iv (bs "data") /\ parse_int_ok (bs "17") = true /\
  exists s, encode toy_oracles r toy_ks1 (bs "17") toy_iv (bs "data") = Ok s.
Proof. exact toy_roundtrip_hyps. Qed.

(* a real id (minted by the real codec, replayed by the harness) with the real HMAC and protobuf values *)
Example C15_real_id : encode wit_oracles Private wit_ks (bs "1790793070") [] 1%N = Ok wit_id /\
                      decode wit_oracles Private wit_ks wit_id = Ok 1%N.
Proof. exact real_id_roundtrip. Qed.

(* ---- what acceptance means ------------------------------------------------------------------------------ *)
Theorem C15_decode_sound : forall (key bkey data : Type) (O : oracles key bkey data) r ks s d,
  decode O r ks s = Ok d ->
  exists ts v m,
    s = id_string r ts v m /\ nopipe ts /\ nopipe v /\
    m = hmac O (hk ks) (mac_msg (role_name r) ts v) /\ parse_int_ok ts = true /\ payload O ks v = Some d.
Proof. exact @decode_sound. Qed.

(* and nothing else is refused: exactly the strings of that form are accepted *)
Theorem C15_decode_complete : forall (key bkey data : Type) (O : oracles key bkey data) r ks ts v m d,
  nopipe ts -> nopipe v -> m = hmac O (hk ks) (mac_msg (role_name r) ts v) -> parse_int_ok ts = true ->
  payload O ks v = Some d -> List.length (id_string r ts v m) <= max_length ->
  decode O r ks (id_string r ts v m) = Ok d.
Proof. exact @decode_complete. Qed.

Theorem C15_encode_form : forall (key bkey data : Type) (O : oracles key bkey data) r ks ts iv d s,
  encode O r ks ts iv d = Ok s ->
  exists p, ser O d = Some p /\
    let v := b64enc (encrypt O (bk ks) iv p) in
    s = id_string r ts v (hmac O (hk ks) (mac_msg (role_name r) ts v)).
Proof. exact @encode_form. Qed.

(* ---- modification -----------------------------------------------------------------------------------------
   Two different accepted strings are two ids with correct MACs over two DIFFERENT messages:
   no variant of a valid id is accepted unless it carries the MAC of another message. *)
Theorem C15_modification : forall (key bkey data : Type) (O : oracles key bkey data) r ks s s' d d',
  decode O r ks s = Ok d -> decode O r ks s' = Ok d' -> s' <> s ->
  exists ts v ts' v',
    s = id_string r ts v (hmac O (hk ks) (mac_msg (role_name r) ts v)) /\
    s' = id_string r ts' v' (hmac O (hk ks) (mac_msg (role_name r) ts' v')) /\
    mac_msg (role_name r) ts' v' <> mac_msg (role_name r) ts v.
Proof. exact @modification. Qed.

Example C15_modification_nonvacuous : forall r,
  exists s s', decode toy_oracles r toy_ks1 s = Ok (bs "data") /\ decode toy_oracles r toy_ks1 s' = Ok (bs "data") /\ s' <> s.
Proof. exact toy_two_ids. Qed.

(* The decoders WITHOUT the canonical-form check (the code before fixes/C15/01; still what
   securecookie does underneath): an accepted variant is a base64 re-spelling of the same
   bytes (then with the same data), or carries the MAC of another message ... *)
Theorem C15_modification_lax : forall (key bkey data : Type) (O : oracles key bkey data) r ks s s' d d',
  decode_lax O r ks s = Ok d -> decode_lax O r ks s' = Ok d' ->
  (b64dec s' = b64dec s /\ d' = d) \/
  exists ts v ts' v',
    b64dec s = Some (triple_bytes r ts v (hmac O (hk ks) (mac_msg (role_name r) ts v))) /\
    b64dec s' = Some (triple_bytes r ts' v' (hmac O (hk ks) (mac_msg (role_name r) ts' v'))) /\
    mac_msg (role_name r) ts' v' <> mac_msg (role_name r) ts v.
Proof. exact @modification_lax. Qed.

(* ... and the first case happens: "any modification of a valid id makes it invalid" is false
   for them.  Every re-spelling is accepted, ... *)
Theorem C15_lax_accepts_respelling_private : forall (key bkey data : Type) (O : oracles key bkey data) ks s s',
  b64dec s' = b64dec s -> (max_length <? List.length s') = (max_length <? List.length s) ->
  decode_private_lax O ks s' = decode_private_lax O ks s.
Proof. exact @decode_private_lax_respelling. Qed.
Theorem C15_lax_accepts_respelling_public : forall (key bkey data : Type) (O : oracles key bkey data) ks s s',
  b64dec s' = b64dec s -> decode_public_lax O ks s' = decode_public_lax O ks s.
Proof. exact @decode_public_lax_respelling. Qed.
(* ... witness: a real id with a line break appended, and with its unused trailing bits changed *)
Theorem C15_modification_lax_refuted :
  exists s s' s'', s' <> s /\ s'' <> s /\
    decode_private_lax wit_oracles wit_ks s = Ok 1%N /\
    decode_private_lax wit_oracles wit_ks s' = Ok 1%N /\
    decode_private_lax wit_oracles wit_ks s'' = Ok 1%N.
Proof. exact wit_lax_refuted. Qed.
(* the repaired decoder accepts the id and refuses both variants *)
Theorem C15_repaired_refuses_witness :
  decode wit_oracles Private wit_ks wit_id = Ok 1%N /\
  decode wit_oracles Private wit_ks wit_id_nl = Err ENotCanonical /\
  decode wit_oracles Private wit_ks wit_id_bits = Err ENotCanonical.
Proof. exact wit_repaired_accepts_one. Qed.

(* ---- roles ---------------------------------------------------------------------------------------------------
   A string accepted both as private and as public id carries correct MACs of two different
   messages (one per cookie name). *)
Theorem C15_role_separation : forall (key bkey data : Type) (O : oracles key bkey data) ks s d d',
  decode O Private ks s = Ok d -> decode O Public ks s = Ok d' ->
  exists ts v ts' v',
    s = id_string Private ts v (hmac O (hk ks) (mac_msg (role_name Private) ts v)) /\
    s = id_string Public ts' v' (hmac O (hk ks) (mac_msg (role_name Public) ts' v')) /\
    mac_msg (role_name Private) ts v <> mac_msg (role_name Public) ts' v'.
Proof. exact @role_separation_same_string. Qed.

(* The public/private swap (the codec's own reversal applied to an accepted id of the other
   role) is accepted only if HMAC has the SAME value on two different messages. *)
Theorem C15_role_separation_swap : forall (key bkey data : Type) (O : oracles key bkey data) ks s s' d d',
  decode O Private ks s = Ok d -> decode O Public ks s' = Ok d' ->
  reverse_id s = Some s' \/ reverse_id s' = Some s ->
  exists ts v,
    hmac O (hk ks) (mac_msg (role_name Private) ts v) = hmac O (hk ks) (mac_msg (role_name Public) ts v) /\
    mac_msg (role_name Private) ts v <> mac_msg (role_name Public) ts v.
Proof. exact @role_separation_swap_either. Qed.

(* ---- keys ---------------------------------------------------------------------------------------------------
   A string accepted under two key sets forces HMAC to agree under both hash keys on one message. *)
Theorem C15_key_separation : forall (key bkey data : Type) (O : oracles key bkey data) r ks1 ks2 s d1 d2,
  decode O r ks1 s = Ok d1 -> decode O r ks2 s = Ok d2 ->
  exists ts v, s = id_string r ts v (hmac O (hk ks1) (mac_msg (role_name r) ts v)) /\
    hmac O (hk ks1) (mac_msg (role_name r) ts v) = hmac O (hk ks2) (mac_msg (role_name r) ts v).
Proof. exact @key_separation. Qed.

(* Full statement: ids minted under DIFFERENT key sets are rejected.  The theorem above says
   nothing when the two key sets share the hash key and differ in the block key only, and indeed
   such key sets are not separated (known finding C15/codec/blockkey-not-authenticated): the
   second key set accepts whatever its block key and protobuf make of the value part. *)
Theorem C15_key_separation_blockkey_refuted :
  (forall (key bkey data : Type) (O : oracles key bkey data) r ks1 ks2 s d1, hk ks1 = hk ks2 -> decode O r ks1 s = Ok d1 ->
     exists ts v m, s = id_string r ts v m /\ forall d2, payload O ks2 v = Some d2 -> decode O r ks2 s = Ok d2) /\
  (exists s d', encode toy_oracles Private toy_ks1 (bs "17") toy_iv (bs "data") = Ok s /\
                decode toy_oracles Private toy_ks2 s = Ok d' /\ d' <> bs "data" /\
                hk toy_ks1 = hk toy_ks2 /\ bk toy_ks1 <> bk toy_ks2).
Proof. exact blockkey_refuted. Qed.

(* the hypotheses of the separation theorems can be met only through collisions; with an "HMAC"
   that has them, they are met *)
Example C15_separation_nonvacuous :
  exists s s', decode const_oracles Private (const_ks 1) s = Ok (bs "d") /\
               reverse_id s = Some s' /\ decode const_oracles Public (const_ks 1) s' = Ok (bs "d") /\
               decode const_oracles Private (const_ks 2) s = Ok (bs "d").
Proof. exact const_cross_role_and_key. Qed.

(* ---- hub ----------------------------------------------------------------------------------------------------- *)
(* GetSessionByResumeId / GetSessionByPublicId / hello-resume return a session only when the
   string presented IS the stored id of that role — in every state of caches and tables. *)
Theorem C15_hub_exact_match : forall (key bkey data : Type) (O : oracles key bkey data) ks r h id h' sid,
  hub_lookup O ks r h id = (h', Some sid) ->
  exists ids, session_find sid (sessions h') = Some ids /\ id = stored_id r ids.
Proof. exact @hub_exact_match. Qed.

Theorem C15_cache_key_injective : forall id1 r1 id2 r2,
  cache_key id1 (role_name r1) = cache_key id2 (role_name r2) -> id1 = id2 /\ r1 = r2.
Proof. exact cache_key_role_injective. Qed.
Theorem C15_cache_key_injective_general : forall id1 n1 id2 n2, nopipe n1 -> nopipe n2 ->
  cache_key id1 n1 = cache_key id2 n2 -> id1 = id2 /\ n1 = n2.
Proof. exact cache_key_injective. Qed.

(* every entry of every decode cache is (id|name -> d) with decode name id = d: invariant of
   registration (set after minting), lookups (set after decode, move to front), removal,
   eviction; [wf_hop] asks of a registration what C15_decode_encode_partial asks *)
Theorem C15_cache_sound : forall (key bkey data : Type) (O : oracles key bkey data) ks ops h,
  cache_inv O ks h -> Forall (wf_hop O ks) ops -> cache_inv O ks (fst (hub_run O ks h ops)).
Proof. exact @cache_sound. Qed.
Theorem C15_cache_sound_initially : forall (key bkey data : Type) (O : oracles key bkey data) ks n size,
  cache_inv O ks (hub_init n size).
Proof. exact @cache_inv_init. Qed.

(* hence the cached decoder answers what the decoder answers, and a lookup succeeds only for a
   string that the decoder accepts and that equals the stored id *)
Theorem C15_cache_transparent : forall (key bkey data : Type) (O : oracles key bkey data) ks r h id,
  cache_inv O ks h ->
  snd (hub_decode O ks r h id) = match decode O r ks id with Ok d => Some d | Err _ => None end.
Proof. exact @cache_transparent. Qed.
Theorem C15_hub_lookup_sound : forall (key bkey data : Type) (O : oracles key bkey data) ks r h id h' sid,
  cache_inv O ks h -> hub_lookup O ks r h id = (h', Some sid) ->
  exists d ids, decode O r ks id = Ok d /\ sid_of O d = sid /\
                session_find sid (sessions h') = Some ids /\ id = stored_id r ids.
Proof. exact @hub_lookup_sound. Qed.

(* the stored ids are the ids that were handed out (computed from the answers alone) *)
Theorem C15_sessions_are_handed_out : forall (key bkey data : Type) (O : oracles key bkey data) ks ops h,
  sessions (fst (hub_run O ks h ops)) = live_from O (sessions h) (snd (hub_run O ks h ops)).
Proof. exact @sessions_are_handed_out. Qed.

(* ---- roles at the hub ---------------------------------------------------------------------------------------
   The hub's own decoders (decodePrivateSessionId / decodePublicSessionId: op HDecode; every lookup, the
   resume branch of hello and the recipients of messages go through them) answer for a role exactly what
   the codec answers for that role, in every cache state the invariant allows: *)
Theorem C15_hub_decode_sound : forall (key bkey data : Type) (O : oracles key bkey data) ks r h id h' d,
  cache_inv O ks h -> hub_step O ks h (HDecode r id) = (h', HData d) -> decode O r ks id = Ok d.
Proof. exact @hub_decode_step_sound. Qed.
Theorem C15_hub_decode_complete : forall (key bkey data : Type) (O : oracles key bkey data) ks r h id d,
  cache_inv O ks h -> decode O r ks id = Ok d -> snd (hub_step O ks h (HDecode r id)) = HData d.
Proof. exact @hub_decode_step_complete. Qed.
Theorem C15_hub_decode_refuses : forall (key bkey data : Type) (O : oracles key bkey data) ks r h id,
  cache_inv O ks h -> (forall d, decode O r ks id <> Ok d) -> snd (hub_step O ks h (HDecode r id)) = HNoData.
Proof. exact @hub_decode_step_refuses. Qed.
(* over every history of registrations, removals, lookups, resumes and decodes under either role,
   with any number and size of caches (evictions included): *)
Theorem C15_hub_decode_history : forall (key bkey data : Type) (O : oracles key bkey data) ks ops n size r id d,
  Forall (wf_hop O ks) ops ->
  In (HDecode r id, HData d) (snd (hub_run O ks (hub_init n size) ops)) -> decode O r ks id = Ok d.
Proof. intros. eapply hub_run_decode_sound; eauto. apply cache_inv_init. Qed.
(* hence "a public id never decodes as a private (resume) id nor the reverse" at the hub: a string
   that the hub decodes under both roles anywhere in a history -- for instance right after the
   registration that put both ids of the session into the caches -- carries correct MACs of two
   different messages; and the swap (an id and its reversal) needs ONE MAC for two different messages *)
Theorem C15_hub_role_separation : forall (key bkey data : Type) (O : oracles key bkey data) ks ops n size s d d',
  Forall (wf_hop O ks) ops ->
  In (HDecode Private s, HData d) (snd (hub_run O ks (hub_init n size) ops)) ->
  In (HDecode Public s, HData d') (snd (hub_run O ks (hub_init n size) ops)) ->
  exists ts v ts' v',
    s = id_string Private ts v (hmac O (hk ks) (mac_msg (role_name Private) ts v)) /\
    s = id_string Public ts' v' (hmac O (hk ks) (mac_msg (role_name Public) ts' v')) /\
    mac_msg (role_name Private) ts v <> mac_msg (role_name Public) ts' v'.
Proof. intros. eapply hub_role_separation; eauto. apply cache_inv_init. Qed.
Theorem C15_hub_role_separation_swap : forall (key bkey data : Type) (O : oracles key bkey data) ks ops n size s s' d d',
  Forall (wf_hop O ks) ops ->
  In (HDecode Private s, HData d) (snd (hub_run O ks (hub_init n size) ops)) ->
  In (HDecode Public s', HData d') (snd (hub_run O ks (hub_init n size) ops)) ->
  reverse_id s = Some s' \/ reverse_id s' = Some s ->
  exists ts v,
    hmac O (hk ks) (mac_msg (role_name Private) ts v) = hmac O (hk ks) (mac_msg (role_name Public) ts v) /\
    mac_msg (role_name Private) ts v <> mac_msg (role_name Public) ts v.
Proof. intros. eapply hub_role_separation_swap; eauto. apply cache_inv_init. Qed.

(* ---- ids made by the hub's request paths; the cache operations by themselves; the codec asked directly -------
   hub.go writes the decode caches in exactly these places: processRegister pre-fills both new ids of a
   hello with their own data (HRegister), removeSession deletes both ids of the session that ends
   (HRemove: bye, removesession, a replaced virtual session, the virtual sessions of an internal client
   that leaves, expiry), the decoders store the codec's answer (HDecode); "addsession" mints and stores a
   virtual session and does not touch the caches (HAddSession).  HPrefill / HInvalidate are
   setDecodedSessionId / invalidateSessionId by themselves, HCodec is hub.cookie.DecodePrivate /
   DecodePublic (no cache).  C15_cache_sound, C15_hub_decode_history and the role separation theorems
   above range over histories of all of these (wf_hop: a mint meets the round-trip hypotheses, a
   pre-fill stores what the codec answers for the id). *)
(* the hub's decoder of a role answers what the codec answers for that role -- whatever the two cache
   states -- and so in every history, wherever both were asked about a string *)
Theorem C15_hub_decode_is_codec : forall (key bkey data : Type) (O : oracles key bkey data) ks r h h0 id,
  cache_inv O ks h -> snd (hub_step O ks h (HDecode r id)) = snd (hub_step O ks h0 (HCodec r id)).
Proof. exact @hub_decode_step_is_codec. Qed.
Theorem C15_hub_is_codec_history : forall (key bkey data : Type) (O : oracles key bkey data) ks ops n size r id v v',
  Forall (wf_hop O ks) ops ->
  In (HDecode r id, v) (snd (hub_run O ks (hub_init n size) ops)) ->
  In (HCodec r id, v') (snd (hub_run O ks (hub_init n size) ops)) -> v = v'.
Proof. intros. eapply hub_run_hub_is_codec; eauto. apply cache_inv_init. Qed.
(* "decoding returns exactly the data that was encoded", for the ids of the request paths: both ids that
   a hello or an addsession hands out decode -- by the codec and by the hub's decoders, anywhere in the
   history: pre-filled, evicted, invalidated or never cached -- to the data they were minted for *)
Theorem C15_hub_minted_ids_decode : forall (key bkey data : Type) (O : oracles key bkey data) ks ops n size o d p q,
  Forall (wf_hop O ks) ops ->
  In (o, HIds p q) (snd (hub_run O ks (hub_init n size) ops)) -> mints o d ->
  decode O Private ks p = Ok d /\ decode O Public ks q = Ok d.
Proof. intros. eapply hub_run_minted_decode; eauto. apply cache_inv_init. Qed.
Theorem C15_hub_minted_ids_hub_decode : forall (key bkey data : Type) (O : oracles key bkey data) ks ops n size o d p q v v',
  Forall (wf_hop O ks) ops ->
  In (o, HIds p q) (snd (hub_run O ks (hub_init n size) ops)) -> mints o d ->
  In (HDecode Private p, v) (snd (hub_run O ks (hub_init n size) ops)) ->
  In (HDecode Public q, v') (snd (hub_run O ks (hub_init n size) ops)) ->
  v = HData d /\ v' = HData d.
Proof. intros. eapply hub_run_minted_hub_decode; eauto. apply cache_inv_init. Qed.
(* a pre-fill with the id's own data keeps "every cache entry is what the codec answers for its key" ... *)
Theorem C15_prefill_own_data_sound : forall (key bkey data : Type) (O : oracles key bkey data) ks r h id d,
  cache_inv O ks h -> decode O r ks id = Ok d -> cache_inv O ks (fst (hub_step O ks h (HPrefill r id d))).
Proof. exact @prefill_own_data_sound. Qed.
(* ... and a pre-fill with anything else does not: the hub's decoder answers the pre-filled data, for every
   oracle, every number (> 0) and size of caches, every non-empty string -- so it differs from the codec's
   answer as soon as the data is not the id's own (refuted: the hypothesis of wf_hop cannot be dropped) *)
Theorem C15_prefill_other_data_is_answered : forall (key bkey data : Type) (O : oracles key bkey data) ks r h id d',
  id <> [] -> caches h <> [] ->
  snd (hub_step O ks (fst (hub_step O ks h (HPrefill r id d'))) (HDecode r id)) = HData d'.
Proof. exact @prefill_other_data_is_answered. Qed.
Theorem C15_prefill_other_data_refuted : forall (key bkey data : Type) (O : oracles key bkey data) ks r h id d',
  id <> [] -> caches h <> [] -> decode O r ks id <> Ok d' ->
  snd (hub_step O ks (fst (hub_step O ks h (HPrefill r id d'))) (HDecode r id)) <> codec_answer O ks r id.
Proof. exact @prefill_other_data_refuted. Qed.

(* ---- hubs built from their configuration (NewHub) ------------------------------------------------------------
   config_keyset is the model of NewHub's reading of [sessions] hashkey / blockkey; keys are their own
   bytes.  A block key of 16, 24 or 32 bytes IS the block key of the hub (never dropped, never replaced),
   an empty one means none, every other length is refused; different configurations give different key
   sets. *)
Theorem C15_config_keyset_accepts : forall h b ks, config_keyset h b = Some ks ->
  hk ks = h /\
  ((b = [] /\ bk ks = None) \/
   (bk ks = Some b /\ (List.length b = 16 \/ List.length b = 24 \/ List.length b = 32)%nat)).
Proof. exact config_keyset_accepts. Qed.
Theorem C15_config_keyset_refuses : forall h b, config_keyset h b = None <->
  (List.length b <> 0 /\ List.length b <> 16 /\ List.length b <> 24 /\ List.length b <> 32)%nat.
Proof. exact config_keyset_refuses. Qed.
Theorem C15_config_keeps_block_key : forall h b,
  (List.length b = 16 \/ List.length b = 24 \/ List.length b = 32)%nat ->
  config_keyset h b = Some {| hk := h; bk := Some b |}.
Proof. exact config_keyset_keeps_block_key. Qed.
Theorem C15_config_keysets_differ : forall h1 b1 h2 b2 ks,
  config_keyset h1 b1 = Some ks -> config_keyset h2 b2 = Some ks -> h1 = h2 /\ b1 = b2.
Proof. exact config_keyset_inj. Qed.

(* ids of a hub with a configured block key carry the value encrypted with THAT key ... *)
Theorem C15_config_ids_encrypted : forall (data : Type) (O : oracles bytes bytes data) r h b ks ts iv d s, b <> [] ->
  config_keyset h b = Some ks -> encode O r ks ts iv d = Ok s ->
  exists p, ser O d = Some p /\
    let v := b64enc (iv ++ ctr O b iv p) in
    s = id_string r ts v (hmac O h (mac_msg (role_name r) ts v)).
Proof. exact @config_encode_form. Qed.

(* ... C15_key_separation for configured hubs: acceptance by two hubs forces the HMAC equation between
   their two hash keys ... *)
Theorem C15_config_key_separation : forall (data : Type) (O : oracles bytes bytes data) r h1 b1 h2 b2 k1 k2 s d1 d2,
  config_keyset h1 b1 = Some k1 -> config_keyset h2 b2 = Some k2 ->
  decode O r k1 s = Ok d1 -> decode O r k2 s = Ok d2 ->
  exists ts v, s = id_string r ts v (hmac O h1 (mac_msg (role_name r) ts v)) /\
    hmac O h1 (mac_msg (role_name r) ts v) = hmac O h2 (mac_msg (role_name r) ts v).
Proof. exact @config_key_separation. Qed.

(* ... and what a hub configured with another block key (or none) can make of such an id: only what
   protobuf reads out of the value after ITS key was applied on top of the minting hub's key (the plain
   serialization comes back only if the two keystreams cancel).  Partial in the sense of
   C15_key_separation_blockkey_refuted: when protobuf accepts those bytes the id is accepted (known finding
   C15/codec/blockkey-not-authenticated); a hub that ran WITHOUT its configured block key would hand
   the plain serialization to every other such hub, which is what the cases of mode 3 look for. *)
Theorem C15_config_other_block_key_partial : forall (data : Type) (O : oracles bytes bytes data) r h1 b1 h2 b2 k1 k2 ts iv d s d2,
  b1 <> [] -> List.length iv = iv_size -> parse_int_ok ts = true ->
  config_keyset h1 b1 = Some k1 -> config_keyset h2 b2 = Some k2 ->
  encode O r k1 ts iv d = Ok s -> decode O r k2 s = Ok d2 ->
  exists p, ser O d = Some p /\
    match b2 with
    | [] => deser O (iv ++ ctr O b1 iv p) = Some d2
    | _ => ctr O b1 iv p <> [] /\ deser O (ctr O b2 iv (ctr O b1 iv p)) = Some d2
    end.
Proof. exact @config_other_block_key. Qed.

Print Assumptions C15_b64_roundtrip.
Print Assumptions C15_b64_decoder_ignores_line_breaks.
Print Assumptions C15_b64_line_break_inserted.
Print Assumptions C15_b64_trailing_bits_4.
Print Assumptions C15_b64_trailing_bits_2.
Print Assumptions C15_b64_canonical_iff_encoder_output.
Print Assumptions C15_b64_canonical_unique.
Print Assumptions C15_split3_unambiguous.
Print Assumptions C15_split3_inverts_join.
Print Assumptions C15_role_messages_differ.
Print Assumptions C15_decode_encode_partial.
Print Assumptions C15_decode_encode_without_block_key.
Print Assumptions C15_stream_ok_from_cipher_laws.
Print Assumptions C15_decode_encode_empty_value_refuted.
Print Assumptions C15_decode_sound.
Print Assumptions C15_decode_complete.
Print Assumptions C15_encode_form.
Print Assumptions C15_modification.
Print Assumptions C15_modification_lax.
Print Assumptions C15_lax_accepts_respelling_private.
Print Assumptions C15_lax_accepts_respelling_public.
Print Assumptions C15_modification_lax_refuted.
Print Assumptions C15_repaired_refuses_witness.
Print Assumptions C15_role_separation.
Print Assumptions C15_role_separation_swap.
Print Assumptions C15_key_separation.
Print Assumptions C15_key_separation_blockkey_refuted.
Print Assumptions C15_hub_exact_match.
Print Assumptions C15_cache_key_injective.
Print Assumptions C15_cache_key_injective_general.
Print Assumptions C15_cache_sound.
Print Assumptions C15_cache_sound_initially.
Print Assumptions C15_cache_transparent.
Print Assumptions C15_hub_lookup_sound.
Print Assumptions C15_sessions_are_handed_out.
Print Assumptions C15_hub_decode_sound.
Print Assumptions C15_hub_decode_complete.
Print Assumptions C15_hub_decode_refuses.
Print Assumptions C15_hub_decode_history.
Print Assumptions C15_hub_role_separation.
Print Assumptions C15_hub_role_separation_swap.
Print Assumptions C15_hub_decode_is_codec.
Print Assumptions C15_hub_is_codec_history.
Print Assumptions C15_hub_minted_ids_decode.
Print Assumptions C15_hub_minted_ids_hub_decode.
Print Assumptions C15_prefill_own_data_sound.
Print Assumptions C15_prefill_other_data_is_answered.
Print Assumptions C15_prefill_other_data_refuted.
Print Assumptions C15_config_keyset_accepts.
Print Assumptions C15_config_keyset_refuses.
Print Assumptions C15_config_keeps_block_key.
Print Assumptions C15_config_keysets_differ.
Print Assumptions C15_config_ids_encrypted.
Print Assumptions C15_config_key_separation.
Print Assumptions C15_config_other_block_key_partial.

From Verif Require Import corr.Run_C15.
(* the trace predicate of the hub cases on the decoders: an id handed out decodes under its own role
   to the registered data; the same string under the other role, and a text never handed out, must
   not decode (step 3 is where the first trace goes wrong: the public id answered as a private one) *)
Example C15_P_hub_roles :
  let reg := (XRegister (cd 1%N 1%N) "1"%string [] "1"%string [] no_answers, WIds "PRIV"%string "PUB"%string) in
  let dec r which ob := (XDecode r (SMut 0 which MId) 0%N no_answers, ob) in
  P_hub_go 0 [] [] [] [reg; dec Private Private (WData (cd 1%N 1%N)); dec Public Public (WData (cd 1%N 1%N));
                       dec Private Public (WData (cd 1%N 1%N))] = Some 3%nat /\
  P_hub_go 0 [] [] [] [reg; dec Public Private (WData (cd 1%N 1%N))] = Some 1%nat /\
  P_hub_go 0 [] [] [] [reg; dec Private Private (WData (cd 1%N 2%N))] = Some 1%nat /\
  P_hub_go 0 [] [] [] [reg; dec Private Private WNoData] = Some 1%nat /\
  P_hub_go 0 [] [] [] [reg; dec Private Private (WData (cd 1%N 1%N)); dec Public Public (WData (cd 1%N 1%N));
                       dec Private Public WNoData; dec Public Private WNoData;
                       (XRemove 1%N, WNone); dec Private Private (WData (cd 1%N 1%N)); dec Public Private WNoData;
                       (XDecode Private (SLit "x"%string) 0%N no_answers, WNoData)] = None.
Proof. vm_compute. repeat split; reflexivity. Qed.

(* the clause on hub and codec side by side (XBoth), on ids of both request paths: both answers are the data
   the id was made with; the hub answering the data of ANOTHER session for the private id of a virtual session
   while the codec answers the right one (a cache entry pre-filled with foreign data) fails at that step, and so
   does a codec answer that is not the minted data, or an answer for the other role *)
Example C15_P_hub_request_paths :
  let reg := (XRegister (cd 1%N 1%N) "1"%string [] "1"%string [] no_answers, WIds "PRIV"%string "PUB"%string) in
  let add := (XAddSession (cd 2%N 2%N) "1"%string [] "1"%string [] no_answers, WIds "VPRIV"%string "VPUB"%string) in
  let both i r which hv cv := (XBoth r (SMut i which MId) 0%N no_answers, WBoth hv cv) in
  let p := Some (cd 1%N 1%N) in let v := Some (cd 2%N 2%N) in
  P_hub_go 0 [] [] [] [reg; add; both 0%nat Private Private p p; both 1%nat Private Private v v; both 1%nat Public Public v v;
                       both 1%nat Public Private None None; (XRemove 2%N, WNone); both 1%nat Private Private v v;
                       (XPrefill Private (SMut 1 Private MId) 0%N no_answers, WNone);
                       (XInvalidate Public (SMut 1 Public MId) 0%N, WNone); both 1%nat Public Public v v] = None /\
  P_hub_go 0 [] [] [] [reg; add; both 1%nat Private Private p v] = Some 2%nat /\
  P_hub_go 0 [] [] [] [reg; add; both 1%nat Private Private p p] = Some 2%nat /\
  P_hub_go 0 [] [] [] [reg; add; both 1%nat Private Private None v] = Some 2%nat /\
  P_hub_go 0 [] [] [] [reg; add; both 1%nat Private Private v None] = Some 2%nat /\
  P_hub_go 0 [] [] [] [reg; add; both 1%nat Private Public v v] = Some 2%nat.
Proof. vm_compute. repeat split; reflexivity. Qed.

(* ---- the key sets of the cases of mode 3 (corr/Run_C15.v) are the model's reading of the configurations ---- *)
From Coq Require Import Lia.

Lemma key_num_snoc : forall b c, key_num (b ++ [c]) = (key_num b * 256 + N_of_ascii c)%N.
Proof. intros b c. unfold key_num. rewrite fold_left_app. reflexivity. Qed.
Lemma key_num_pos : forall b, (1 <= key_num b)%N.
Proof.
  intro b. induction b as [|c b IH] using rev_ind; [cbn; lia|]. rewrite key_num_snoc. lia.
Qed.
Theorem C15_config_key_numbers_injective : forall a b, key_num a = key_num b -> a = b.
Proof.
  intro a. induction a as [|x a IH] using rev_ind; intros b E.
  - destruct b as [|y b _] using rev_ind; [reflexivity|]. rewrite key_num_snoc in E.
    pose proof (key_num_pos b). change (key_num []) with 1%N in E. lia.
  - destruct b as [|y b _] using rev_ind.
    + rewrite key_num_snoc in E. pose proof (key_num_pos a). change (key_num []) with 1%N in E. lia.
    + rewrite !key_num_snoc in E.
      pose proof (N_ascii_bounded x). pose proof (N_ascii_bounded y).
      assert (key_num a = key_num b /\ N_of_ascii x = N_of_ascii y) as [E1 E2] by lia.
      rewrite (IH _ E1). f_equal. f_equal.
      rewrite <- (ascii_N_embedding x), <- (ascii_N_embedding y), E2. reflexivity.
Qed.

(* two configurations get the same key set on the Coq side of the comparison exactly when the
   model reads the same key set out of them *)
Theorem C15_config_cases_use_the_model_keysets : forall c1 c2 k1 k2, cfg_kspec c1 = Some k1 -> cfg_kspec c2 = Some k2 ->
  (kspec_eqb k1 k2 = true <-> config_keyset (fst c1) (snd c1) = config_keyset (fst c2) (snd c2)).
Proof.
  intros c1 c2 k1 k2 H1 H2. unfold cfg_kspec in *.
  destruct (config_keyset (fst c1) (snd c1)) as [[h1 b1]|]; [|discriminate].
  destruct (config_keyset (fst c2) (snd c2)) as [[h2 b2]|]; [|discriminate].
  injection H1 as <-. injection H2 as <-. unfold kspec_eqb. cbn [fst snd hk bk].
  split.
  - intro E. apply andb_true_iff in E. destruct E as [E1 E2]. apply N.eqb_eq in E1. apply C15_config_key_numbers_injective in E1. subst h2.
    destruct b1 as [x|], b2 as [y|]; cbn [option_map] in E2; try discriminate; [|reflexivity].
    apply N.eqb_eq in E2. apply C15_config_key_numbers_injective in E2. subst y. reflexivity.
  - intro E. injection E as -> E. subst b2. rewrite N.eqb_refl. destruct b1; cbn [option_map andb]; [apply N.eqb_refl | reflexivity].
Qed.
Print Assumptions C15_config_key_numbers_injective.
Print Assumptions C15_config_cases_use_the_model_keysets.

(* P_C15 on a trace of two configured hubs that share the hash key: the second hub answering with the
   data for an id of the first is a violation unless the two configurations give the same key set *)
Example C15_P_config_block_keys :
  let h := bs "0123456789abcdef0123456789abcdef" in
  let kss (b1 b2 : string) := cfg_kss [cf h (bs b1); cf h (bs b2)] in
  let tr ob := [(CMint Private 0 (cd 5%N 1%N) "1"%string [] no_answers, VId "ID"%string);
                (CDec Private 0 (SMut 0 Private MId) 0%N no_answers, VData (cd 5%N 1%N));
                (CDec Private 1 (SMut 0 Private MId) 0%N no_answers, ob)] in
  P_codec (kss "0123456789abcdef"%string "fedcba9876543210"%string) 0 [] [] (tr (VData (cd 5%N 1%N))) = Some 2%nat /\
  P_codec (kss "0123456789abcdef"%string ""%string) 0 [] [] (tr (VData (cd 5%N 1%N))) = Some 2%nat /\
  P_codec (kss "0123456789abcdef"%string "fedcba9876543210"%string) 0 [] [] (tr (VErr EDeser)) = None /\
  P_codec (kss "0123456789abcdef"%string "0123456789abcdef"%string) 0 [] [] (tr (VData (cd 5%N 1%N))) = None /\
  P_codec (kss "0123456789abcdef"%string "0123456789abcdef"%string) 0 [] [] (tr (VErr EDeser)) = Some 2%nat /\
  cfg_kspec (cf h (bs "0123456789abcde")) = None.
Proof. vm_compute. repeat split; reflexivity. Qed.
