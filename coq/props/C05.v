(* C05 — Messages reach exactly the addressed sessions, once, with the true sender. *)
From Coq Require Import List NArith Bool.
From Verif Require Import model.Hub proofs.Hub_easy proofs.Hub_route.
Import ListNotations.
Open Scope N_scope.

(* Session recipient: exactly one copy to the addressed session's connection; the sender block is
   (session id, user id) of the authenticated session — the op carries no sender field at all, whatever
   the client writes there is not an input of the routing. *)
Theorem C05_message_to_session : forall h c sid s n t c' tag,
  conn_session h c sid s -> get_sess h n = Some t -> is_virtual t.(s_kind) = false ->
  t.(s_backend) = s.(s_backend) -> n <> sid -> t.(s_conn) = Some c' ->
  snd (step h (OMsg c (RSession (IdPub n)) tag)) =
  [ToConn c' (delivered 0 (RSession (IdPub n)) sid (sess_userid h sid s) None tag)].
Proof. exact message_to_session. Qed.
Theorem C05_never_back_to_the_sender : forall h sid s kindn tag t,
  get_sess h sid = Some t -> t.(s_backend) = s.(s_backend) ->
  do_message h sid s kindn (RSession (IdPub sid)) tag true = (h, []).
Proof. exact message_to_self_dropped. Qed.
Theorem C05_unknown_id_reaches_nobody : forall h sid s kindn i tag,
  (forall n, i = IdPub n -> get_sess h n = None) -> snd (do_message h sid s kindn (RSession i) tag true) = [].
Proof. exact message_to_unknown_id_reaches_nobody. Qed.
Theorem C05_own_user_gets_nothing : forall h sid s kindn tag,
  do_message h sid s kindn (RUser (sess_userid h sid s)) tag true = (h, []).
Proof. exact user_message_to_own_user_dropped. Qed.
Theorem C05_no_room_no_room_message : forall h sid s kindn tag,
  s.(s_room) = None -> do_message h sid s kindn RRoom tag true = (h, []) /\ do_message h sid s kindn RCall tag true = (h, []).
Proof. exact room_message_outside_room_dropped. Qed.

(* Room / call / user recipients: published once on the subject of the sender's room / user with the
   authentic sender block; the listeners of that subject are exactly the sessions of that room / user
   (C03_room_listeners_same_room, C03_user_listeners_same_backend); each listener drops the copy when
   it is the sender, or when the message is for the call and it is not in the call, and otherwise
   hands exactly one copy to its connection or queue. *)
Theorem C05_call_message_published : forall h sid s k kindn tag,
  s.(s_room) = Some k ->
  do_message h sid s kindn RCall tag true =
  (publish h (SubjRoom (fst k) (snd k)) (AEvent (delivered kindn RCall sid (sess_userid h sid s) None tag) sid true), []).
Proof. exact call_message_published. Qed.
Theorem C05_listener_filters : forall h x t m sender co tm,
  get_sess h x = Some t ->
  (sender = x /\ sender <> 0 -> recv_event h x m sender co false tm = (h, [])) /\
  (co = true -> in_call h x t = false -> recv_event h x m sender co false tm = (h, [])) /\
  (sender <> x -> (co = true -> in_call h x t = true) -> recv_event h x m sender co false tm = send_session h x m).
Proof. exact listener_filters. Qed.
(* C05_route_refines_spec_partial: the composition of these steps over the whole listener list
   (Permutation of deliveries with route_spec) is not proved; it is what P_C05 (corr/Hub_preds.v:
   route_spec, step_C05) checks on every implementation trace. *)

Print Assumptions C05_message_to_session.
Print Assumptions C05_never_back_to_the_sender.
Print Assumptions C05_unknown_id_reaches_nobody.
Print Assumptions C05_own_user_gets_nothing.
Print Assumptions C05_no_room_no_room_message.
Print Assumptions C05_call_message_published.
Print Assumptions C05_listener_filters.
