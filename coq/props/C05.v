(* C05 — Messages reach exactly the addressed sessions, once, with the true sender. *)
From Coq Require Import List NArith Bool.
From Verif Require Import proofs.Hub_wf proofs.Hub_routing_inv corr.Hub_preds proofs.Hub_refuted proofs.Hub_routing.
From Verif Require Import model.Hub proofs.Hub_easy proofs.Hub_route.
Import ListNotations.
Open Scope N_scope.

(* Session recipient: exactly one copy to the addressed session's connection; the sender block is
   (session id, user id) of the authenticated session — the op carries no sender field at all, whatever
   the client writes there is not an input of the routing. *)
Theorem C05_message_to_session : forall h c sid s n t c' tag,
  conn_session h c sid s -> get_sess h n = Some t -> is_virtual t.(s_kind) = false ->
  t.(s_backend) = s.(s_backend) -> n <> sid -> t.(s_conn) = Some c' ->
  snd (step h (OMsg c (RSession (IdPub n)) tag)) =
  [ToConn c' (delivered 0 (RSession (IdPub n)) sid (sess_userid h sid s) None tag)].
Proof. exact message_to_session. Qed.
Theorem C05_never_back_to_the_sender : forall h sid s kindn tag t,
  get_sess h sid = Some t -> t.(s_backend) = s.(s_backend) ->
  do_message h sid s kindn (RSession (IdPub sid)) tag true = (h, []).
Proof. exact message_to_self_dropped. Qed.
Theorem C05_unknown_id_reaches_nobody : forall h sid s kindn i tag,
  (forall n, i = IdPub n -> get_sess h n = None) -> snd (do_message h sid s kindn (RSession i) tag true) = [].
Proof. exact message_to_unknown_id_reaches_nobody. Qed.
Theorem C05_own_user_gets_nothing : forall h sid s kindn tag,
  do_message h sid s kindn (RUser (sess_userid h sid s)) tag true = (h, []).
Proof. exact user_message_to_own_user_dropped. Qed.
Theorem C05_no_room_no_room_message : forall h sid s kindn tag,
  s.(s_room) = None -> do_message h sid s kindn RRoom tag true = (h, []) /\ do_message h sid s kindn RCall tag true = (h, []).
Proof. exact room_message_outside_room_dropped. Qed.

(* Room / call / user recipients: published once on the subject of the sender's room / user with the
   authentic sender block; the listeners of that subject are exactly the sessions of that room / user
   (C03_room_listeners_same_room, C03_user_listeners_same_backend); each listener drops the copy when
   it is the sender, or when the message is for the call and it is not in the call, and otherwise
   hands exactly one copy to its connection or queue. *)
Theorem C05_call_message_published : forall h sid s k kindn tag,
  s.(s_room) = Some k ->
  do_message h sid s kindn RCall tag true =
  (publish h (SubjRoom (fst k) (snd k)) (AEvent (delivered kindn RCall sid (sess_userid h sid s) None tag) sid true), []).
Proof. exact call_message_published. Qed.
Theorem C05_listener_filters : forall h x t m sender co tm,
  get_sess h x = Some t ->
  (sender = x /\ sender <> 0 -> recv_event h x m sender co false tm = (h, [])) /\
  (co = true -> in_call h x t = false -> recv_event h x m sender co false tm = (h, [])) /\
  (sender <> x -> (co = true -> in_call h x t = true) -> recv_event h x m sender co false tm = send_session h x m).
Proof. exact listener_filters. Qed.
(* ---- the composition over the whole listener list (proofs/Hub_routing.v) ----
   h: any state with WF h (Hub_wf.v), RI h (Hub_routing_inv.v) - both hold in every reachable state - and an
   empty bus queue; o = op_of ctl c to tag is OMsg c to tag (ctl = false) or OCtl c to tag (ctl = true);
   conn_sess h c sid s: connection c is attached to session sid = s. *)

(* The outputs of the quiescent step are, in order, exactly the copies the reference routing of
   corr/Hub_preds.v prescribes (route_spec; nothing when a control message is not allowed): one per
   addressed session that has a connection, with the sender block of the session of c and the rewritten
   recipient for a virtual target. *)
Theorem C05_outputs_are_the_reference : forall ctl h c to tag sid s,
  WF h -> RI h -> h_bus h = [] -> conn_sess h c sid s ->
  snd (qstep h (op_of ctl c to tag)) =
  outs_of (ref_copies (digest_of h) (kind_of ctl) (sd_of h (sid, s)) to tag
                      (ref_targets (digest_of h) ctl (sd_of h (sid, s)) to)).
Proof. exact msg_outputs. Qed.
Theorem C05_no_session_no_message : forall ctl h c to tag,
  WF h -> h_bus h = [] -> (forall sid s, ~ conn_sess h c sid s) ->
  snd (qstep h (op_of ctl c to tag)) = [] \/ snd (qstep h (op_of ctl c to tag)) = [ToConn c (SError E_hello_expected)].
Proof. exact msg_outputs_nosess. Qed.

(* The model satisfies the predicate the harness evaluates on the implementation's traces. *)
Theorem C05_step_predicate_holds : forall ctl h c to tag,
  WF h -> RI h -> h_bus h = [] ->
  step_C05 (digest_of h) (op_of ctl c to tag) (obs_of_outs (snd (qstep h (op_of ctl c to tag)))) = true.
Proof. exact msg_step_C05. Qed.

(* Never back to the sender: the only copy written to the sender's own connection is the one for a
   virtual session whose internal client is the sender, recipient rewritten. *)
Theorem C05_not_back_to_the_sender : forall ctl h c to tag sid s m,
  WF h -> RI h -> h_bus h = [] -> conn_sess h c sid s ->
  In (ToConn c m) (snd (qstep h (op_of ctl c to tag))) ->
  exists n t v, to = RSession (IdPub n) /\ get_sess h n = Some t /\ s_kind t = KVirtual sid v /\
                m = the_msg h (kind_of ctl) sid s to (Some (RcptVirtual v)) tag.
Proof. exact msg_not_to_sender. Qed.
(* Every copy goes to the connection of a (non-virtual) session of the sender's backend. *)
Theorem C05_only_the_senders_backend : forall ctl h c to tag sid s c' m,
  WF h -> RI h -> h_bus h = [] -> conn_sess h c sid s ->
  In (ToConn c' m) (snd (qstep h (op_of ctl c to tag))) ->
  exists r t, get_sess h r = Some t /\ s_conn t = Some c' /\ s_backend t = s_backend s /\ is_virtual (s_kind t) = false.
Proof. exact msg_same_backend. Qed.

(* Addressed sessions without a connection get the message appended to their queue (enqueue: one
   chat-refresh notice is kept); nobody else's queue changes. *)
Theorem C05_queued_for_the_disconnected : forall ctl h c to tag sid s y,
  WF h -> RI h -> h_bus h = [] -> conn_sess h c sid s ->
  pend (fst (qstep h (op_of ctl c to tag))) y =
  match find (fun e => N.eqb (fst e) y) (ref_targets (digest_of h) ctl (sd_of h (sid, s)) to) with
  | Some e => if disc h y then enqueue (pend h y) (the_msg h (kind_of ctl) sid s to (snd e) tag) else pend h y
  | None => pend h y
  end.
Proof. exact msg_queues. Qed.

(* Nothing but pending queues, the clock and the bus counters changes (erase_h blanks exactly those;
   pq_tables spells the equation out table by table); the bus queue is empty again. *)
Theorem C05_nothing_else_changes : forall ctl h c to tag,
  WF h -> RI h -> h_bus h = [] ->
  erase_h (fst (qstep h (op_of ctl c to tag))) = erase_h h /\
  h_bus (fst (qstep h (op_of ctl c to tag))) = [] /\ h_clock h <= h_clock (fst (qstep h (op_of ctl c to tag))).
Proof. exact msg_tables_unchanged. Qed.

(* The invariant of the routing theorems holds in every reachable state. *)
Theorem C05_invariant_every_history : forall limits gated ops, RI (qrun (init limits gated) ops).
Proof. exact ri_reachable_q. Qed.

(* Every history: the property, as the harness evaluates it (P_hub 5), finds nothing on the model's own
   trace, provided the bus queue is empty whenever a message op starts (quiet). *)
Theorem C05_every_history : forall limits gated ops,
  quiet (init limits gated) ops -> P_hub 5 (model_case_g limits gated ops) = None.
Proof. exact Hub_routing.C05_every_history. Qed.

(* quiet is needed: drain has fuel 500, so the bus queue is not empty after every op ... *)
Theorem C05_bus_empty_after_qstep_refuted : exists limits ops, h_bus (qrun (init limits false) ops) <> [].
Proof. exact bus_empty_after_qstep_refuted. Qed.
(* ... (it is empty exactly when 500 deliveries suffice) ... *)
Theorem C05_bus_empty_when_drained : forall h o f,
  (f <= 500)%nat -> h_bus (fst (drain f (fst (step h o)))) = [] -> h_bus (fst (qstep h o)) = [].
Proof. exact qstep_bus_empty. Qed.
(* ... and a message op that starts with a publication still queued is not routed as prescribed. *)
Theorem C05_history_needs_empty_bus_refuted :
  quietb (init [0] false) leftover_ops = false /\ P_hub 5 (model_case_g [0] false leftover_ops) = Some (7, 1).
Proof. exact history_needs_empty_bus_refuted. Qed.

(* The one copy that comes back on the sender's connection (by design: a virtual session's transport
   is its internal client's connection). *)
Example C05_message_to_own_virtual_session :
  snd (qstep (qrun (init [0] false) (removelast own_virtual_ops)) (OMsg 1 (RSession (IdPub 3)) 42)) =
    [ToConn 1 (SMsg 0 0 1 0 (Some (RcptVirtual 7)) 42)] /\
  P_hub 5 (model_case_g [0] false own_virtual_ops) = None.
Proof. exact message_to_own_virtual_session. Qed.

Print Assumptions C05_message_to_session.
Print Assumptions C05_never_back_to_the_sender.
Print Assumptions C05_unknown_id_reaches_nobody.
Print Assumptions C05_own_user_gets_nothing.
Print Assumptions C05_no_room_no_room_message.
Print Assumptions C05_call_message_published.
Print Assumptions C05_listener_filters.
Print Assumptions C05_outputs_are_the_reference.
Print Assumptions C05_no_session_no_message.
Print Assumptions C05_step_predicate_holds.
Print Assumptions C05_not_back_to_the_sender.
Print Assumptions C05_only_the_senders_backend.
Print Assumptions C05_queued_for_the_disconnected.
Print Assumptions C05_nothing_else_changes.
Print Assumptions C05_invariant_every_history.
Print Assumptions C05_every_history.
Print Assumptions C05_bus_empty_after_qstep_refuted.
Print Assumptions C05_bus_empty_when_drained.
Print Assumptions C05_history_needs_empty_bus_refuted.
Print Assumptions C05_message_to_own_virtual_session.
