(* C18 — The media proxy serves only token holders and cleans up after them.
   Only statements here; proofs are in proofs/Proxy_proofs.v.

   sv   : the signature check of the library (crypto/rsa through golang-jwt),
          sv alg key signing-input signature
   keys : the configured issuer -> key table
   Both are universally quantified in every theorem.  `step sv keys true` is the
   model of the repaired code, `step sv keys false` of the code as found.       *)
From Coq Require Import List ZArith NArith Bool String Lia.
From Verif Require Import gen.Params model.Proxy corr.Run_C18 proofs.Proxy_proofs proofs.Proxy_refs.
Import ListNotations.
Open Scope N_scope.

(* The algorithm allow-list and the time constants of the current source are the
   ones the property names. *)
Theorem C18_params :
  proxy_valid_methods = ["RS256"; "RS384"; "RS512"]%string /\
  proxy_maxTokenAge = (5 * 60 * 1000000000)%Z /\
  proxy_tokenLeeway = (60 * 1000000000)%Z /\
  proxy_sessionExpirationTime = (60 * 1000000000)%Z.
Proof. exact params_ok. Qed.

(* proxy_hello_sound: whenever an operation makes a session exist that did not
   exist before, the operation was a hello whose token names RS256/384/512, is
   signed (sv) by the key configured for its issuer, and was issued at most five
   minutes (plus one minute of clock difference) ago and at most one minute ahead;
   exp / nbf, when present, are respected with the same minute.  Any state, any
   operation, repaired code or not. *)
Theorem C18_hello_sound : forall sv keys rc st o x,
  live (fst (step sv keys rc st o)) x -> ~ live st x ->
  exists c now t, o = OHello c now t /\
    t_wf t = true /\ In (t_alg t) ["RS256"; "RS384"; "RS512"]%string /\ t_sigdec t = true /\
    exists k, keys (t_iss t) = Some k /\ sv (t_alg t) k (t_text t) (t_sig t) = true /\
    exists i, t_iat t = Some i /\
      (now - (5 * 60 * 1000000000 + 60 * 1000000000) <= i <= now + 60 * 1000000000)%Z /\
      (forall e, t_exp t = Some e -> now < e + 60 * 1000000000)%Z /\
      (forall n, t_nbf t = Some n -> n - 60 * 1000000000 <= now)%Z.
Proof. exact hello_sound. Qed.

(* ... and the conditions are exactly the accepted ones (the check is not stricter). *)
Theorem C18_token_complete : forall sv keys now t k i,
  t_wf t = true -> In (t_alg t) ["RS256"; "RS384"; "RS512"]%string -> t_sigdec t = true ->
  keys (t_iss t) = Some k -> sv (t_alg t) k (t_text t) (t_sig t) = true ->
  t_iat t = Some i ->
  (now - (5 * 60 * 1000000000 + 60 * 1000000000) <= i <= now + 60 * 1000000000)%Z ->
  (forall e, t_exp t = Some e -> now < e + 60 * 1000000000)%Z ->
  (forall n, t_nbf t = Some n -> n - 60 * 1000000000 <= now)%Z ->
  check_token sv keys now t = None.
Proof. exact check_token_complete. Qed.

(* proxy_prehello_refused: a command, payload, bye, unknown or malformed message
   on a connection that has no session leaves the state unchanged and is answered
   with hello_expected (invalid_format for a malformed message); nothing at all
   happens when the connection is closed or blocked. *)
Theorem C18_prehello_refused : forall sv keys rc st o c,
  client_msg_conn o = Some c -> cs_sess (conns st c) = None ->
  refused st c (step sv keys rc st o) /\
  (cs_closed (conns st c) = false -> cs_busy (conns st c) = false ->
   match o with OMalformed _ _ => False | _ => True end ->
   snd (step sv keys rc st o) = {| applied := true; msgs := [(c, MErr EHelloExpected)] |}).
Proof. exact prehello_refused. Qed.

(* The whole property as the trace predicate P_C18 (corr/Run_C18.v, written from
   the property text) holds on the trace of every list of operations: any number
   of connections and sessions, any tokens, any interleaving of commands,
   payloads, drops, resumes, expiries, media-server loss and media-server
   completions (repaired code); bye and expiry also as the close in its phases
   (OByeIn / OExpireIn: deleted from the list and detached / context cancelled /
   publishers cleared / subscribers cleared / remote publishers cleared and waiting
   for the sessions list) with any creations completing in any of the windows. *)
Theorem C18_trace : forall sv keys ops, P_C18 sv keys (trace_of sv keys true ops) = true.
Proof. exact P_holds. Qed.

(* proxy_cleanup, in every reachable state and without a quiescence hypothesis:
   every object that resolves through the client table or is open at the media
   server belongs to a session that exists, and is in that session's own table.
   Hence nothing of a session that ended, expired, or was never there resolves or
   stays open. *)
Theorem C18_cleanup : forall sv keys ops e,
  In e (clients (run sv keys ops) ++ mopen (run sv keys ops)) ->
  live (run sv keys ops) (e_owner e) /\
  exists s, In s (sessions (run sv keys ops)) /\ ss_sid s = e_owner e /\ owns s (e_kind e) (e_id e) = true.
Proof. intros sv keys ops e H. split; [apply cleanup_all | apply cleanup_owned]; exact H. Qed.

Theorem C18_bye_ends : forall sv keys rc st c sid,
  cs_closed (conns st c) = false -> cs_busy (conns st c) = false -> cs_sess (conns st c) = Some sid ->
  ~ live (fst (step sv keys rc st (OBye c))) sid.
Proof. exact bye_ends. Qed.

Theorem C18_expiry_ends : forall sv keys rc st sid, ~ live (fst (step sv keys rc st (OExpire sid))) sid.
Proof. exact expire_ends. Qed.

(* the close in phases: whatever completes in whichever window of the close, with any
   outcome (and whether or not the continuation looks at the session context again),
   the session is gone when the close returns ... *)
Theorem C18_bye_in_phases_ends : forall sv keys rc st c sid sched,
  cs_closed (conns st c) = false -> cs_busy (conns st c) = false -> cs_sess (conns st c) = Some sid ->
  ~ live (fst (step sv keys rc st (OByeIn c sched))) sid.
Proof. exact bye_in_ends. Qed.

Theorem C18_expiry_in_phases_ends : forall sv keys rc st sid sched,
  ~ live (fst (step sv keys rc st (OExpireIn sid sched))) sid.
Proof. exact expire_in_ends. Qed.

(* ... the invariant of C18_cleanup holds when it returns (C18_cleanup and C18_trace range
   over operation lists that contain OByeIn / OExpireIn); and with nothing completing
   inside, the close in phases is the atomic close of OBye / OExpire. *)
Theorem C18_close_phases_plain : forall rc st sid r,
  close_phased rc st sid r [] = close_session st sid r.
Proof. exact close_phased_plain. Qed.

(* The creation completes inside the close (history of create_after_close with the
   completion moved into the bye, in each of the five windows, publisher and subscriber):
   the repaired code leaves nothing registered or open and P_C18 holds.  Without the second
   look at the session context (code as found) a publisher arriving after clearPublishers
   and a subscriber arriving after clearSubscribers stay behind: that the context is
   cancelled BEFORE the tables are cleared is what makes the second look sufficient. *)
Theorem C18_create_inside_close_repaired :
  forallb (fun w => forallb (fun k =>
     P_C18 sv_all keys_all (trace_of sv_all keys_all true (witness_ops_in w k)) &&
     null (clients (run_gen true (witness_ops_in w k))) && null (mopen (run_gen true (witness_ops_in w k))))
     [CCreatePub; CCreateSub]) all_windows = true.
Proof. exact create_inside_close_repaired. Qed.

Theorem C18_create_inside_close_as_found :
  map (fun w => P_C18 sv_all keys_all (trace_of sv_all keys_all false (witness_ops_in w CCreatePub))) all_windows
    = [true; true; false; false; false] /\
  map (fun w => P_C18 sv_all keys_all (trace_of sv_all keys_all false (witness_ops_in w CCreateSub))) all_windows
    = [true; true; true; false; false] /\
  clients (run_gen false (witness_ops_in PhRemote CCreatePub)) = [(0, Pub, 1)].
Proof. exact create_inside_close_as_found. Qed.

(* a session that is gone never comes back, whatever follows *)
Theorem C18_ended_is_final : forall sv keys rc more st sid,
  sid <= next_sid st -> ~ live st sid ->
  ~ live (fold_left (fun s o => fst (step sv keys rc s o)) more st) sid.
Proof. exact ended_is_final. Qed.

(* loss of the media server: nothing resolves and nothing is open afterwards *)
Theorem C18_mcu_lost_clears : forall sv keys ops,
  let st := fst (step sv keys true (run sv keys ops) OMcuLost) in clients st = [] /\ mopen st = [].
Proof. exact mcu_lost_clears. Qed.

(* delete_owner_only: in every reachable state, delete-publisher / delete-subscriber
   for an object asked on a connection whose session is not the object's creator
   changes nothing and is answered with errors only. *)
Theorem C18_delete_owner_only : forall sv keys ops c k id e,
  let st := run sv keys ops in
  In e (clients st) -> e_id e = id -> cs_sess (conns st c) <> Some (e_owner e) ->
  let r := step sv keys true st (OCmd c (match k with Pub => CDeletePub id | Sub => CDeleteSub id end)) in
  fst r = st /\ forall x, In x (msgs (snd r)) -> exists er, x = (c, MErr er).
Proof. exact delete_owner_only. Qed.

(* create_after_close: the code as found violates the property.  A session says
   hello, asks for a publisher; while the media server is working another
   connection resumes the session and says bye; then the creation completes: the
   publisher is registered and open although no session exists.
   Full statement that fails for the code as found:
     forall ops, P_C18 sv keys (trace_of sv keys false ops) = true.
   The repaired code (fixes/C18/01-*.patch) re-checks the session after storing;
   for it the full statement is C18_trace above. *)
Theorem C18_create_after_close_refuted :
  exists ops,
    P_C18 sv_all keys_all (trace_of sv_all keys_all false ops) = false /\
    sessions (run_gen false ops) = [] /\
    clients (run_gen false ops) = [(0, Pub, 1)] /\ mopen (run_gen false ops) = [(0, Pub, 1)].
Proof. exists witness_ops. exact create_after_close_refuted. Qed.

Theorem C18_create_after_close_repaired :
  P_C18 sv_all keys_all (trace_of sv_all keys_all true witness_ops) = true /\
  clients (run_gen true witness_ops) = [] /\ mopen (run_gen true witness_ops) = [].
Proof. exact create_after_close_repaired. Qed.

(* ---- non-vacuity ------------------------------------------------------------------------ *)
Definition ex_tok (iss : N) : token :=
  {| t_wf := true; t_alg := "RS384"; t_sigdec := true; t_iss := iss; t_iat := Some 900%Z;
     t_exp := None; t_nbf := None; t_text := iss; t_sig := iss |}.
Definition ex_sv : string -> N -> N -> N -> bool := fun _ k t s => N.eqb k t && N.eqb t s.
Definition ex_keys : N -> option N := fun i => if N.ltb i 2 then Some i else None.
Definition ex_ops : list op :=
  [OCmd 0 CCreatePub; OHello 0 1000%Z (ex_tok 0); OHello 1 1000%Z (ex_tok 1); OHello 2 1000%Z (ex_tok 2);
   OCmd 0 CCreatePub; OMcuDone 0 MOk; OCmd 1 CCreateSub; OMcuDone 1 MOk;
   OCmd 1 (CDeletePub 0); OCmd 0 (CDeleteSub 1); OPayload 1 0 PEnd;
   OCmd 0 (CDeletePub 0); OBye 1; OPayload 0 1 PFwd].

(* two sessions are created (the third token has no configured key), objects are
   created, foreign deletes are refused, the owner's delete works, bye cleans up *)
Example C18_nonvacuous_trace :
  map (fun x => ob_msgs (snd x)) (trace_of ex_sv ex_keys true ex_ops) =
  [ [(0, MErr EHelloExpected)];
    [(0, MHello 1); (0, MEvLoad)]; [(1, MHello 2); (1, MEvLoad)]; [(2, MErr EAuthFailed)];
    []; [(0, MCmd 0)]; []; [(1, MCmd 1)];
    [(1, MErr EUnknownClient)]; [(0, MErr EUnknownClient)]; [(1, MPayload 0)];
    [(0, MCmd 0)]; [(1, MBye RClosed)]; [(0, MErr EUnknownClient)] ] /\
  P_C18 ex_sv ex_keys (trace_of ex_sv ex_keys true ex_ops) = true.
Proof. vm_compute. auto. Qed.

(* the hypotheses of C18_delete_owner_only are met by a reachable state *)
Example C18_delete_owner_only_applies :
  let st := run ex_sv ex_keys (firstn 8 ex_ops) in
  In (0, Pub, 1) (clients st) /\ cs_sess (conns st 1) = Some 2 /\ cs_sess (conns st 1) <> Some 1.
Proof. vm_compute. split; [left; reflexivity|]. split; [reflexivity | discriminate]. Qed.

(* the hypotheses of C18_hello_sound are met: the second hello creates session 2 *)
Example C18_hello_sound_applies :
  let st := run ex_sv ex_keys (firstn 2 ex_ops) in
  live (fst (step ex_sv ex_keys true st (OHello 1 1000%Z (ex_tok 1)))) 2 /\ ~ live st 2.
Proof. vm_compute. split; [right; left; reflexivity|]. intros [H|[]]; discriminate. Qed.

(* the close in phases is exercised: session 2 has a subscriber and a publisher being
   created (on a connection it was resumed from); the publisher arrives when the context is
   cancelled, another session's publisher arrives in the last window and is kept *)
Definition ex_ops_in : list op :=
  [OHello 0 1000%Z (ex_tok 0); OHello 1 1000%Z (ex_tok 1); OCmd 1 CCreateSub; OMcuDone 0 MOk;
   OCmd 1 CCreatePub; OResume 2 2; OCmd 0 CCreatePub;
   OByeIn 2 [(PhRemote, 2, MOk); (PhCtx, 1, MOk)]; OPayload 0 1 PEnd; OPayload 0 2 PEnd].
Example C18_nonvacuous_phases :
  map (fun x => ob_msgs (snd x)) (trace_of ex_sv ex_keys true ex_ops_in) =
  [ [(0, MHello 1); (0, MEvLoad)]; [(1, MHello 2); (1, MEvLoad)]; []; [(1, MCmd 0)];
    []; [(1, MEvLoad); (1, MBye RResumed); (2, MHello 2); (2, MEvLoad)]; [];
    [(2, MBye RClosed); (0, MCmd 2)]; [(0, MErr EUnknownClient)]; [(0, MPayload 2)] ] /\
  clients (run ex_sv ex_keys ex_ops_in) = [(2, Pub, 1)] /\
  P_C18 ex_sv ex_keys (trace_of ex_sv ex_keys true ex_ops_in) = true.
Proof. vm_compute. auto. Qed.

(* the hypotheses of C18_prehello_refused and C18_bye_ends are met *)
Example C18_prehello_applies :
  client_msg_conn (OCmd 0 CCreatePub) = Some 0 /\ cs_sess (conns init 0) = None /\
  cs_closed (conns init 0) = false /\ cs_busy (conns init 0) = false.
Proof. vm_compute. auto. Qed.
Example C18_bye_ends_applies :
  let st := run ex_sv ex_keys (firstn 12 ex_ops) in
  cs_closed (conns st 1) = false /\ cs_busy (conns st 1) = false /\ cs_sess (conns st 1) = Some 2 /\ live st 2.
Proof. vm_compute. repeat split. right; left; reflexivity. Qed.
Example C18_token_conditions_satisfiable :
  check_token ex_sv ex_keys 1000%Z (ex_tok 1) = None /\
  check_token ex_sv ex_keys (1000 + 362 * 1000000000)%Z (ex_tok 1) = Some ETokenExpired /\
  check_token ex_sv ex_keys (-62 * 1000000000)%Z (ex_tok 1) = Some ETokenNotValidYet.
Proof. vm_compute. auto. Qed.

(* Remote subscribers (create-subscriber with remoteUrl + remoteToken).  The
   continuation of the handler performs, on the reference-counted remote publisher
   the media server handed out, the operations handler_refops true r for each
   outcome r of its two calls (NewRemotePublisher, NewRemoteSubscriber); in `step`
   the request is a create-subscriber whose completion is rres_mres r.
   After the handler the remote publisher is open exactly when the subscriber was
   created (the completion `step` stores), holding exactly the subscriber's
   reference; the Close of the subscriber (which C18_cleanup / C18_trace guarantee
   at the end of its session) closes it; a failed request leaves nothing. *)
Theorem C18_remote_publisher_refs : forall r,
  refs_after (handler_refops true r) = (if is_ok (rres_mres r) then Some 1 else None) /\
  refs_after (handler_refops true r ++ sub_close_refops r) = None /\
  (is_ok (rres_mres r) = false -> refs_after (handler_refops true r) = None /\ sub_close_refops r = []).
Proof.
  intro r. split; [apply remote_refs_handler|]. split; [apply remote_refs_closed | apply remote_refs_failed].
Qed.

(* The release on EVERY exit is needed: giving the creator's reference back only
   after NewRemoteSubscriber succeeded leaves, for a request whose attach failed, a
   remote publisher open with one reference and no subscriber whose Close would
   ever release it (the differential run sees it as an object open at the media
   server that is in no table: P_C18, cleanup clause). *)
Theorem C18_remote_release_late_refuted : exists r,
  is_ok (rres_mres r) = false /\ sub_close_refops r = [] /\
  refs_after (handler_refops false r ++ sub_close_refops r) = Some 1.
Proof. exact remote_refs_release_late_refuted. Qed.

(* In `step` a remote create-subscriber is a create-subscriber: one pending creation
   of kind Sub, completed by one OMcuDone (whose result is rres_mres of the outcome
   of the two calls at the media server). *)
Theorem C18_remote_create_is_create : forall sv keys rc st c,
  step sv keys rc st (OCmd c CCreateSubRemote) = step sv keys rc st (OCmd c CCreateSub).
Proof. reflexivity. Qed.

(* ---- the reference counts of the remote publishers over histories (proofs/Proxy_refs.v) ----
   The ghost (grun_pair / gstep) rides beside `run` without changing it: g_remote, the
   creation requests that were remote (OCmd c CCreateSubRemote that reached the media
   server); g_refs id, the count of the remote publisher of request id.  At the step in
   which request id stops being in flight the continuation of the handler ran:
   handler_refops ra (oc id), followed by sub_close_refops (oc id) when its subscriber is
   not open afterwards (closed at once); at a step in which its open subscriber stops
   being open (delete-subscriber, end of the session, loss of the media server):
   sub_close_refops RROk.
   oc : N -> rres is the explicit argument that splits the completion alphabet: the outcome
   of NewRemotePublisher / NewRemoteSubscriber for request tok; `consistent oc ops`: every
   completion in ops (OMcuDone tok r, every slot of OByeIn / OExpireIn) has r = rres_mres (oc tok). *)
Theorem C18_remote_refs_state : forall sv keys oc ra ops,
  fst (grun_pair sv keys oc ra ops) = run sv keys ops.
Proof. exact grun_state. Qed.

(* for EVERY history: the table holds one reference for id exactly when id was created by a
   remote request and its subscriber is open at the media server, none otherwise ... *)
Theorem C18_remote_refs_exact : forall sv keys oc ops, consistent oc ops ->
  forall id, rrefs_of sv keys oc true ops id =
             if memN id (remote_of sv keys oc true ops) && sub_open (run sv keys ops) id then Some 1 else None.
Proof. exact remote_refs_exact. Qed.

(* ... as lists: the table has the entries of [(id, 1) | (id, Sub, _) in mopen, id remote] ... *)
Theorem C18_remote_refs_table : forall sv keys oc ops, consistent oc ops ->
  forall x, In x (rtable sv keys oc ops) <-> In x (open_remote_subs sv keys oc ops).
Proof. exact remote_table_exact. Qed.

(* ... and the one reference is held by an open subscriber in the table of the session that
   created it, which exists *)
Theorem C18_remote_refs_owned : forall sv keys oc ops, consistent oc ops ->
  forall id n, rrefs_of sv keys oc true ops id = Some n ->
  n = 1 /\ In id (remote_of sv keys oc true ops) /\
  exists sid s, In (id, Sub, sid) (mopen (run sv keys ops)) /\
                In s (sessions (run sv keys ops)) /\ ss_sid s = sid /\ memN id (ss_subs s) = true.
Proof. exact remote_refs_owned. Qed.

(* once a session has ended nothing is referenced for it, in every history (so: whatever was
   in flight when it ended, and whenever and however that completes); no session, no reference *)
Theorem C18_remote_refs_gone_with_session : forall sv keys oc ops, consistent oc ops ->
  (forall sid, ~ live (run sv keys ops) sid ->
   forall id, rrefs_of sv keys oc true ops id = None \/
              exists sid', sid' <> sid /\ live (run sv keys ops) sid' /\
                           In (id, Sub, sid') (mopen (run sv keys ops)) /\
                           rrefs_of sv keys oc true ops id = Some 1) /\
  (sessions (run sv keys ops) = [] -> forall id, rrefs_of sv keys oc true ops id = None).
Proof.
  intros sv keys oc ops Hc. split;
    [apply remote_refs_gone_with_session | apply remote_refs_none_without_sessions]; exact Hc.
Qed.

(* the seeded placement of the release (only after a successful attach), as a history:
   hello, remote create-subscriber, attach fails, bye - no session, nothing open in the
   state, one reference left on the remote publisher of request 0; none with the code's placement.
   Full statement that fails for ra = false: C18_remote_refs_exact with `false` for `true`. *)
Theorem C18_remote_refs_release_late_refuted : exists oc ops,
  consistent oc ops /\
  sessions (run sv_all keys_all ops) = [] /\ mopen (run sv_all keys_all ops) = [] /\
  remote_of sv_all keys_all oc false ops = [0] /\
  rrefs_of sv_all keys_all oc false ops 0 = Some 1 /\
  rrefs_of sv_all keys_all oc true ops 0 = None.
Proof. exists late_oc, late_ops. exact remote_refs_release_late_history. Qed.

(* non-vacuity: a consistent history with three remote requests (kept / attach failed /
   deleted) and a local subscriber; the computed table; then the bye of the holder *)
Example C18_remote_refs_nonvacuous :
  consistent refs_oc (refs_ops ++ [OBye 0]) /\
  map (rrefs_of sv_all keys_all refs_oc true refs_ops) [0; 1; 2; 3] = [Some 1; None; None; None] /\
  rtable sv_all keys_all refs_oc refs_ops = [(0, 1)] /\
  open_remote_subs sv_all keys_all refs_oc refs_ops = [(0, 1)] /\
  mopen (run sv_all keys_all refs_ops) = [(0, Sub, 1); (3, Sub, 2)] /\
  rtable sv_all keys_all refs_oc (refs_ops ++ [OBye 0]) = [].
Proof. exact remote_refs_example. Qed.

Print Assumptions C18_params.
Print Assumptions C18_hello_sound.
Print Assumptions C18_token_complete.
Print Assumptions C18_prehello_refused.
Print Assumptions C18_trace.
Print Assumptions C18_cleanup.
Print Assumptions C18_bye_ends.
Print Assumptions C18_expiry_ends.
Print Assumptions C18_ended_is_final.
Print Assumptions C18_mcu_lost_clears.
Print Assumptions C18_delete_owner_only.
Print Assumptions C18_bye_in_phases_ends.
Print Assumptions C18_expiry_in_phases_ends.
Print Assumptions C18_close_phases_plain.
Print Assumptions C18_create_inside_close_repaired.
Print Assumptions C18_create_inside_close_as_found.
Print Assumptions C18_create_after_close_refuted.
Print Assumptions C18_create_after_close_repaired.
Print Assumptions C18_remote_publisher_refs.
Print Assumptions C18_remote_release_late_refuted.
Print Assumptions C18_remote_create_is_create.
Print Assumptions C18_remote_refs_state.
Print Assumptions C18_remote_refs_exact.
Print Assumptions C18_remote_refs_table.
Print Assumptions C18_remote_refs_owned.
Print Assumptions C18_remote_refs_gone_with_session.
Print Assumptions C18_remote_refs_release_late_refuted.
