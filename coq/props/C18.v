From Coq Require Import List ZArith NArith Bool String.
From Verif Require Import gen.Params model.Proxy corr.Run_C18.
Theorem C18_placeholder : True. Proof. exact I. Qed.
Print Assumptions C18_placeholder.
