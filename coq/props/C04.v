(* C04 — Room membership is consistent for the server and for every observer. *)
From Coq Require Import List NArith Bool.
From Verif Require Import model.Hub corr.Hub_preds proofs.Hub_wf proofs.Hub_corollaries proofs.Hub_refuted proofs.Hub_observers.
Import ListNotations.
Open Scope N_scope.

(* The invariant holds in every state reachable by any history of client requests, connection
   drops, clock ticks, backend API calls and media-server completions, interleaved with the
   deliveries of queued bus publications in ANY order (ODeliver picks any queue position). *)
Theorem C04_invariant_every_history_every_delivery_order : forall limits gated ops,
  WF (run (init limits gated) ops).
Proof. exact wf_reachable. Qed.
Theorem C04_invariant_quiescent_histories : forall limits gated ops,
  WF (qrun (init limits gated) ops).
Proof. exact wf_reachable_q. Qed.

(* ... and says: the members the server holds for a room are exactly the live sessions whose room
   it is (a session's room is set by its latest successful join and cleared by leave, removal by the
   backend, bye, expiry, kick), *)
Theorem C04_members_are_the_sessions_of_the_room : forall h k sid, WF h ->
  (member h k sid <-> exists s, get_sess h sid = Some s /\ s.(s_room) = Some k).
Proof. exact members_are_the_sessions_of_the_room. Qed.
(* a session is in at most one room, *)
Theorem C04_at_most_one_room : forall h k1 k2 sid, WF h -> member h k1 sid -> member h k2 sid -> k1 = k2.
Proof. exact at_most_one_room. Qed.
(* a room with no members no longer exists, *)
Theorem C04_no_empty_room : forall h k r, WF h -> room_of h k = Some r -> r.(r_members) <> [].
Proof. exact no_empty_room. Qed.
(* and a Nextcloud session id resolves to a session that holds it and is in a room. *)
Theorem C04_room_session_resolves : forall h x sid, WF h -> aget h.(h_rs2) x = Some sid ->
  aget h.(h_rs1) sid = Some x /\ exists s k, get_sess h sid = Some s /\ s.(s_room) = Some k.
Proof. exact room_session_resolves. Qed.

(* Observers: the unrestricted statement (every delivery order) is refuted — the joiner keeps a
   member that already left when the room subject overtakes its session subject (known finding
   C04/observers/cross-subject-reorder). *)
Theorem C04_observers_converge_refuted :
  exists ops, h_bus (run_mode 2 (init [0; 0] false) ops) = [] /\ P_hub 4 (model_case 2 [0; 0] ops) = Some (18, 2).
Proof. exact observers_converge_refuted. Qed.

(* Observers, quiescent semantics (qstep: the step, then every queued publication in publication
   order).  The view of a session is ghost state computed from the outputs alone: a connection's
   messages belong to the session of the last hello reply written to it; a session's view is what
   corr/Hub_preds.apply_view makes of the messages written to its connections (vrun).  For every
   history in which each step's publications were delivered completely ("drained": the bus is empty
   after every step), after every step: every live client session with a connection that is in room
   k has reconstructed exactly the member list of k, one in no room has no view; a disconnected
   session obtains the same once it has received what is queued for it. *)
Theorem C04_observers_converge_quiescent : forall limits gated ops,
  drained (init limits gated) ops ->
  let st := vrun (init limits gated, g0) ops in
  fst st = qrun (init limits gated) ops /\
  observers_converged (fst st) (snd st) /\ observers_converged_queued (fst st) (snd st).
Proof. exact observers_converge_quiescent. Qed.
(* the hypothesis is satisfiable by a history with joins, a room change, a drop and a resume, virtual
   sessions, a taken-over room session id, a room deletion and an expiry *)
Theorem C04_observers_quiescent_example :
  drained (init [0; 0] false) obs_ops /\
  members_of (fst (vrun (init [0; 0] false, g0) obs_ops)) = [((0, 5), [2; 6; 7])].
Proof. split; [exact obs_ops_drained|exact (proj2 obs_ops_views)]. Qed.
(* without it (a step that publishes more than drain has fuel for): refuted, an artefact of the fuel *)
Theorem C04_observers_quiescent_without_drained_refuted :
  h_bus (qrun (init [0; 0] false) fuel_ops) = [] /\ drainedb (init [0; 0] false) fuel_ops = false /\
  views_of (vrun (init [0; 0] false, g0) fuel_ops) = [(1, Some (6, [1; 2]), Some (0, 6)); (2, Some (5, [2]), Some (0, 5))] /\
  members_of (fst (vrun (init [0; 0] false, g0) fuel_ops)) = [((0, 5), [2]); ((0, 6), [1])].
Proof. exact observers_quiescent_without_drained_refuted. Qed.

(* Observers, explicit deliveries in publication order (a FIFO bus).  Publication order alone is NOT
   enough: a client that joins a room and changes to another one before its "session joined" notice
   for the first room was processed is sent the first room's members afterwards and keeps them. *)
Theorem C04_observers_fifo_refuted :
  exists ops, Forall (fun o => match o with ODeliver pos => pos = 0 | _ => True end) ops /\
              h_bus (run_mode 2 (init [0; 0] false) ops) = [] /\
              P_hub 4 (model_case 2 [0; 0] ops) = Some (14, 2).
Proof. exact observers_fifo_refuted. Qed.
(* With that excluded (no session's join request is processed while a "session joined" notice for
   that same session is still queued) every history with deliveries in publication order converges:
   whenever the bus is empty the observers agree with the server. *)
Theorem C04_observers_converge_fifo_guarded : forall limits gated ops,
  fifo_guarded (init limits gated) ops ->
  let st := vrun2 (init limits gated, g0) ops in
  fst st = run (init limits gated) ops /\
  (h_bus (fst st) = [] -> observers_converged (fst st) (snd st) /\ observers_converged_queued (fst st) (snd st)).
Proof. exact observers_converge_fifo_guarded. Qed.
(* in particular the quiescent semantics without a bound on the number of deliveries (every request
   finds the bus empty, every delivery is the first queued publication) *)
Theorem C04_observers_converge_fully_drained : forall limits gated ops,
  fully_drained (init limits gated) ops ->
  let st := vrun2 (init limits gated, g0) ops in
  fst st = run (init limits gated) ops /\
  (h_bus (fst st) = [] -> observers_converged (fst st) (snd st) /\ observers_converged_queued (fst st) (snd st)).
Proof. exact observers_converge_fully_drained. Qed.
Theorem C04_observers_fifo_example :
  fifo_guarded (init [0; 0] false) fifo_ops /\ h_bus (run (init [0; 0] false) fifo_ops) = [] /\
  views_of (vrun2 (init [0; 0] false, g0) fifo_ops) = [(1, Some (1, [1]), Some (0, 1)); (2, None, None)].
Proof. exact fifo_ops_guarded. Qed.

Print Assumptions C04_invariant_every_history_every_delivery_order.
Print Assumptions C04_invariant_quiescent_histories.
Print Assumptions C04_members_are_the_sessions_of_the_room.
Print Assumptions C04_at_most_one_room.
Print Assumptions C04_no_empty_room.
Print Assumptions C04_room_session_resolves.
Print Assumptions C04_observers_converge_refuted.
Print Assumptions C04_observers_converge_quiescent.
Print Assumptions C04_observers_quiescent_example.
Print Assumptions C04_observers_quiescent_without_drained_refuted.
Print Assumptions C04_observers_fifo_refuted.
Print Assumptions C04_observers_converge_fifo_guarded.
Print Assumptions C04_observers_converge_fully_drained.
Print Assumptions C04_observers_fifo_example.
