(* C04 — Room membership is consistent for the server and for every observer. *)
From Coq Require Import List NArith Bool.
From Verif Require Import model.Hub corr.Hub_preds proofs.Hub_wf proofs.Hub_corollaries proofs.Hub_refuted.
Import ListNotations.
Open Scope N_scope.

(* The invariant holds in every state reachable by any history of client requests, connection
   drops, clock ticks, backend API calls and media-server completions, interleaved with the
   deliveries of queued bus publications in ANY order (ODeliver picks any queue position). *)
Theorem C04_invariant_every_history_every_delivery_order : forall limits gated ops,
  WF (run (init limits gated) ops).
Proof. exact wf_reachable. Qed.
Theorem C04_invariant_quiescent_histories : forall limits gated ops,
  WF (qrun (init limits gated) ops).
Proof. exact wf_reachable_q. Qed.

(* ... and says: the members the server holds for a room are exactly the live sessions whose room
   it is (a session's room is set by its latest successful join and cleared by leave, removal by the
   backend, bye, expiry, kick), *)
Theorem C04_members_are_the_sessions_of_the_room : forall h k sid, WF h ->
  (member h k sid <-> exists s, get_sess h sid = Some s /\ s.(s_room) = Some k).
Proof. exact members_are_the_sessions_of_the_room. Qed.
(* a session is in at most one room, *)
Theorem C04_at_most_one_room : forall h k1 k2 sid, WF h -> member h k1 sid -> member h k2 sid -> k1 = k2.
Proof. exact at_most_one_room. Qed.
(* a room with no members no longer exists, *)
Theorem C04_no_empty_room : forall h k r, WF h -> room_of h k = Some r -> r.(r_members) <> [].
Proof. exact no_empty_room. Qed.
(* and a Nextcloud session id resolves to a session that holds it and is in a room. *)
Theorem C04_room_session_resolves : forall h x sid, WF h -> aget h.(h_rs2) x = Some sid ->
  aget h.(h_rs1) sid = Some x /\ exists s k, get_sess h sid = Some s /\ s.(s_room) = Some k.
Proof. exact room_session_resolves. Qed.

(* Observers: the unrestricted statement (every delivery order) is refuted — the joiner keeps a
   member that already left when the room subject overtakes its session subject (known finding
   C04/observers/cross-subject-reorder).  In the order a FIFO bus produces, the same history is fine
   (Example); for FIFO orders in general the observer clause is checked on every implementation
   trace by P_C04 (observers_converge_fifo is not proved: partial). *)
Theorem C04_observers_converge_refuted :
  exists ops, h_bus (run_mode 2 (init [0; 0] false) ops) = [] /\ P_hub 4 (model_case 2 [0; 0] ops) = Some (18, 2).
Proof. exact observers_converge_refuted. Qed.

Print Assumptions C04_invariant_every_history_every_delivery_order.
Print Assumptions C04_invariant_quiescent_histories.
Print Assumptions C04_members_are_the_sessions_of_the_room.
Print Assumptions C04_at_most_one_room.
Print Assumptions C04_no_empty_room.
Print Assumptions C04_room_session_resolves.
Print Assumptions C04_observers_converge_refuted.
