(* C12 — A remote federation server cannot crash or stall the local server.
   "Whatever a remote signaling server sends on a federation connection, including
   well-formed JSON with missing members, the local server keeps running; at worst
   the one federated session gets an error or is disconnected from the remote room.
   Other sessions are unaffected."
   Only statements here; proofs are in proofs/Federation_proofs.v.  The model
   (model/Federation.v) follows federation.go with the three repairs of fixes/C12;
   [original] is the code without them. *)
From Coq Require Import List ZArith NArith Bool String Lia.
From Verif Require Import gen.Params gen.Schema model.Federation corr.Run_C12 proofs.Federation_proofs.
Import ListNotations.
Open Scope Z_scope.

(* The message shapes of the model stand for exactly the pointer / slice / map
   members the protocol structs have in the current source: a new member makes
   these fail until the model (and the validation) has been looked at. *)
Theorem C12_shape_covers_schema :
  ref_fields schema_ServerMessage = shape_ServerMessage /\
  ref_fields schema_EventServerMessage = shape_EventServerMessage /\
  ref_fields schema_RoomEventServerMessage = shape_RoomEventServerMessage /\
  ref_fields schema_RoomDisinviteEventServerMessage = [] /\
  ref_fields schema_MessageServerMessage = shape_MessageServerMessage /\
  ref_fields schema_ControlServerMessage = shape_MessageServerMessage /\
  ref_fields schema_HelloServerMessage = shape_HelloServerMessage.
Proof.
  exact (conj shape_covers_ServerMessage (conj shape_covers_EventServerMessage (conj shape_covers_RoomEventServerMessage
        (conj shape_covers_RoomDisinvite (conj shape_covers_MessageServerMessage (conj shape_covers_ControlServerMessage
        shape_covers_HelloServerMessage)))))).
Qed.

(* federation_total: in every state of the client (any stage: before welcome,
   hello pending, after hello / join, disconnected, closed), for every message
   shape, with working or failing writes: no nil dereference.  Needs the
   validation (01) and the re-check after a failed bye (03); holds with or
   without 02. *)
Theorem C12_federation_total : forall v wf st m,
  v_valid v = true -> v_close v = true -> out_of (recv v wf st m) <> Panic.
Proof. exact total_recv. Qed.

(* the same for every operation of the alphabet (messages, undecodable frames,
   drops, accepted / refused reconnects, requests of the federated session) *)
Theorem C12_federation_total_ops : forall v st o,
  v_valid v = true -> v_close v = true -> out_of (step v st o) <> Panic.
Proof. exact total_step. Qed.

(* federation_progress (1): no operation leaves the read pump (or the caller)
   waiting for a lock it holds itself.  Needs 02. *)
Theorem C12_federation_progress : forall v st o,
  v_lock v = true -> out_of (step v st o) <> Stuck.
Proof. exact progress_step. Qed.

(* federation_progress (2): with the repaired code every operation is consumed in
   one step that returns, and a history of any length runs to its end *)
Theorem C12_every_op_returns : forall st o, exists st' acts, step repaired st o = (st', acts, Ok).
Proof. exact step_ok. Qed.
Theorem C12_every_history_returns : forall ops st, out_of (run repaired st ops) = Ok.
Proof. exact run_ok. Qed.

(* federation_progress (3): one operation causes at most (queued requests + 9)
   effects: nothing is repeated without bound *)
Theorem C12_effects_bounded : forall v st o,
  (List.length (acts_of (step v st o)) <= N.to_nat (pending st) + 9)%nat.
Proof. exact step_len. Qed.

(* federation_progress (4): reconnects are paced.  Every reconnect ever scheduled
   waits between 100 ms and 8 s, and k refused attempts in a row double the
   waiting time k times up to 8 s. *)
Theorem C12_reconnects_bounded : forall v chg ops d,
  In (Reconnect d) (acts_of (run v (init chg) ops)) -> 100000000 <= d <= 8000000000.
Proof. exact reconnects_bounded. Qed.
Theorem C12_backoff : forall v k st,
  connected st = false -> closed st = false -> 0 < delay st <= maxFederationReconnectInterval ->
  delay (st_of (run v st (repeat ORefuse k))) = Z.min (delay st * 2 ^ Z.of_nat k) maxFederationReconnectInterval.
Proof. exact refuse_backoff. Qed.

(* federation_confined: every effect is on the federated session itself, its own
   federation connection or its own reconnect timer.  This holds by construction:
   the type [action] contains no identifier of a session, room or connection, so
   no other target can be expressed; the statement only spells the targets out. *)
Theorem C12_federation_confined : forall v st o a,
  In a (acts_of (step v st o)) ->
  target_of a = OwnSession \/ target_of a = OwnConnection \/ target_of a = OwnTimer.
Proof. exact confined. Qed.

(* others_unchanged: embed the client into a hub whose sessions are numbered and
   record what each is sent.  Whatever history the remote plays, every other
   session's record is untouched, and the federated session's record grows by
   exactly the messages addressed to it. *)
Theorem C12_others_unchanged : forall v st ops me other h,
  other <> me -> deliver_all me h (acts_of (run v st ops)) other = h other.
Proof. exact others_unchanged_run. Qed.
Theorem C12_own_session_only : forall v st ops me h,
  deliver_all me h (acts_of (run v st ops)) me = (h me ++ session_msgs (acts_of (run v st ops)))%list.
Proof. exact own_session_run. Qed.

(* P_C12 on the model's own traces: alive, responsive and bystanders served are
   what [Ok] stands for; the differential run evaluates P_C12 on the traces of
   the implementation. *)

(* ---- the code without the repairs ------------------------------------------------------- *)
(* {"type":"welcome"} on a fresh connection: nil dereference in the read pump *)
Theorem C12_federation_total_refuted :
  exists st m, out_of (recv original false st m) = Panic.
Proof. exact total_refuted. Qed.
(* an answer with an unknown id, then a reset while the hello is sent again:
   the read pump waits for helloMu, which it holds *)
Theorem C12_federation_progress_refuted :
  exists ops, out_of (run original (init false) ops) = Stuck.
Proof. exact progress_refuted. Qed.
(* a welcome without the federation feature, then a reset: WriteControl on a nil connection *)
Theorem C12_close_refuted :
  exists ops, out_of (run original (init false) ops) = Panic /\
              forallb (fun o => match o with ORecvFail m => valid m | _ => true end) ops = true.
Proof. exact close_refuted. Qed.
(* none of the three repairs is implied by the other two *)
Theorem C12_each_repair_needed :
  out_of (recv (mkV false true true) false (init false) (absent TWelcome IdEmpty)) = Panic /\
  out_of (run (mkV true false true) (init false) [ORecv welcome_ok; ORecvFail wrong_id]) = Stuck /\
  out_of (run (mkV true true false) (init false) [ORecvFail welcome_nofed]) = Panic.
Proof. exact (conj without_01 (conj without_02 without_03)). Qed.
(* what the shape enumeration finds: of 1 089 536 (stage, message shape) pairs
   (7 stages x (12 types x 3 id classes x all subsets of the 11 members + 4 x 8
   event kinds x all subsets of 7 members x 4 join lists x 5 user lists)),
   121 856 crash the unrepaired code, 301 056 block it when the connection is
   reset at that moment, 3 328 crash the code that lacks only repair 03; the
   crashing types are exactly welcome, hello, error, room, message, control, event.
   With the repairs none of them does anything but return. *)
Theorem C12_enumeration_original :
  count (fun _ => true) enum_all = 1089536%N /\
  count (panics original false) enum_all = 121856%N /\
  count (sticks original true) enum_all = 301056%N /\
  count (panics (mkV true true false) true) enum_all = 3328%N /\
  panicking_tags original = [7; 6; 5; 4; 2; 1; 0]%N.
Proof. exact enum_original_counts. Qed.
Theorem C12_enumeration_repaired :
  forallb (fun sm => is_ok (recv repaired false (fst sm) (snd sm)) && is_ok (recv repaired true (fst sm) (snd sm)))%bool enum_all = true.
Proof. exact enum_repaired_ok. Qed.

(* ---- the path into the local session ----------------------------------------------------
   A forwarded participants/update event reaches ClientSession.filterMessage, which reads
   entry["sessionId"].(string) of every entry of users / changed without a check, still in
   the federation read goroutine.  [uentry] distinguishes, per entry, the two members the
   code reads as a session id ("sessionId", "sessionid": missing / not a string / the remote
   id of the federated session / another string) and the actor members. *)
(* without the validation, after the hello, with working or failing writes: such an event
   ends the process iff, after updateEventUsers, an entry is left without a string "sessionId" *)
Theorem C12_session_path_exact : forall v wf s m e u,
  v_valid v = false -> hello_done s = true ->
  m_tag m = TEvent -> m_event m = Some e ->
  e_target e = GParticipants -> e_type e = YUpdate -> e_update e = Some u ->
  (out_of (recv v wf s m) = Panic <-> session_filter_panics (rewrite_update (remote_sid s) u) = true).
Proof. exact session_path_exact. Qed.
(* what the validation demands of the entries is enough for the session, in every state,
   for lists of any length ... *)
Theorem C12_validated_entries_safe : forall sid e u,
  e_target e = GParticipants -> e_type e = YUpdate -> e_update e = Some u ->
  valid_event e = true -> session_filter_panics (rewrite_update sid u) = false.
Proof. exact validated_entries_safe. Qed.
(* ... and nothing it rejects is harmless, except the one entry updateEventUsers repairs:
   any rejected entry, alone in users or in changed, ends the unvalidated process *)
Theorem C12_rejected_entry_crashes : forall v wf s x in_changed,
  v_valid v = false -> hello_done s = true ->
  is_sid x = false -> (remote_sid s = false \/ is_own (entry_id x) = false) ->
  out_of (recv v wf s (upd_event GParticipants (if in_changed : bool then mkU [x] [] else mkU [] [x]))) = Panic.
Proof. exact rejected_entry_crashes. Qed.
(* in particular the entry with only the lower-case member, which updateEventUsers accepts:
   a validation that lets it pass (whatever else it checks) does not protect the session *)
Theorem C12_lower_case_entry_refuted : forall s wf,
  hello_done s = true ->
  out_of (recv no_validation wf s (upd_event GParticipants (mkU [] [lower_only]))) = Panic.
Proof. exact lower_case_validation_unsound. Qed.
(* witnesses replayed on the implementation (which ignores them) every run *)
Theorem C12_entry_witnesses :
  out_of (recv no_validation false joined_sid (upd_event GParticipants (mkU [] [lower_only]))) = Panic /\
  out_of (recv no_validation false joined_sid (upd_event GParticipants (mkU [lower_only] [USid]))) = Panic /\
  out_of (recv no_validation false joined_nosid (upd_event GParticipants (mkU [] [UEnt VNone VOwn ANone]))) = Panic /\
  out_of (recv no_validation false joined_sid (upd_event GParticipants (mkU [UEnt VNone VOwn ANone] [UEnt VBad VOwn ANone]))) = Ok /\
  out_of (recv no_validation false joined_sid (upd_event GParticipants (mkU [] [UEnt VNone VOwn ANone; UEnt VNone VOwn ANone]))) = Panic /\
  recv repaired false joined_sid (upd_event GParticipants (mkU [] [lower_only])) = (joined_sid, [], Ok).
Proof. exact lowercase_entry_panics. Qed.
(* enumeration over the entries: 7 stages x 2 targets x users lists of length <= 2 x changed
   lists of length <= 1 over 21 entries (null, the 16 combinations of the two id members,
   4 with actor members).  Without the validation 41 810 of 142 604 pairs end the process;
   14 085 of them have a string id under one of the two spellings in every entry; none
   passes the validation.  The repaired code returns on all of them. *)
Theorem C12_enumeration_entries :
  count (fun _ => true) enum_entries = 142604%N /\
  count (panics no_validation false) enum_entries = 41810%N /\
  count (panics original false) enum_entries = 41810%N /\
  count (fun sm => (either_accepts sm && panics no_validation false sm)%bool) enum_entries = 14085%N /\
  count (fun sm => (valid (snd sm) && panics no_validation false sm)%bool) enum_entries = 0%N.
Proof. exact enum_entries_counts. Qed.
Theorem C12_enumeration_entries_repaired :
  forallb (fun sm => is_ok (recv repaired false (fst sm) (snd sm)) && is_ok (recv repaired true (fst sm) (snd sm)))%bool enum_entries = true.
Proof. exact enum_entries_repaired_ok. Qed.

(* Non-vacuity: the repaired client goes through welcome, hello and the join,
   forwards a message, survives an invalid one, reconnects and resumes. *)
Example C12_nonvacuous :
  let room_ok := mkM TRoom IdOther None None None false (Some RidRemote) None None None false false false in
  let r := run repaired (init true)
             [ORecv welcome_ok; ORecv hello_ok; ORecv room_ok; ORecv (absent TRoom IdOther); ODrop; OClientSend; OAccept;
              ORecv welcome_ok; ORecv hello_ok] in
  out_of r = Ok /\
  acts_of r = [ToRemote (RHello false); ToRemote RRoom; ToSession (CFwd TRoom);
               ToSession CInterrupted; CloseConn; Reconnect 100000000;
               ToRemote (RHello true); ToSession (CResumed true); ToRemote RProxied] /\
  hello_done (st_of r) = true /\ pending (st_of r) = 0%N.
Proof. vm_compute. repeat split; reflexivity. Qed.

Print Assumptions C12_shape_covers_schema.
Print Assumptions C12_federation_total.
Print Assumptions C12_federation_total_ops.
Print Assumptions C12_federation_progress.
Print Assumptions C12_every_op_returns.
Print Assumptions C12_every_history_returns.
Print Assumptions C12_effects_bounded.
Print Assumptions C12_reconnects_bounded.
Print Assumptions C12_backoff.
Print Assumptions C12_federation_confined.
Print Assumptions C12_others_unchanged.
Print Assumptions C12_own_session_only.
Print Assumptions C12_federation_total_refuted.
Print Assumptions C12_federation_progress_refuted.
Print Assumptions C12_close_refuted.
Print Assumptions C12_each_repair_needed.
Print Assumptions C12_enumeration_original.
Print Assumptions C12_enumeration_repaired.
Print Assumptions C12_session_path_exact.
Print Assumptions C12_validated_entries_safe.
Print Assumptions C12_rejected_entry_crashes.
Print Assumptions C12_lower_case_entry_refuted.
Print Assumptions C12_entry_witnesses.
Print Assumptions C12_enumeration_entries.
Print Assumptions C12_enumeration_entries_repaired.
