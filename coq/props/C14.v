From Coq Require Import List ZArith NArith Bool.
From Verif Require Import model.Transient corr.Run_C14.
Import ListNotations.
Theorem C14_stub : P_C14 (trace_of false h_clear) = false.
Proof. vm_compute. reflexivity. Qed.
Print Assumptions C14_stub.
