(* C14 — Transient room data: listeners converge to the room's data; TTLs are honoured.
   Only statements here; proofs are in proofs/Transient_proofs.v.

   The model (model/Transient.v) has two variants: [true] is the code with
   fixes/C14/01-stale-ttl-timer.patch, [false] the code without it.  Theorems
   that mention a variable variant hold for both. *)
From Coq Require Import List ZArith NArith Bool String Lia.
From Verif Require Import gen.LockProgs model.Transient corr.Run_C14 proofs.Transient_proofs.
Import ListNotations.
Open Scope Z_scope.

(* Every method of TransientData is a sequence of whole critical sections on
   TransientData.mu (the second section of the setters is the nil-value
   delegation to Remove / CompareAndRemove, flattened by the translator), so a
   method call is one atomic step and notifications are sent inside it. *)
Theorem C14_ops_atomic :
  locks_TransientData =
    [("AddListener", [Lock; Unlock]); ("RemoveListener", [Lock; Unlock]);
     ("Set", [Lock; Unlock; Lock; Unlock]); ("SetTTL", [Lock; Unlock; Lock; Unlock]);
     ("CompareAndSet", [Lock; Unlock; Lock; Unlock]); ("CompareAndSetTTL", [Lock; Unlock; Lock; Unlock]);
     ("Remove", [Lock; Unlock]); ("CompareAndRemove", [Lock; Unlock]); ("GetData", [Lock; Unlock])]%string /\
  forallb (fun e => sections_only (snd e) && negb (Nat.eqb (List.length (snd e)) 0)) locks_TransientData = true.
Proof. split; vm_compute; reflexivity. Qed.

(* Value equality of the model (checked against reflect.DeepEqual every run) is equality. *)
Theorem C14_json_eqb : forall a b, json_eqb a b = true <-> a = b.
Proof. exact json_eqb_iff. Qed.

(* replica_converges.  For every history (any operations, any timing of
   expiries, late callbacks included) and every listener: while it is joined,
   what it received on joining with every later set/remove notification applied
   in order is the store's current data; while it is not joined it is not in
   the listener set.  The statement is about every op list, hence about every
   prefix of every history.  Holds with and without the repair. *)
Theorem C14_replica_converges : forall variant ops l,
  match replica l None (trace_of variant ops) with
  | Some r => In l (listeners (run variant ops)) /\ r = data (run variant ops)
  | None => ~ In l (listeners (run variant ops))
  end.
Proof. exact replica_converges. Qed.

(* A listener that is not joined is sent nothing. *)
Theorem C14_only_joined_are_sent : forall variant s o l m,
  NoDup (listeners s) -> In (l, m) (snd (snd (step variant s o))) -> In l (listeners (fst (step variant s o))).
Proof. exact step_outs_joined. Qed.

(* unchanged_set_silent: setting the value a key already has sends nothing and
   changes neither the data nor the listeners (it only updates the ttl). *)
Theorem C14_unchanged_set_silent : forall variant s k v ttl,
  dget (data s) k = Some v ->
  snd (step variant s (OSet k (Some v) ttl)) = (false, []) /\
  data (fst (step variant s (OSet k (Some v) ttl))) = data s /\
  listeners (fst (step variant s (OSet k (Some v) ttl))) = listeners s.
Proof. exact unchanged_set_silent. Qed.

(* ttl_refines: the repaired implementation refines the specification
   "(data, one deadline per key); the latest request on a key governs":
   one step, under the invariant, and whole histories from the initial state. *)
Theorem C14_ttl_refines : forall s o,
  Inv s -> Inv (fst (step true s o)) /\ speq (abs (fst (step true s o))) (spec_step (abs s) o).
Proof. exact step_refines. Qed.
Theorem C14_ttl_refines_run : forall ops, speq (abs (run true ops)) (spec_run spec_init ops).
Proof. intros ops. exact (run_refines ops init spec_init inv_init abs_init). Qed.

(* ttl_honoured: after any history, a value stored with a time-to-live by Set
   or by a successful compare-and-set stays as long as less than ttl has
   elapsed, and disappears, with a remove notification to every listener, at
   the Advance that reaches the deadline, whatever happens in between that
   does not name the key (other keys, listeners joining and leaving, late
   callbacks of superseded timers).  A request that names the key starts over
   (this theorem applied to it, or the next one). *)
Theorem C14_ttl_honoured : forall pre o k v ttl mid dt,
  let s0 := run true pre in
  0 < ttl -> stores s0 o k v ttl ->
  forallb (fun x => negb (names k x)) mid = true ->
  elapsed mid < ttl -> ttl <= elapsed mid + dt ->
  let s2 := run_from true (fst (step true s0 o)) mid in
  dget (data s2) k = Some v /\
  dget (data (fst (step true s2 (OAdvance dt)))) k = None /\
  forall l, In l (listeners s2) -> In (l, MRemove k v) (snd (snd (step true s2 (OAdvance dt)))).
Proof. exact ttl_honoured. Qed.

(* ... and a value whose latest request has no time-to-live stays, whatever
   timers earlier requests armed and however much time passes. *)
Theorem C14_ttl_cleared_persists : forall pre o k v ttl mid,
  let s0 := run true pre in
  ttl <= 0 -> stores s0 o k v ttl ->
  forallb (fun x => negb (names k x)) mid = true ->
  dget (data (run_from true (fst (step true s0 o)) mid)) k = Some v.
Proof. exact ttl_cleared_persists. Qed.

(* fire_late_safe: a callback that had already started when its timer was
   stopped (FireLate) sends nothing and changes neither data, listeners, the
   registered timers nor any deadline. *)
Theorem C14_fire_late_safe : forall ops i,
  let s := run true ops in
  let r := step true s (OFireLate i) in
  snd r = (false, []) /\ data (fst r) = data s /\ listeners (fst r) = listeners s /\
  tmap (fst r) = tmap s /\ (forall k, live_deadline (fst r) k = live_deadline s k) /\ now (fst r) = now s.
Proof. exact fire_late_safe. Qed.

(* The predicate with which the implementation's traces are judged on every
   run holds on every trace of the repaired model. *)
Theorem C14_trace_predicate : forall ops, P_C14 (trace_of true ops) = true.
Proof. exact P_holds. Qed.

(* ---- the code without the repair: the TTL statements fail -------------------- *)
Theorem C14_ttl_honoured_refuted :
  (exists ops, P_C14 (trace_of false ops) = false /\ dget (data (run false ops)) 1%N = None /\ ops = h_clear) /\
  (exists ops, P_C14 (trace_of false ops) = false /\ dget (data (run false ops)) 1%N = None /\ ops = h_aba) /\
  (exists ops, P_C14 (trace_of false ops) = false /\ dget (data (run false ops)) 1%N = None /\ ops = h_late).
Proof.
  split; [|split]; eexists; (split; [|split; [|reflexivity]]);
    first [apply refuted_clear | apply refuted_aba | apply refuted_late].
Qed.
Theorem C14_ttl_cleared_persists_refuted :
  exists pre o k v ttl mid,
    ttl <= 0 /\ o = OSet k (Some v) ttl /\ forallb (fun x => negb (names k x)) mid = true /\
    dget (data (run_from false (fst (step false (run false pre) o)) mid)) k = None.
Proof. exact refuted_cleared_persists. Qed.
Theorem C14_fire_late_safe_refuted :
  exists ops i, dget (data (run false ops)) 1%N = Some (JStr 7) /\
                dget (data (fst (step false (run false ops) (OFireLate i)))) 1%N = None.
Proof. exact refuted_fire_late. Qed.
Theorem C14_ttl_refines_refuted :
  exists ops o, ~ speq (abs (fst (step false (run false ops) o))) (spec_step (abs (run false ops)) o).
Proof. exact refuted_refines. Qed.

(* ---- non-vacuity ------------------------------------------------------------------ *)
(* the hypotheses of C14_ttl_honoured are met by a history with two listeners,
   another key and a late callback in between; the conclusion is what the theorem says *)
Example C14_ttl_honoured_nonvacuous :
  let pre := [OAddL 1; OSet 1 (Some (JStr 7)) (30 * msec); OSet 1 (Some (JStr 7)) (80 * msec)] in
  let o := OCas 1 (Some (JStr 7)) (Some (JStr 8)) (50 * msec) in
  let mid := [OSet 2 (Some (JNum 1000)) (10 * msec); OAdvance (20 * msec); OFireLate 0; OAddL 2; OAdvance (-5)] in
  0 < 50 * msec /\ stores (run true pre) o 1 (JStr 8) (50 * msec) /\
  forallb (fun x => negb (names 1 x)) mid = true /\ elapsed mid < 50 * msec /\ 50 * msec <= elapsed mid + 40 * msec /\
  snd (snd (step true (run_from true (fst (step true (run true pre) o)) mid) (OAdvance (40 * msec)))) =
    [(1%N, MRemove 1 (JStr 8)); (2%N, MRemove 1 (JStr 8))].
Proof.
  cbv zeta. split; [reflexivity|]. split; [right; exists (Some (JStr 7)); split; reflexivity|].
  split; [vm_compute; reflexivity|]. split; [vm_compute; reflexivity|].
  split; [vm_compute; discriminate|vm_compute; reflexivity].
Qed.
Example C14_ttl_cleared_nonvacuous :
  stores (run true [OSet 1 (Some (JStr 7)) (50 * msec)]) (OSet 1 (Some (JStr 7)) 0) 1 (JStr 7) 0 /\
  dget (data (run true (h_clear ++ [OAdvance (1000 * msec)]))) 1%N = Some (JStr 7).
Proof. split; [left; reflexivity|vm_compute; reflexivity]. Qed.
(* a listener's replica on a history with a join after data exists, a set, an expiry and a leave *)
Example C14_replica_nonvacuous :
  let ops := [OSet 1 (Some (JStr 7)) (50 * msec); OAddL 3; OSet 2 (Some (JStr 8)) 0; OAdvance (60 * msec)] in
  replica 3 None (trace_of true ops) = Some [(2%N, JStr 8)] /\
  replica 3 None (trace_of true (ops ++ [ORemoveL 3; OSet 2 (Some (JStr 9)) 0])) = None.
Proof. split; vm_compute; reflexivity. Qed.
(* the invariant of C14_ttl_refines holds in every reachable state *)
Example C14_inv_reachable : forall ops, Inv (run true ops).
Proof. exact inv_run. Qed.

Print Assumptions C14_ops_atomic.
Print Assumptions C14_json_eqb.
Print Assumptions C14_replica_converges.
Print Assumptions C14_only_joined_are_sent.
Print Assumptions C14_unchanged_set_silent.
Print Assumptions C14_ttl_refines.
Print Assumptions C14_ttl_refines_run.
Print Assumptions C14_ttl_honoured.
Print Assumptions C14_ttl_cleared_persists.
Print Assumptions C14_fire_late_safe.
Print Assumptions C14_trace_predicate.
Print Assumptions C14_ttl_honoured_refuted.
Print Assumptions C14_ttl_cleared_persists_refuted.
Print Assumptions C14_fire_late_safe_refuted.
Print Assumptions C14_ttl_refines_refuted.

(* ==================================================================================================
   C14 at the level of rooms and sessions: the transient data of rooms inside the hub model
   (model/Hub.v: rooms carry their data; the client op OTransient, the room request ATransient, the
   initial data of a join).  Proofs in proofs/Hub_transient.v (and proofs/Hub_transient_frame.v).
   The theorems below hold for EVERY state h, hence after every history of operations (every delivery
   order of the bus included); the ..._history forms say so explicitly with Hub_wf.run.  The hub model
   has no time-to-live (that part of the property is the store-level model above).
   From here on the names step / run / init / op are those of model/Hub.v. *)
From Verif Require Import model.Hub proofs.Hub_basics proofs.Hub_wf proofs.Hub_easy proofs.Hub_transient_frame proofs.Hub_transient.
Local Open Scope N_scope.

(* T3. Setting the value a key already has writes nothing and leaves the state literally unchanged. *)
Theorem C14H_unchanged_set_silent : forall h c sid s k r key val,
  conn_session h c sid s -> s.(s_room) = Some k -> allowed_transient s = true -> room_of h k = Some r ->
  val <> 0 -> aget r.(r_transient) key = Some val ->
  Hub.step h (OTransient c 0 key val) = (h, []).
Proof. exact transient_set_unchanged. Qed.
(* ... so does removing a key that is absent (by "remove" or by a set without value) *)
Theorem C14H_remove_absent_silent : forall h c sid s k r kindn key val,
  conn_session h c sid s -> s.(s_room) = Some k -> allowed_transient s = true -> room_of h k = Some r ->
  kindn = 1 \/ (kindn = 0 /\ val = 0) -> aget r.(r_transient) key = None ->
  Hub.step h (OTransient c kindn key val) = (h, []).
Proof. exact transient_remove_absent. Qed.
(* ... and the room request of the backend, when it is delivered, that asks for what is already the case *)
Theorem C14H_backend_request_unchanged_silent : forall h k r del key val,
  room_of h k = Some r ->
  (if del || N.eqb val 0 then aget r.(r_transient) key = None else aget r.(r_transient) key = Some val) ->
  room_request h k (ATransient del key val) = (h, []).
Proof. exact room_request_transient_unchanged. Qed.
(* after every history of operations *)
Theorem C14H_unchanged_set_silent_history : forall limits gated ops c sid s k r key val,
  let h := Hub_wf.run (Hub.init limits gated) ops in
  conn_session h c sid s -> s.(s_room) = Some k -> allowed_transient s = true -> room_of h k = Some r ->
  val <> 0 -> aget r.(r_transient) key = Some val ->
  Hub_wf.run (Hub.init limits gated) (ops ++ [OTransient c 0 key val]) = h /\ snd (Hub.step h (OTransient c 0 key val)) = [].
Proof. exact history_set_unchanged. Qed.

(* T4. Refused requests are answered with the one error on the requester's connection and change nothing. *)
Theorem C14H_refused_not_in_room : forall h c sid s kindn key val,
  conn_session h c sid s -> s.(s_room) = None ->
  Hub.step h (OTransient c kindn key val) = (h, [ToConn c (SError E_not_in_room)]).
Proof. exact transient_refused_not_in_room. Qed.
Theorem C14H_refused_not_allowed : forall h c sid s k kindn key val,
  conn_session h c sid s -> s.(s_room) = Some k -> allowed_transient s = false -> (kindn <? 2) = true ->
  Hub.step h (OTransient c kindn key val) = (h, [ToConn c (SError E_not_allowed)]).
Proof. exact transient_gate. Qed.
Theorem C14H_refused_ignored : forall h c sid s k kindn key val,
  conn_session h c sid s -> s.(s_room) = Some k -> (2 <=? kindn) = true ->
  Hub.step h (OTransient c kindn key val) = (h, [ToConn c (SError E_ignored)]).
Proof. exact transient_refused_ignored. Qed.
Theorem C14H_refused_history : forall limits gated ops c sid s kindn key val,
  let h := Hub_wf.run (Hub.init limits gated) ops in
  conn_session h c sid s ->
  (s.(s_room) = None \/ (exists k, s.(s_room) = Some k /\ ((2 <=? kindn) = true \/ allowed_transient s = false))) ->
  Hub_wf.run (Hub.init limits gated) (ops ++ [OTransient c kindn key val]) = h /\
  exists code, snd (Hub.step h (OTransient c kindn key val)) = [ToConn c (SError code)] /\
               (code = E_not_in_room \/ code = E_ignored \/ code = E_not_allowed).
Proof. exact history_refused. Qed.
(* a room request that is not the backend's own, and one for a room nobody is in *)
Theorem C14H_backend_request_refused : forall h b signas room del key val,
  b <> signas \/ h_nb h <= b -> Hub.step h (OApi b signas room (ATransient del key val)) = (h, []).
Proof. exact api_transient_refused. Qed.
Theorem C14H_backend_request_no_room : forall h k q, room_of h k = None -> room_request h k q = (h, []).
Proof. exact room_request_no_room. Qed.

(* T1 (the part about one change of the data; the history form with the frame follows below).  A change of room k's data writes exactly one copy of the
   one notice per connected listener, the listeners being the non-virtual members of the room at that moment. *)
Theorem C14H_listeners_are_members_partial : forall h k r del key val,
  match update_notice r del key val with
  | None => transient_update h k r del key val = (h, [])
  | Some t => snd (transient_update h k r del key val) = flat_map (notice_for h t) (transient_listeners h r)
  end.
Proof. exact transient_update_outs. Qed.
Theorem C14H_recipient_is_member_partial : forall h k r del key val c m,
  In (ToConn c m) (snd (transient_update h k r del key val)) ->
  exists t sid s, m = STransient t /\ update_notice r del key val = Some t /\ In sid (r_members r) /\
                  get_sess h sid = Some s /\ is_virtual (s_kind s) = false /\ s_conn s = Some c.
Proof. exact transient_update_recipient_is_member. Qed.
Theorem C14H_every_connected_listener_is_told : forall h k r del key val t sid s c,
  update_notice r del key val = Some t -> In sid (r_members r) -> get_sess h sid = Some s ->
  is_virtual (s_kind s) = false -> s_conn s = Some c ->
  In (ToConn c (STransient t)) (snd (transient_update h k r del key val)).
Proof. exact transient_update_reaches_listeners. Qed.
(* after every history: what the client op writes goes to connections of non-virtual sessions whose room is the
   requester's room and which are members of it *)
Theorem C14H_op_recipients_history_partial : forall limits gated ops c sid s k kindn key val c' t,
  let h := Hub_wf.run (Hub.init limits gated) ops in
  conn_session h c sid s -> s.(s_room) = Some k ->
  In (ToConn c' (STransient t)) (snd (Hub.step h (OTransient c kindn key val))) ->
  exists r sid' s', room_of h k = Some r /\ In sid' (r_members r) /\ get_sess h sid' = Some s' /\
                    s_room s' = Some k /\ is_virtual (s_kind s') = false /\ s_conn s' = Some c'.
Proof. exact history_transient_op_recipients. Qed.

(* T1 for every history (with the frame theorem of proofs/Hub_transient_frame.v).  After every history of operations
   (bus not assumed empty, deliveries in any order), whatever operation comes next - except the hello that resumes a
   session, which flushes the queue of the time the session was away, and a join, which writes the initial data - a
   transient message is written only to the connection of a non-virtual session that is at that moment a member of
   the room whose data changes and whose own room is that room. *)
Theorem C14H_written_only_to_members : forall limits gated ops o c' t,
  let h := Hub_wf.run (Hub.init limits gated) ops in
  match o with OHello _ (HResume _) | OJoin _ _ _ _ => False | _ => True end ->
  In (ToConn c' (STransient t)) (snd (Hub.step h o)) ->
  exists k r sid' s', room_of h k = Some r /\ In sid' (r_members r) /\ get_sess h sid' = Some s' /\
                      s_room s' = Some k /\ is_virtual (s_kind s') = false /\ s_conn s' = Some c'.
Proof. exact transient_written_to_members. Qed.
(* a join writes no transient message but the initial data (that it goes to the joiner's connection is shown by the
   model's definition and the differential run, not proved) *)
Theorem C14H_join_writes_only_initial_partial : forall limits gated ops c rn rs rep c' t,
  let h := Hub_wf.run (Hub.init limits gated) ops in
  In (ToConn c' (STransient t)) (snd (Hub.step h (OJoin c rn rs rep))) -> exists d, t = TInit d.
Proof. exact join_writes_only_initial. Qed.
(* no publication queued on the bus ever carries a transient message: notices are never in flight *)
Theorem C14H_bus_carries_no_transient : forall limits gated ops, BusNT (Hub_wf.run (Hub.init limits gated) ops).
Proof. exact busnt_reachable. Qed.

(* T2 (partial: one step of the replica induction).  The notice describes the change: after it room k is the room
   before with its data replaced by "data before, notice applied"; no other room, no connection and no session's
   connection / kind / room changes.  So a listener whose replica was the room's data has the room's data again once
   it applied the notice. *)
Theorem C14H_replica_step_partial : forall h k r del key val,
  match update_notice r del key val with
  | None => transient_update h k r del key val = (h, [])
  | Some t => same (set_rooms h (pset h.(h_rooms) k (room_set_transient r (apply_tmsg r.(r_transient) t))))
                   (fst (transient_update h k r del key val))
  end.
Proof. exact transient_update_replica. Qed.
Theorem C14H_replica_after_notice_partial : forall h k r del key val t (replica : alist N),
  update_notice r del key val = Some t -> replica = r.(r_transient) ->
  exists r', room_of (fst (transient_update h k r del key val)) k = Some r' /\ apply_tmsg replica t = r'.(r_transient)
             /\ r_members r' = r_members r.
Proof. exact replica_step. Qed.

(* non-vacuity: computed on the model after a history (two members of room 1 of backend 0, key 1 = 2) *)
Example C14H_set_reaches_both_members : snd (qstep demo_h (OTransient 2 0 1 3)) =
  [ToConn 1 (STransient (TSet 1 3 (Some 2))); ToConn 2 (STransient (TSet 1 3 (Some 2)))].
Proof. exact demo_set. Qed.
Example C14H_same_value_silent : qstep demo_h (OTransient 2 0 1 2) = (demo_h, []).
Proof. exact demo_same. Qed.
Example C14H_left_session_not_told : snd (qstep (fst (qstep demo_h (OJoin 2 0 0 (RepOk None 0)))) (OTransient 1 1 1 0)) =
  [ToConn 1 (STransient (TRemove 1 (Some 2)))].
Proof. exact demo_left. Qed.
Example C14H_refusals : qstep demo_h (OTransient 3 0 1 1) = (demo_h, [ToConn 3 (SError E_not_in_room)]) /\
                        qstep demo_h (OTransient 1 5 1 1) = (demo_h, [ToConn 1 (SError E_ignored)]).
Proof. split; [exact demo_not_in_room|exact demo_ignored]. Qed.
Example C14H_backend_request_reaches_members : snd (qstep demo_h (OApi 0 0 1 (ATransient true 1 0))) =
  [ToConn 1 (STransient (TRemove 1 (Some 2))); ToConn 2 (STransient (TRemove 1 (Some 2)))].
Proof. exact demo_backend_request. Qed.
Example C14H_hypotheses_satisfiable : exists s r, conn_session demo_h 2 2 s /\ s_room s = Some (0, 1) /\ allowed_transient s = true /\
  room_of demo_h (0, 1) = Some r /\ aget (r_transient r) 1 = Some 2 /\
  update_notice r false 1 2 = None /\ update_notice r false 1 3 = Some (TSet 1 3 (Some 2)).
Proof. exact demo_hyps. Qed.

Print Assumptions C14H_unchanged_set_silent.
Print Assumptions C14H_remove_absent_silent.
Print Assumptions C14H_backend_request_unchanged_silent.
Print Assumptions C14H_unchanged_set_silent_history.
Print Assumptions C14H_refused_not_in_room.
Print Assumptions C14H_refused_not_allowed.
Print Assumptions C14H_refused_ignored.
Print Assumptions C14H_refused_history.
Print Assumptions C14H_backend_request_refused.
Print Assumptions C14H_backend_request_no_room.
Print Assumptions C14H_listeners_are_members_partial.
Print Assumptions C14H_recipient_is_member_partial.
Print Assumptions C14H_every_connected_listener_is_told.
Print Assumptions C14H_op_recipients_history_partial.
Print Assumptions C14H_written_only_to_members.
Print Assumptions C14H_join_writes_only_initial_partial.
Print Assumptions C14H_bus_carries_no_transient.
Print Assumptions C14H_replica_step_partial.
Print Assumptions C14H_replica_after_notice_partial.

(* ------------------------------------------------------------------ history level (proofs/Hub_transient_hist.v) *)
(* The replica of a session: ghost state computed from the outputs only (Hub_transient_nr.gout: a hello reply
   binds the connection to the session, room / transient messages written to a bound connection are applied with
   tapply = corr/Hub_preds.apply_trans), replayed over the pending queue of a session that has no connection.
   "Equals" is literal equality of the association lists (hence the same lookup for every key).
   Semantics: Hub_wf.run - one operation at a time, queued publications delivered in any order. *)
From Verif Require Import proofs.Hub_pending proofs.Hub_isolation proofs.Hub_transient_bus proofs.Hub_transient_nr proofs.Hub_transient_hist.

(* T2, one step, for every state with the invariants of reachable states: a change of a room's data (client request
   or delivered room request) keeps "the replica of every member, replayed over its queue, is the data of its room" *)
Theorem C14H_replica_kept_by_change : forall h g k r del key val, WF h -> Inv h -> RI h g -> room_of h k = Some r ->
  RI (fst (transient_update h k r del key val)) (gouts g (snd (transient_update h k r del key val))).
Proof. exact ri_transient_update. Qed.

(* T2 over a resume: the hello that resumes a session keeps the invariant - the replica at the time of the cut,
   continued by what the resume flushes, is the data of the room (a queue with a closing message: the session is
   closed).  Assumes: no session is attached to the connection (Bij gives it in a step).  That no queue holds a hello reply
   is part of RI (ri_hf). *)
Theorem C14H_replica_over_resume_partial : forall h g c cn i, Inv h -> RI h g ->
  (forall y t, get_sess h y = Some t -> s_conn t <> Some c) ->
  RI (fst (do_hello h c cn (HResume i))) (gouts g (snd (do_hello h c cn (HResume i)))).
Proof. exact ri_resume. Qed.

(* T2, the step of the induction over histories, for the covered operations (every operation except OJoin,
   OInternal and the delivery of a publication that is not a transient room request) *)
Theorem C14H_replica_step_covered_partial : forall h g o, WF h -> Inv h -> Bij h -> BusNT h -> RI h g -> covered h o ->
  RI (fst (step h o)) (gouts g (snd (step h o))).
Proof. exact ri_step. Qed.

(* T2 for histories, partial: from any state with the invariants of reachable states in which the replicas are right,
   every continuation made of covered operations - deliveries in any order - keeps them right *)
Theorem C14H_replica_converges_history_partial : forall ops h g, WF h -> Inv h -> TI h -> BusNT h -> RI h g -> covered_hist h ops ->
  let st := grun (h, g) ops in WF (fst st) /\ Inv (fst st) /\ RI (fst st) (snd st).
Proof. exact ri_run. Qed.

(* what RI gives for one member: its room exists, the replica replayed over the queue is (room, data of the room);
   with a connection the queue is empty and the replica itself is the data *)
Theorem C14H_replica_invariant_means : forall h g, WF h -> Inv h -> RI h g -> replica_ok h g.
Proof. exact ri_replica_ok. Qed.

(* the shape of the bus in every reachable state: no queued publication carries a hello reply or a transient message,
   a queued room message SRoom r travels on the subject of room r only *)
Theorem C14H_bus_shape : forall limits gated ops, BusOK (run (init limits gated) ops).
Proof. exact busok_reachable. Qed.

(* the replica function is the one the differential check applies to the implementation's observations *)
Theorem C14H_replica_is_apply_trans : forall v m, tapply v m = Hub_preds.apply_trans v m.
Proof. exact tapply_is_apply_trans. Qed.

Print Assumptions C14H_replica_kept_by_change.
Print Assumptions C14H_replica_over_resume_partial.
Print Assumptions C14H_replica_step_covered_partial.
Print Assumptions C14H_replica_converges_history_partial.
Print Assumptions C14H_replica_invariant_means.
Print Assumptions C14H_bus_shape.
Print Assumptions C14H_replica_is_apply_trans.

(* ------------------------------------------------------------------ every history (proofs/Hub_transient_run.v, _join.v, _initial.v) *)
From Verif Require Import proofs.Hub_transient_join proofs.Hub_transient_initial proofs.Hub_transient_run.

(* T2 for EVERY history of operations from the initial state, async semantics (one operation at a time, queued
   publications delivered in any order; nothing assumed about the bus), no hypothesis: the ghost (g_bind, g_rep) is
   computed from the outputs only (grun applies gouts to the outputs of every step).  For every live non-virtual
   session x that is in a room k: the room exists, and the replica of x, replayed over the pending queue of x, is
   (number of the room, data of the room) - equal as association lists; if x has a connection, its queue is empty and
   the replica itself is the data. *)
Theorem C14H_replica_converges_history : forall limits gated ops x s k,
  let st := grun (init limits gated, g0) ops in
  fst st = run (init limits gated) ops /\
  (get_sess (fst st) x = Some s -> is_virtual (s_kind s) = false -> s_room s = Some k ->
   exists r d, room_of (fst st) k = Some r /\ r_transient r = d /\
               replayT (s_pending s) (g_rep (snd st) x) = Some (snd k, d) /\
               (forall c, s_conn s = Some c -> s_pending s = [] /\ g_rep (snd st) x = Some (snd k, d))).
Proof. exact replica_converges_history_explicit. Qed.

(* the step of the induction, every operation: RI is kept under the invariants of reachable states *)
Theorem C14H_replica_step : forall h g o, WF h -> Inv h -> TI h -> BusNT h -> BusOK h -> RI h g ->
  RI (fst (step h o)) (gouts g (snd (step h o))).
Proof. exact ri_step_all. Qed.

(* the invariant in every reachable state *)
Theorem C14H_replica_invariant_history : forall limits gated ops,
  RI (run (init limits gated) ops) (snd (grun (init limits gated, g0) ops)).
Proof. exact ri_reachable. Qed.

(* what a resume flushes was queued for the room the session is in: in every reachable state the queue of a
   disconnected member, replayed over its replica at the time of the cut, gives the data of its room *)
Theorem C14H_queue_replays_to_data : forall limits gated ops x s k,
  let st := grun (init limits gated, g0) ops in
  get_sess (fst st) x = Some s -> is_virtual (s_kind s) = false -> s_room s = Some k -> s_conn s = None ->
  exists r, room_of (fst st) k = Some r /\ replayT (s_pending s) (g_rep (snd st) x) = Some (snd k, r_transient r).
Proof. exact queued_notices_replay_to_data. Qed.

(* `initial` goes to the joiner, once: after every history, the transient messages a join by connection c writes
   (trans_outs: all of them, with their connections, in order) are none, or exactly one, `initial d`, to c, with d
   not empty and d the data of the joined room (b, rn) in the state after the step, written after the room reply *)
Theorem C14H_join_initial_once : forall limits gated ops c rn rs rep,
  let R := step (run (init limits gated) ops) (OJoin c rn rs rep) in
  trans_outs (snd R) = [] \/
  exists b d r', d <> [] /\ trans_outs (snd R) = [(c, TInit d)] /\ room_of (fst R) (b, rn) = Some r' /\ r_transient r' = d /\
                 exists pre post, snd R = pre ++ ToConn c (SRoom rn) :: post /\ trans_outs pre = [].
Proof. exact join_initial_history. Qed.

(* non-vacuity: computed histories (proofs/Hub_transient_run.v) *)
Example C14H_hist_join_gets_data :
  snd (step (fst (st_of [OConnect 1 0; OConnect 2 0; OHello 1 (HV1 0 1 false); OHello 2 (HV1 0 2 false);
                         OJoin 1 1 1 (RepOk None 0); OTransient 1 0 1 2])) (OJoin 2 1 2 (RepOk None 0))) =
  [ToBackend (0, 1, 0, 1, 1000002, 1); ToConn 2 (SRoom 1); ToConn 2 (STransient (TInit [(1, 2)]))].
Proof. exact hist_join_gets_data. Qed.
Example C14H_hist_cut_two_changes :
  data_of (st_of hist_ops2) (0, 1) = Some [(1, 5)] /\
  g_rep (snd (st_of hist_ops2)) 2 = Some (1, [(1, 2); (2, 3)]) /\
  queue_of (st_of hist_ops2) 2 = [STransient (TSet 1 5 (Some 2)); STransient (TRemove 2 (Some 3))] /\
  replayT (queue_of (st_of hist_ops2) 2) (g_rep (snd (st_of hist_ops2)) 2) = Some (1, [(1, 5)]).
Proof. exact hist_cut_queue. Qed.
Example C14H_hist_resume :
  snd (step (fst (st_of (hist_ops2 ++ [OConnect 3 0]))) (OHello 3 (HResume (IdPriv 2)))) =
    [ToConn 3 (SHello 2 2); ToConn 3 (STransient (TSet 1 5 (Some 2))); ToConn 3 (STransient (TRemove 2 (Some 3)))] /\
  g_rep (snd (st_of hist_ops3)) 2 = Some (1, [(1, 5)]) /\ queue_of (st_of hist_ops3) 2 = [] /\
  data_of (st_of hist_ops3) (0, 1) = Some [(1, 5)].
Proof. exact hist_resume. Qed.
Example C14H_hist_switch_of_rooms :
  g_rep (snd (st_of (hist_ops1 ++ [OJoin 2 2 2 (RepOk None 0)]))) 2 = Some (2, []) /\
  data_of (st_of (hist_ops1 ++ [OJoin 2 2 2 (RepOk None 0)])) (0, 2) = Some [] /\
  g_rep (snd (st_of (hist_ops1 ++ [OJoin 2 2 2 (RepOk None 0); OTransient 1 0 1 7; OJoin 2 1 2 (RepOk None 0)]))) 2 = Some (1, [(1, 7); (2, 3)]) /\
  data_of (st_of (hist_ops1 ++ [OJoin 2 2 2 (RepOk None 0); OTransient 1 0 1 7; OJoin 2 1 2 (RepOk None 0)])) (0, 1) = Some [(1, 7); (2, 3)].
Proof. exact hist_switch. Qed.
Example C14H_hist_hypotheses_satisfiable :
  exists s, get_sess (fst (st_of hist_ops2)) 2 = Some s /\ is_virtual (s_kind s) = false /\ s_room s = Some (0, 1) /\ s_conn s = None.
Proof. exact hist_theorem_instance. Qed.

Print Assumptions C14H_replica_converges_history.
Print Assumptions C14H_replica_step.
Print Assumptions C14H_replica_invariant_history.
Print Assumptions C14H_queue_replays_to_data.
Print Assumptions C14H_join_initial_once.
