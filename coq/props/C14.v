(* C14 — Transient room data: listeners converge to the room's data; TTLs are honoured.
   Only statements here; proofs are in proofs/Transient_proofs.v.

   The model (model/Transient.v) has two variants: [true] is the code with
   fixes/C14/01-stale-ttl-timer.patch, [false] the code without it.  Theorems
   that mention a variable variant hold for both. *)
From Coq Require Import List ZArith NArith Bool String Lia.
From Verif Require Import gen.LockProgs model.Transient corr.Run_C14 proofs.Transient_proofs.
Import ListNotations.
Open Scope Z_scope.

(* Every method of TransientData is a sequence of whole critical sections on
   TransientData.mu (the second section of the setters is the nil-value
   delegation to Remove / CompareAndRemove, flattened by the translator), so a
   method call is one atomic step and notifications are sent inside it. *)
Theorem C14_ops_atomic :
  locks_TransientData =
    [("AddListener", [Lock; Unlock]); ("RemoveListener", [Lock; Unlock]);
     ("Set", [Lock; Unlock; Lock; Unlock]); ("SetTTL", [Lock; Unlock; Lock; Unlock]);
     ("CompareAndSet", [Lock; Unlock; Lock; Unlock]); ("CompareAndSetTTL", [Lock; Unlock; Lock; Unlock]);
     ("Remove", [Lock; Unlock]); ("CompareAndRemove", [Lock; Unlock]); ("GetData", [Lock; Unlock])]%string /\
  forallb (fun e => sections_only (snd e) && negb (Nat.eqb (List.length (snd e)) 0)) locks_TransientData = true.
Proof. split; vm_compute; reflexivity. Qed.

(* Value equality of the model (checked against reflect.DeepEqual every run) is equality. *)
Theorem C14_json_eqb : forall a b, json_eqb a b = true <-> a = b.
Proof. exact json_eqb_iff. Qed.

(* replica_converges.  For every history (any operations, any timing of
   expiries, late callbacks included) and every listener: while it is joined,
   what it received on joining with every later set/remove notification applied
   in order is the store's current data; while it is not joined it is not in
   the listener set.  The statement is about every op list, hence about every
   prefix of every history.  Holds with and without the repair. *)
Theorem C14_replica_converges : forall variant ops l,
  match replica l None (trace_of variant ops) with
  | Some r => In l (listeners (run variant ops)) /\ r = data (run variant ops)
  | None => ~ In l (listeners (run variant ops))
  end.
Proof. exact replica_converges. Qed.

(* A listener that is not joined is sent nothing. *)
Theorem C14_only_joined_are_sent : forall variant s o l m,
  NoDup (listeners s) -> In (l, m) (snd (snd (step variant s o))) -> In l (listeners (fst (step variant s o))).
Proof. exact step_outs_joined. Qed.

(* unchanged_set_silent: setting the value a key already has sends nothing and
   changes neither the data nor the listeners (it only updates the ttl). *)
Theorem C14_unchanged_set_silent : forall variant s k v ttl,
  dget (data s) k = Some v ->
  snd (step variant s (OSet k (Some v) ttl)) = (false, []) /\
  data (fst (step variant s (OSet k (Some v) ttl))) = data s /\
  listeners (fst (step variant s (OSet k (Some v) ttl))) = listeners s.
Proof. exact unchanged_set_silent. Qed.

(* ttl_refines: the repaired implementation refines the specification
   "(data, one deadline per key); the latest request on a key governs":
   one step, under the invariant, and whole histories from the initial state. *)
Theorem C14_ttl_refines : forall s o,
  Inv s -> Inv (fst (step true s o)) /\ speq (abs (fst (step true s o))) (spec_step (abs s) o).
Proof. exact step_refines. Qed.
Theorem C14_ttl_refines_run : forall ops, speq (abs (run true ops)) (spec_run spec_init ops).
Proof. intros ops. exact (run_refines ops init spec_init inv_init abs_init). Qed.

(* ttl_honoured: after any history, a value stored with a time-to-live by Set
   or by a successful compare-and-set stays as long as less than ttl has
   elapsed, and disappears, with a remove notification to every listener, at
   the Advance that reaches the deadline, whatever happens in between that
   does not name the key (other keys, listeners joining and leaving, late
   callbacks of superseded timers).  A request that names the key starts over
   (this theorem applied to it, or the next one). *)
Theorem C14_ttl_honoured : forall pre o k v ttl mid dt,
  let s0 := run true pre in
  0 < ttl -> stores s0 o k v ttl ->
  forallb (fun x => negb (names k x)) mid = true ->
  elapsed mid < ttl -> ttl <= elapsed mid + dt ->
  let s2 := run_from true (fst (step true s0 o)) mid in
  dget (data s2) k = Some v /\
  dget (data (fst (step true s2 (OAdvance dt)))) k = None /\
  forall l, In l (listeners s2) -> In (l, MRemove k v) (snd (snd (step true s2 (OAdvance dt)))).
Proof. exact ttl_honoured. Qed.

(* ... and a value whose latest request has no time-to-live stays, whatever
   timers earlier requests armed and however much time passes. *)
Theorem C14_ttl_cleared_persists : forall pre o k v ttl mid,
  let s0 := run true pre in
  ttl <= 0 -> stores s0 o k v ttl ->
  forallb (fun x => negb (names k x)) mid = true ->
  dget (data (run_from true (fst (step true s0 o)) mid)) k = Some v.
Proof. exact ttl_cleared_persists. Qed.

(* fire_late_safe: a callback that had already started when its timer was
   stopped (FireLate) sends nothing and changes neither data, listeners, the
   registered timers nor any deadline. *)
Theorem C14_fire_late_safe : forall ops i,
  let s := run true ops in
  let r := step true s (OFireLate i) in
  snd r = (false, []) /\ data (fst r) = data s /\ listeners (fst r) = listeners s /\
  tmap (fst r) = tmap s /\ (forall k, live_deadline (fst r) k = live_deadline s k) /\ now (fst r) = now s.
Proof. exact fire_late_safe. Qed.

(* The predicate with which the implementation's traces are judged on every
   run holds on every trace of the repaired model. *)
Theorem C14_trace_predicate : forall ops, P_C14 (trace_of true ops) = true.
Proof. exact P_holds. Qed.

(* ---- the code without the repair: the TTL statements fail -------------------- *)
Theorem C14_ttl_honoured_refuted :
  (exists ops, P_C14 (trace_of false ops) = false /\ dget (data (run false ops)) 1%N = None /\ ops = h_clear) /\
  (exists ops, P_C14 (trace_of false ops) = false /\ dget (data (run false ops)) 1%N = None /\ ops = h_aba) /\
  (exists ops, P_C14 (trace_of false ops) = false /\ dget (data (run false ops)) 1%N = None /\ ops = h_late).
Proof.
  split; [|split]; eexists; (split; [|split; [|reflexivity]]);
    first [apply refuted_clear | apply refuted_aba | apply refuted_late].
Qed.
Theorem C14_ttl_cleared_persists_refuted :
  exists pre o k v ttl mid,
    ttl <= 0 /\ o = OSet k (Some v) ttl /\ forallb (fun x => negb (names k x)) mid = true /\
    dget (data (run_from false (fst (step false (run false pre) o)) mid)) k = None.
Proof. exact refuted_cleared_persists. Qed.
Theorem C14_fire_late_safe_refuted :
  exists ops i, dget (data (run false ops)) 1%N = Some (JStr 7) /\
                dget (data (fst (step false (run false ops) (OFireLate i)))) 1%N = None.
Proof. exact refuted_fire_late. Qed.
Theorem C14_ttl_refines_refuted :
  exists ops o, ~ speq (abs (fst (step false (run false ops) o))) (spec_step (abs (run false ops)) o).
Proof. exact refuted_refines. Qed.

(* ---- non-vacuity ------------------------------------------------------------------ *)
(* the hypotheses of C14_ttl_honoured are met by a history with two listeners,
   another key and a late callback in between; the conclusion is what the theorem says *)
Example C14_ttl_honoured_nonvacuous :
  let pre := [OAddL 1; OSet 1 (Some (JStr 7)) (30 * msec); OSet 1 (Some (JStr 7)) (80 * msec)] in
  let o := OCas 1 (Some (JStr 7)) (Some (JStr 8)) (50 * msec) in
  let mid := [OSet 2 (Some (JNum 1000)) (10 * msec); OAdvance (20 * msec); OFireLate 0; OAddL 2; OAdvance (-5)] in
  0 < 50 * msec /\ stores (run true pre) o 1 (JStr 8) (50 * msec) /\
  forallb (fun x => negb (names 1 x)) mid = true /\ elapsed mid < 50 * msec /\ 50 * msec <= elapsed mid + 40 * msec /\
  snd (snd (step true (run_from true (fst (step true (run true pre) o)) mid) (OAdvance (40 * msec)))) =
    [(1%N, MRemove 1 (JStr 8)); (2%N, MRemove 1 (JStr 8))].
Proof.
  cbv zeta. split; [reflexivity|]. split; [right; exists (Some (JStr 7)); split; reflexivity|].
  split; [vm_compute; reflexivity|]. split; [vm_compute; reflexivity|].
  split; [vm_compute; discriminate|vm_compute; reflexivity].
Qed.
Example C14_ttl_cleared_nonvacuous :
  stores (run true [OSet 1 (Some (JStr 7)) (50 * msec)]) (OSet 1 (Some (JStr 7)) 0) 1 (JStr 7) 0 /\
  dget (data (run true (h_clear ++ [OAdvance (1000 * msec)]))) 1%N = Some (JStr 7).
Proof. split; [left; reflexivity|vm_compute; reflexivity]. Qed.
(* a listener's replica on a history with a join after data exists, a set, an expiry and a leave *)
Example C14_replica_nonvacuous :
  let ops := [OSet 1 (Some (JStr 7)) (50 * msec); OAddL 3; OSet 2 (Some (JStr 8)) 0; OAdvance (60 * msec)] in
  replica 3 None (trace_of true ops) = Some [(2%N, JStr 8)] /\
  replica 3 None (trace_of true (ops ++ [ORemoveL 3; OSet 2 (Some (JStr 9)) 0])) = None.
Proof. split; vm_compute; reflexivity. Qed.
(* the invariant of C14_ttl_refines holds in every reachable state *)
Example C14_inv_reachable : forall ops, Inv (run true ops).
Proof. exact inv_run. Qed.

Print Assumptions C14_ops_atomic.
Print Assumptions C14_json_eqb.
Print Assumptions C14_replica_converges.
Print Assumptions C14_only_joined_are_sent.
Print Assumptions C14_unchanged_set_silent.
Print Assumptions C14_ttl_refines.
Print Assumptions C14_ttl_refines_run.
Print Assumptions C14_ttl_honoured.
Print Assumptions C14_ttl_cleared_persists.
Print Assumptions C14_fire_late_safe.
Print Assumptions C14_trace_predicate.
Print Assumptions C14_ttl_honoured_refuted.
Print Assumptions C14_ttl_cleared_persists_refuted.
Print Assumptions C14_fire_late_safe_refuted.
Print Assumptions C14_ttl_refines_refuted.
