(* C03 — Sessions of different backends (tenants) never reach each other. *)
From Coq Require Import List NArith Bool.
From Verif Require Import model.Hub corr.Hub_preds proofs.Hub_easy proofs.Hub_route proofs.Hub_refuted proofs.Hub_wf proofs.Hub_isolation.
Import ListNotations.
Open Scope N_scope.

(* A message or control message addressed to the public id of a session of another backend is
   dropped: no output, no state change (the control path has the check since commit "fix: control
   messages could be sent to sessions of a different backend"). *)
Theorem C03_foreign_session_not_addressable : forall h c sid s n t kindn tag,
  conn_session h c sid s -> get_sess h n = Some t -> t.(s_backend) <> s.(s_backend) ->
  do_message h sid s kindn (RSession (IdPub n)) tag true = (h, []).
Proof. exact message_to_other_backend_dropped. Qed.

(* Room, call and user messages travel on a subject that carries the sender's backend, and only
   sessions of that backend listen there: rooms and users with the same id on different backends
   are different subjects. *)
Theorem C03_room_subject_is_per_backend : forall h sid s k kindn tag,
  s.(s_room) = Some k ->
  do_message h sid s kindn RRoom tag true =
  (publish h (SubjRoom (fst k) (snd k)) (AEvent (delivered kindn RRoom sid (sess_userid h sid s) None tag) sid false), []).
Proof. exact room_message_published. Qed.
Theorem C03_user_subject_is_per_backend : forall h sid s u kindn tag,
  u <> 0 -> u <> sess_userid h sid s ->
  do_message h sid s kindn (RUser u) tag true =
  (publish h (SubjUser s.(s_backend) u) (AEvent (delivered kindn (RUser u) sid (sess_userid h sid s) None tag) sid false), []).
Proof. exact user_message_published. Qed.
Theorem C03_user_listeners_same_backend : forall h b u x, In x (user_listeners h b u) <->
  exists s, In (x, s) h.(h_sessions) /\ is_virtual s.(s_kind) = false /\ s.(s_backend) = b /\ s.(s_user) = u.
Proof. exact user_listener_spec. Qed.
Theorem C03_room_listeners_same_room : forall h k x, In x (room_listeners h k) <->
  exists s, In (x, s) h.(h_sessions) /\ is_virtual s.(s_kind) = false /\ s.(s_room) = Some k.
Proof. exact room_listener_spec. Qed.

(* The dial-out request of the room API ("call this number into the room"): Hub.GetDialoutSession hands it to a
   dial-out client (internal client with feature start-dialout, in no room) of THE REQUEST'S backend.  For every
   state satisfying the tenancy invariants (every reachable state does, C03_invariants_every_history), whoever
   signed the request, whatever room and number: every message it causes is the request itself, written to a
   connection of a session of backend b; no session of another backend changes, appears or disappears; and when
   b has no connected dial-out client - whatever clients other backends have - nothing happens at all. *)
Theorem C03_dialout_reaches_own_backend : forall h b signas room ok, TI h ->
  let r := step h (OApi b signas room (ADialout ok)) in
  (forall c m, In (ToConn c m) (snd r) -> m = SDialout room /\ bconn b h c) /\
  (forall sid s, s_backend s <> b -> get_sess h sid = Some s \/ get_sess (fst r) sid = Some s ->
     get_sess (fst r) sid = get_sess h sid) /\
  ((forall sid s, In sid (h_dialout h) -> get_sess h sid = Some s -> s_backend s = b -> s_conn s = None) -> r = (h, [])).
Proof. exact dialout_own_backend. Qed.
Theorem C03_dialout_two_tenants :
  let h := qrun (init [0; 0] false) [OConnect 1 0; OConnect 2 0; OHello 1 (HInternal 0 0 false true)] in
  snd (qstep h (OApi 1 1 5 (ADialout true))) = [] /\
  snd (qstep h (OApi 0 0 5 (ADialout true))) = [ToConn 1 (SDialout 5)] /\
  snd (qstep h (OApi 0 0 5 (ADialout false))) = [] /\
  snd (qstep (fst (qstep h (OHello 2 (HInternal 1 0 false true)))) (OApi 1 1 5 (ADialout true))) = [ToConn 2 (SDialout 5)].
Proof. exact dialout_two_tenants. Qed.

(* The full statement (P_C03 on every history) is refuted by the code as it is: the map from
   Nextcloud session ids to sessions is shared by all backends (known findings
   C03/room-session-map/global-kick and .../global-api); the witnesses are replayed on the
   implementation in every run. *)
Theorem C03_isolation_refuted_kick : P_hub 3 (model_case 1 [0; 0] global_kick_ops) = Some (5, 1).
Proof. exact isolation_refuted_kick. Qed.
Theorem C03_isolation_refuted_api : P_hub 3 (model_case 1 [0; 0] global_api_ops) = Some (5, 1).
Proof. exact isolation_refuted_api. Qed.

(* isolation_partial.  rs_local h o: the op names no Nextcloud session id that the shared map resolves
   to a session of another backend (for a join: the id it joins with; for the room API: the ids in its
   user lists).  op_on b h o: the op acts for backend b (its connection's session is a session of b, the
   API call is signed for b, the hello names b).  TI: rooms, members and virtual sessions stay within
   their backend, and a connection and its session name each other; it holds in every reachable state. *)
Theorem C03_invariants_every_history : forall limits gated ops,
  TI (run (init limits gated) ops) /\ TI (qrun (init limits gated) ops).
Proof. intros. split; [apply ti_reachable|apply ti_reachable_q]. Qed.

(* One op of backend b, step and quiescent semantics: (a) every session of another backend is unchanged
   (the whole record), none appears or disappears; (b) messages go to the op's own connection or to a
   connection of a session of b; (c) rooms of other backends are unchanged; what is queued on the bus
   is a publication of b. *)
Theorem C03_isolation_partial_step : forall b h o,
  WF h -> TI h -> rs_local h o = true -> op_on b h o ->
  (forall sid s, s_backend s <> b -> get_sess h sid = Some s \/ get_sess (fst (step h o)) sid = Some s ->
     get_sess (fst (step h o)) sid = get_sess h sid) /\
  (forall c m, In (ToConn c m) (snd (step h o)) -> Some c = own_conn o \/ bconn b h c) /\
  (forall b' rn, b' <> b -> room_of (fst (step h o)) (b', rn) = room_of h (b', rn)) /\
  (forall p, In p (h_bus (fst (step h o))) -> In p (h_bus h) \/ pub_ok b (fst (step h o)) p).
Proof. exact isolation_partial_step. Qed.
Theorem C03_isolation_partial : forall b h o,
  WF h -> TI h -> rs_local h o = true -> op_on b h o -> bus_all b h ->
  ((forall sid s, s_backend s <> b -> get_sess h sid = Some s \/ get_sess (fst (qstep h o)) sid = Some s ->
     get_sess (fst (qstep h o)) sid = get_sess h sid) /\
   (forall c m, In (ToConn c m) (snd (qstep h o)) -> Some c = own_conn o \/ bconn b h c) /\
   (forall b' rn, b' <> b -> room_of (fst (qstep h o)) (b', rn) = room_of h (b', rn)) /\
   (forall p, In p (h_bus (fst (qstep h o))) -> In p (h_bus h) \/ pub_ok b (fst (qstep h o)) p)) /\
  bus_all b (fst (qstep h o)).
Proof. exact isolation_partial. Qed.
(* no message of the op reaches a connection of a session of another backend *)
Theorem C03_isolation_victim : forall b b0 h o,
  WF h -> TI h -> rs_local h o = true -> op_on b h o -> bus_all b h -> b0 <> b ->
  forall c m, In (ToConn c m) (snd (qstep h o)) -> ~ bconn b0 h c.
Proof. exact isolation_victim. Qed.
(* deliveries are not attributable to an op: a publication of backend b (its subject names b or a
   session of b) reaches and changes sessions of b only; for session subjects: the session itself *)
Theorem C03_isolation_deliver : forall b h pos, WF h -> TI h ->
  (forall p rest, take_nth (N.to_nat pos) (h_bus h) = Some (p, rest) -> pub_ok b h p) ->
  isolated b None h (step h (ODeliver pos)).
Proof. exact isolation_deliver. Qed.
(* histories: ops of other backends, each naming no foreign room-session id, each starting with a
   drained bus, leave the sessions and rooms of backend b0 as they were and send it nothing *)
Theorem C03_isolation_history : forall b0 ops h, WF h -> TI h -> locals h ops -> others b0 h ops ->
  same_tenant b0 h (qrun h ops) /\
  (forall c m, In (ToConn c m) (qrun_outs h ops) -> ~ bconn b0 h c).
Proof. exact isolation_history. Qed.
Theorem C03_isolation_history_checked : forall b0 limits gated pre ops,
  let h := qrun (init limits gated) pre in
  hist_ok b0 h ops = true ->
  same_tenant b0 h (qrun h ops) /\ (forall c m, In (ToConn c m) (qrun_outs h ops) -> ~ bconn b0 h c).
Proof. exact isolation_history_checked. Qed.
(* satisfiable: two tenants with coinciding room and user ids, Nextcloud session ids disjoint per backend *)
Theorem C03_two_tenants_local :
  hist_ok 2 (init [0; 0] false) (two_tenants_setup ++ tenant0_ops) = true /\
  hist_ok 1 (qrun (init [0; 0] false) two_tenants_setup) tenant0_ops = true.
Proof. exact two_tenants_local. Qed.
(* and necessary: without the side condition a join on backend 1 closes a session of backend 0, an API
   call of backend 1 sets the permissions of a session of backend 0 *)
Theorem C03_isolation_refuted_without_rs_local :
  let h := qrun (init [0; 0] false) shared_rs_pre in
  (exists s, get_sess h 1 = Some s /\ s_backend s = 0) /\
  get_sess (fst (qstep h (OJoin 2 7 5 (RepOk None 0)))) 1 = None /\
  (exists s s', get_sess h 1 = Some s /\
     get_sess (fst (qstep h (OApi 1 1 9 (AParticipants [(IdRS 5, 0, Some 24)])))) 1 = Some s' /\ s_perms s = None /\ s_perms s' = Some 24).
Proof. exact isolation_refuted_without_rs_local. Qed.


Print Assumptions C03_foreign_session_not_addressable.
Print Assumptions C03_room_subject_is_per_backend.
Print Assumptions C03_user_subject_is_per_backend.
Print Assumptions C03_user_listeners_same_backend.
Print Assumptions C03_room_listeners_same_room.
Print Assumptions C03_dialout_reaches_own_backend.
Print Assumptions C03_dialout_two_tenants.
Print Assumptions C03_isolation_refuted_kick.
Print Assumptions C03_isolation_refuted_api.
Print Assumptions C03_invariants_every_history.
Print Assumptions C03_isolation_partial_step.
Print Assumptions C03_isolation_partial.
Print Assumptions C03_isolation_victim.
Print Assumptions C03_isolation_deliver.
Print Assumptions C03_isolation_history.
Print Assumptions C03_isolation_history_checked.
Print Assumptions C03_two_tenants_local.
Print Assumptions C03_isolation_refuted_without_rs_local.
