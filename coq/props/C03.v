(* C03 — Sessions of different backends (tenants) never reach each other. *)
From Coq Require Import List NArith Bool.
From Verif Require Import model.Hub corr.Hub_preds proofs.Hub_easy proofs.Hub_route proofs.Hub_refuted.
Import ListNotations.
Open Scope N_scope.

(* A message or control message addressed to the public id of a session of another backend is
   dropped: no output, no state change (the control path has the check since commit "fix: control
   messages could be sent to sessions of a different backend"). *)
Theorem C03_foreign_session_not_addressable : forall h c sid s n t kindn tag,
  conn_session h c sid s -> get_sess h n = Some t -> t.(s_backend) <> s.(s_backend) ->
  do_message h sid s kindn (RSession (IdPub n)) tag true = (h, []).
Proof. exact message_to_other_backend_dropped. Qed.

(* Room, call and user messages travel on a subject that carries the sender's backend, and only
   sessions of that backend listen there: rooms and users with the same id on different backends
   are different subjects. *)
Theorem C03_room_subject_is_per_backend : forall h sid s k kindn tag,
  s.(s_room) = Some k ->
  do_message h sid s kindn RRoom tag true =
  (publish h (SubjRoom (fst k) (snd k)) (AEvent (delivered kindn RRoom sid (sess_userid h sid s) None tag) sid false), []).
Proof. exact room_message_published. Qed.
Theorem C03_user_subject_is_per_backend : forall h sid s u kindn tag,
  u <> 0 -> u <> sess_userid h sid s ->
  do_message h sid s kindn (RUser u) tag true =
  (publish h (SubjUser s.(s_backend) u) (AEvent (delivered kindn (RUser u) sid (sess_userid h sid s) None tag) sid false), []).
Proof. exact user_message_published. Qed.
Theorem C03_user_listeners_same_backend : forall h b u x, In x (user_listeners h b u) <->
  exists s, In (x, s) h.(h_sessions) /\ is_virtual s.(s_kind) = false /\ s.(s_backend) = b /\ s.(s_user) = u.
Proof. exact user_listener_spec. Qed.
Theorem C03_room_listeners_same_room : forall h k x, In x (room_listeners h k) <->
  exists s, In (x, s) h.(h_sessions) /\ is_virtual s.(s_kind) = false /\ s.(s_room) = Some k.
Proof. exact room_listener_spec. Qed.

(* The full statement (P_C03 on every history) is refuted by the code as it is: the map from
   Nextcloud session ids to sessions is shared by all backends (known findings
   C03/room-session-map/global-kick and .../global-api); the witnesses are replayed on the
   implementation in every run.  isolation_partial = the theorems above, which do not go through
   that map. *)
Theorem C03_isolation_refuted_kick : P_hub 3 (model_case 1 [0; 0] global_kick_ops) = Some (5, 1).
Proof. exact isolation_refuted_kick. Qed.
Theorem C03_isolation_refuted_api : P_hub 3 (model_case 1 [0; 0] global_api_ops) = Some (5, 1).
Proof. exact isolation_refuted_api. Qed.

Print Assumptions C03_foreign_session_not_addressable.
Print Assumptions C03_room_subject_is_per_backend.
Print Assumptions C03_user_subject_is_per_backend.
Print Assumptions C03_user_listeners_same_backend.
Print Assumptions C03_room_listeners_same_room.
Print Assumptions C03_isolation_refuted_kick.
Print Assumptions C03_isolation_refuted_api.
