(* C17 — Repeated failures from one address are throttled and then blocked.
   Only statements here; proofs are in proofs/Throttle_proofs.v. *)
From Coq Require Import List ZArith NArith Bool String Lia.
From Verif Require Import gen.Params gen.LockProgs model.Throttle corr.Run_C17 proofs.Throttle_proofs.
From Verif Require model.BackendLocks model.ThrottleLocks proofs.ThrottleLocks_proofs.
Import ListNotations.
Open Scope Z_scope.

(* The thresholds in the current source are the ones the property names. *)
Theorem C17_params :
  maxBruteforceAttempts = 10 /\ maxBruteforceDurationThreshold = 30 * 60 * 1000000000 /\
  maxBruteforceAge = 12 * 3600 * 1000000000 /\ maxThrottleDelay = 25 * 1000000000.
Proof. exact params_ok. Qed.

(* Delays: never decreasing in the number of failures, positive, at most 25 s;
   the 64-bit product cannot wrap in the guarded range. *)
Theorem C17_delay_monotone : forall c1 c2, 0 <= c1 <= c2 -> get_delay c1 <= get_delay c2.
Proof. exact delay_monotone. Qed.
Theorem C17_delay_bounded : forall c, 0 <= c -> 0 < get_delay c <= 25 * 1000000000.
Proof. exact delay_bounded. Qed.
Theorem C17_delay_no_overflow : forall c, 0 <= c <= 16 -> 100 * 2 ^ c * 1000000 < 2 ^ 63.
Proof. exact delay_no_overflow. Qed.

(* The whole property (sliding window of ten failures in thirty minutes, delays
   bounded and monotone in the number of failures of the last twelve hours) for
   every sequential history of attempts and clean-ups, any number of addresses
   and kinds, any times. *)
Theorem C17_sequential : forall xs t0,
  nondecr t0 (map act_time xs) -> P_C17 (arun xs) = true.
Proof. exact sequential_full. Qed.

(* Window and delay bound for every interleaving of checks, failure recordings
   and clean-ups whose time stamps are in order. *)
Theorem C17_interleaved_ordered : forall ops t0,
  nondecr t0 (map op_time ops) -> P_C17_window (trace_of ops) = true.
Proof. exact window_ordered. Qed.

(* Every interleaving, no hypothesis: what one (address,kind) sees and stores
   is a function of the operations on that (address,kind) alone. *)
Theorem C17_isolation : forall k ops,
  outs_for k (trace_of ops) = outs_for k (trace_of (filter (touches k) ops)) /\
  final ops k = final (filter (touches k) ops) k.
Proof. exact isolation. Qed.

(* The same as the predicate the harness evaluates on two runs of the
   implementation (corr/Run_C17.v, verdict code 5): the answers an
   (address,kind) gets in a history are the answers it gets in the history
   restricted to it - for every op list, and for sequential histories
   restricted at the level of whole attempts. *)
Theorem C17_isolation_predicate : forall ops ks,
  P_C17_iso (trace_of ops)
    (map (fun k => (k, map snd (trace_of (filter (touches k) ops)))) ks) = true.
Proof. exact P_iso_holds. Qed.
Theorem C17_isolation_sequential : forall k xs,
  iso_ok k (arun xs) (map snd (arun (filter (stouches k) xs))) = true.
Proof. exact iso_sequential. Qed.

(* Every interleaving: an attempt is refused only after ten recorded failures
   of the same (address,kind). *)
Theorem C17_refused_needs_ten : forall pre t a act,
  snd (step (final pre) (OCheck t a act)) = VBlocked ->
  (10 <= fails_on (throttle_ip a, act) pre)%nat.
Proof. exact refused_needs_ten_failures. Qed.

(* IPv6 addresses are throttled per /64, everything else per address and kind. *)
Theorem C17_same_64 : forall hi lo1 lo2 (act : N),
  (throttle_ip (A6 hi lo1), act) = (throttle_ip (A6 hi lo2), act).
Proof. exact same_64_same_key. Qed.
Theorem C17_other_64 : forall hi1 lo1 hi2 lo2 (act1 act2 : N),
  hi1 <> hi2 -> (throttle_ip (A6 hi1 lo1), act1) <> (throttle_ip (A6 hi2 lo2), act2).
Proof. exact other_64_other_key. Qed.
Theorem C17_other_kind : forall a1 a2 (act1 act2 : N),
  act1 <> act2 -> (throttle_ip a1, act1) <> (throttle_ip a2, act2).
Proof. exact other_action_other_key. Qed.

(* Records older than twelve hours are gone after the next clean-up. *)
Theorem C17_forgetting : forall pre t t0,
  nondecr t0 (map op_time (pre ++ [OCleanup t])) ->
  forall k e, In e (final (pre ++ [OCleanup t]) k) -> t - e <= 12 * 3600 * 1000000000.
Proof. exact forgetting. Qed.

(* The check-and-prune step of the model is one critical section in the code. *)
Theorem C17_check_atomic :
  In ("CheckBruteforce"%string, [Lock; Unlock]) locks_memoryThrottler /\
  In ("throttle"%string, [Lock; Unlock]) locks_memoryThrottler.
Proof. split; vm_compute; tauto. Qed.

(* The delay of a failed attempt is slept outside the mutex.  The translator
   marks the call of doDelay among the lock operations of every entry point
   (gen/LockProgs.v, regenerated from the current source): in the current source
   no entry point makes that call while holding the mutex, and throttle is the
   entry point that makes it, after its critical section. *)
Theorem C17_delay_outside_lock :
  forallb ThrottleLocks.sleeps_unlocked ThrottleLocks.throttler_progs = true /\
  In ("throttle"%string, [LOp Lock; LOp Unlock; LCall "doDelay"%string]) locks_memoryThrottler_calls /\
  forall name p f m, In (name, p) locks_memoryThrottler_calls ->
    In (f, m) (ThrottleLocks.held_at_calls None p) -> m = None.
Proof.
  split; [vm_compute; reflexivity|]. split; [vm_compute; tauto|].
  intros name p f m Hin. apply ThrottleLocks_proofs.sleeps_unlocked_calls.
  assert (H : forallb ThrottleLocks.sleeps_unlocked ThrottleLocks.throttler_progs = true) by (vm_compute; reflexivity).
  rewrite forallb_forall in H. apply H. unfold ThrottleLocks.throttler_progs.
  apply in_map_iff. exists (name, p). split; [reflexivity|exact Hin].
Qed.

(* What that buys, for every set of programs that sleep outside the mutex: the
   threads that are awake - any number, each between two sleeps of an entry
   point, under any scheduler - all finish within two steps per lock operation
   while the sleepers stay asleep (they are not threads of the system: having
   reached a sleep they hold nothing).  So the delay of one address's failure
   is never waited for by another address or kind. *)
Theorem C17_sleepers_do_not_block : forall progs : list (list lockev),
  forallb ThrottleLocks.sleeps_unlocked progs = true ->
  forall running : list (list lockop),
  (forall q, In q running -> exists p, In p progs /\ In q (ThrottleLocks.segments p)) ->
  forall sched,
    let s := BackendLocks.run sched (BackendLocks.init running) in
    (BackendLocks.all_done s = true \/ exists tid, (tid < List.length running)%nat /\ BackendLocks.enabled s tid = true) /\
    BackendLocks.deadlocked s = false /\
    ((forall tid, BackendLocks.enabled s tid = false) -> BackendLocks.all_done s = true) /\
    (BackendLocks.effective sched (BackendLocks.init running) <= BackendLocks.budget running)%nat.
Proof. exact ThrottleLocks_proofs.awake_threads_complete. Qed.

(* and what a lock held across the delay does (Lock; defer Unlock; ...; doDelay):
   the predicate rejects it, the call is made holding the write lock, and with
   the sleeper asleep the check of another address can never start. *)
Theorem C17_sleep_under_lock_blocks_refuted :
  ThrottleLocks.sleeps_unlocked ThrottleLocks.sleeping_under_lock = false /\
  ThrottleLocks.held_at_calls None ThrottleLocks.sleeping_under_lock = [("doDelay"%string, Some BackendLocks.MW)] /\
  let s := BackendLocks.run [0; 0]%nat (BackendLocks.init [ [Lock]; [Lock; Unlock] ]) in
  BackendLocks.all_done s = false /\ BackendLocks.deadlocked s = true /\
  forall tid, BackendLocks.enabled s tid = false.
Proof. exact ThrottleLocks_proofs.sleeping_under_lock_blocks. Qed.

(* Non-vacuity: a history that meets the hypotheses and exercises the window. *)
Example C17_nonvacuous :
  let xs := map (fun i => Attempt (Z.of_nat i * 1000000000) (A6 1 (N.of_nat i)) 7 true) (seq 0 12) in
  nondecr 0 (map act_time xs) /\
  map snd (filter (fun e => match fst e with OCheck _ _ _ => true | _ => false end) (arun xs)) =
  [VAllowed;VAllowed;VAllowed;VAllowed;VAllowed;VAllowed;VAllowed;VAllowed;VAllowed;VAllowed;VBlocked;VBlocked].
Proof. split; [cbn; repeat split; lia | vm_compute; reflexivity]. Qed.

Print Assumptions C17_params.
Print Assumptions C17_delay_monotone.
Print Assumptions C17_delay_bounded.
Print Assumptions C17_delay_no_overflow.
Print Assumptions C17_sequential.
Print Assumptions C17_interleaved_ordered.
Print Assumptions C17_isolation.
Print Assumptions C17_refused_needs_ten.
Print Assumptions C17_same_64.
Print Assumptions C17_other_64.
Print Assumptions C17_other_kind.
Print Assumptions C17_forgetting.
Print Assumptions C17_check_atomic.
Print Assumptions C17_isolation_predicate.
Print Assumptions C17_isolation_sequential.
Print Assumptions C17_delay_outside_lock.
Print Assumptions C17_sleepers_do_not_block.
Print Assumptions C17_sleep_under_lock_blocks_refuted.
