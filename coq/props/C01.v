(* C01 — No session without valid credentials; nothing happens before hello.
   Only statements; proofs are in proofs/Hub_easy.v. *)
From Coq Require Import List NArith Bool.
From Verif Require Import model.Hub proofs.Hub_easy.
Import ListNotations.
Open Scope N_scope.

(* A hello reply carrying a session id goes only to a connection that presented credentials that
   verify (credentials_verify spells out the four cases of the property; signature / HMAC / backend
   acceptance are the ground truth of the op, established by the harness with the real libraries). *)
Theorem C01_hello_reply_sound : forall h c cn hl sid u,
  aget h.(h_conns) c = Some cn -> cn.(c_sess) = None ->
  In (ToConn c (SHello sid u)) (snd (step h (OHello c hl))) -> credentials_verify h hl.
Proof. exact hello_reply_sound. Qed.

(* Until then every other request is answered with an error and changes nothing: the state after the
   step is the state before, literally. *)
Theorem C01_prehello_inert : forall h o c,
  client_op o c -> conn_unauth h c -> step h o = (h, [ToConn c (SError E_hello_expected)]).
Proof. exact prehello_inert. Qed.

(* ... for every sequence of such requests *)
Theorem C01_prehello_inert_histories : forall h c ops,
  conn_unauth h c -> Forall (fun o => client_op o c) ops ->
  fst (run_steps h ops) = h /\ Forall (fun x => x = ToConn c (SError E_hello_expected)) (snd (run_steps h ops)).
Proof. exact prehello_inert_run. Qed.

(* A backend URL that is not configured is always refused. *)
Theorem C01_unconfigured_backend_refused : forall h c cn u rej,
  aget h.(h_conns) c = Some cn -> cn.(c_sess) = None -> h.(h_nb) <=? 0 + h.(h_nb) = true ->
  forall b, h.(h_nb) <=? b = true ->
  snd (step h (OHello c (HV1 b u rej))) = [ToConn c (SError E_invalid_backend)] /\
  h_sessions (fst (step h (OHello c (HV1 b u rej)))) = h_sessions h.
Proof. exact unconfigured_backend_refused. Qed.
Theorem C01_unconfigured_backend_refused_internal : forall h c cn tok f1 f2,
  aget h.(h_conns) c = Some cn -> cn.(c_sess) = None ->
  forall b, h.(h_nb) <=? b = true ->
  (forall m, In (ToConn c m) (snd (step h (OHello c (HInternal b tok f1 f2)))) -> exists e, m = SError e) /\
  h_sessions (fst (step h (OHello c (HInternal b tok f1 f2)))) = h_sessions h.
Proof. exact unconfigured_backend_refused_internal. Qed.

(* An internal hello whose token does not match creates nothing. *)
Theorem C01_internal_bad_token_refused : forall h c cn b tok f1 f2,
  aget h.(h_conns) c = Some cn -> cn.(c_sess) = None -> tok <> 0 ->
  h_sessions (fst (step h (OHello c (HInternal b tok f1 f2)))) = h_sessions h /\
  (forall m, In (ToConn c m) (snd (step h (OHello c (HInternal b tok f1 f2)))) -> exists e, m = SError e).
Proof. exact internal_bad_token_refused. Qed.

(* Non-vacuity: a state with an unauthenticated connection exists and is reachable. *)
Example C01_nonvacuous :
  conn_unauth (fst (step (init [0; 0] false) (OConnect 1 7))) 1 /\
  credentials_verify (fst (step (init [0; 0] false) (OConnect 1 7))) (HV1 1 3 false).
Proof. split; [eexists; split; reflexivity|split; reflexivity]. Qed.

Print Assumptions C01_hello_reply_sound.
Print Assumptions C01_prehello_inert.
Print Assumptions C01_prehello_inert_histories.
Print Assumptions C01_unconfigured_backend_refused.
Print Assumptions C01_unconfigured_backend_refused_internal.
Print Assumptions C01_internal_bad_token_refused.
