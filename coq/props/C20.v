(* C20 — The event bus delivers per subject, in order, to exactly the registered
   listeners.  Only statements here; proofs are in proofs/Bus*_proofs.v.

   The model (model/Bus.v) has one op per critical section of the code, so
   "for every op list" is "for every interleaving of publish, register and
   unregister calls and of the dispatcher and subscriber goroutines". *)
From Coq Require Import List Arith NArith Bool String Ascii.
From Verif Require Import gen.LockProgs model.Bus corr.Run_C20
  proofs.Bus_proofs proofs.Bus_more_proofs proofs.BusKey_proofs proofs.BusPool_proofs proofs.Bus_final_proofs proofs.BusLocks_proofs proofs.BusReplay_proofs.
Import ListNotations.
Open Scope string_scope.
Open Scope list_scope.

(* ---- listeners that stay registered lose nothing ---------------------------------
   l registered on subscriber i (subject key, kind knd).  For every op list that
   does not unregister l from that subject -- any interleaving of publications,
   dispatcher and subscriber steps, registrations and unregistrations of any
   other listeners on this and other subjects, subscribers being closed and
   created -- below the slow-consumer threshold (no_overflow: the 64-slot channel
   of subscriber i is never full when the dispatcher reaches it):
   handed to l ++ still on its way to l  =  the same before ++ everything
   published on the subject since, in publication order. *)
Theorem C20_bus_fifo_exact : forall i l key knd ops t,
  Good i l key knd t -> forallb (keeps l key knd) ops = true -> no_overflow i ops t = true ->
  Good i l key knd (run ops t) /\
  Meas i l key (run ops t) = Meas i l key t ++ pubs_all key ops.
Proof. exact bus_fifo_exact. Qed.

(* hence: what l received is a prefix of (pipe at the start ++ publications since):
   publication order, nothing twice, nothing skipped before something delivered *)
Theorem C20_received_is_prefix : forall i l key knd ops t,
  Good i l key knd t -> forallb (keeps l key knd) ops = true -> no_overflow i ops t = true ->
  exists rest, delivered i l (run ops t) ++ rest = delivered i l t ++ pending i l key t ++ pubs_all key ops.
Proof. exact received_is_prefix. Qed.

(* and once nothing is on its way any more, l has received all of it *)
Theorem C20_drained_equal : forall i l key knd ops t,
  Good i l key knd t -> forallb (keeps l key knd) ops = true -> no_overflow i ops t = true ->
  pending i l key (run ops t) = [] ->
  delivered i l (run ops t) = delivered i l t ++ pending i l key t ++ pubs_all key ops.
Proof. exact drained_equal. Qed.

(* "below the slow-consumer threshold", in the terms of the property: at most 64
   messages outstanding for the subscriber (in the pipe at the start plus
   published during the history) -- then the channel never overflows *)
Theorem C20_below_threshold : forall i l key knd ops t,
  Good i l key knd t -> forallb (keeps l key knd) ops = true ->
  List.length (pending i l key t) + List.length (pubs_all key ops) <= 64 ->
  no_overflow i ops t = true.
Proof. exact below_threshold. Qed.

(* ---- every listener, registered or not, any capacity: order and at-most-once ------
   No hypothesis on registrations, unregistrations or overflow: what any listener
   l is handed through subscriber i (plus what is still on its way) is a
   subsequence of (pipe before ++ publications on the subject since).  With
   distinct messages this is: publication order, never twice, and nothing that
   was not published on this subject string. *)
Theorem C20_in_order_at_most_once : forall i l key ops t,
  WF i l key t ->
  WF i l key (run ops t) /\ Subseq (Meas i l key (run ops t)) (Meas i l key t ++ pubs_all key ops).
Proof. exact delivered_subseq. Qed.

(* ---- nothing foreign --------------------------------------------------------------
   Full statement: every callback (listener l, message m) ever made was preceded
   by Publish tp m and Register tr l with tp and tr the same subject of the
   property (same kind, id and backend).
   Proved in two parts.  (1) No hypothesis: the subject *strings* and kinds agree. *)
Theorem C20_callback_provenance : forall ops j l m,
  In (j, l, m) (dlog (run ops init)) ->
  exists tp tr, In (Publish tp m) ops /\ In (Register tr l) ops /\
                subject_of tp = subject_of tr /\
                exists x, nth_error (subs (run ops init)) j = Some x /\
                          skind x = tkind tr /\ skey x = subject_of tr.
Proof. exact callback_provenance. Qed.

(* (2) the key construction  prefix.base64(id [| backend])  /  session.id  is
   injective: always across the four kinds, and within a kind when the part
   after the separator carries no separator (wf_target: no "|" in the backend
   id; for a nil / compat backend no "|" in the id). base64 is modelled
   concretely and proved injective. *)
Theorem C20_subject_kind_inj : forall t1 t2, subject_of t1 = subject_of t2 -> tkind t1 = tkind t2.
Proof. exact subject_kind_inj. Qed.
Theorem C20_b64_inj : forall s1 s2, b64 s1 = b64 s2 -> s1 = s2.
Proof. exact b64_inj. Qed.
Theorem C20_subject_inj : forall t1 t2,
  wf_target t1 = true -> wf_target t2 = true -> subject_of t1 = subject_of t2 -> same_target t1 t2.
Proof. exact subject_inj. Qed.

(* C20_subject_inj covers the harness's collision pool (ids together with the
   texts an encoding step could turn them into -- base64 in its variants, hex,
   separators replaced or dropped, case, id|backend -- as ids of their own, with
   and without backends): the judge accepts a table of pool targets only when
   pool_ok holds (corr/Run_C20.v, mode 3); its side condition is wf_target, and
   in an accepted table the model's subject function separates every two
   entries.  So "published for another entry of the table" is "published to
   another subject", and a callback P_C20 (c) calls foreign on such a table is a
   collision of the implementation's subject function (or a misrouted message). *)
Theorem C20_pool_side_condition : forall t, pool_wf t = wf_target t.
Proof. exact pool_wf_is_wf_target. Qed.
Theorem C20_pool_subjects_distinct : forall tb, pool_ok tb = true ->
  forall i j, i < List.length tb -> j < List.length tb -> i <> j ->
  wf_target (tgt tb i) = true /\ wf_target (tgt tb j) = true /\
  subject_of (tgt tb i) <> subject_of (tgt tb j).
Proof. exact pool_subjects_distinct. Qed.

(* partial: under the side condition on every target named in the history *)
Theorem C20_nothing_foreign_partial : forall ops j l m,
  forallb op_wf ops = true ->
  In (j, l, m) (dlog (run ops init)) ->
  exists tp tr, In (Publish tp m) ops /\ In (Register tr l) ops /\ same_target tp tr.
Proof. exact nothing_foreign_wf. Qed.

(* refuted without it (known finding C20/subject/pipe-collision; replayed on the
   implementation by the harness): room "r|x" of backend "y" and room "r" of
   backend "x|y" share one subject *)
Theorem C20_nothing_foreign_refuted :
  exists ops j l m,
    In (j, l, m) (dlog (run ops init)) /\
    forall tp tr, In (Publish tp m) ops -> In (Register tr l) ops -> ~ same_target tp tr.
Proof. exact nothing_foreign_refuted. Qed.
Theorem C20_subject_collision :
  exists t1 t2, ~ same_target t1 t2 /\ subject_of t1 = subject_of t2 /\ wf_target t1 = true.
Proof. exact subject_collision. Qed.
Theorem C20_subject_collision_compat :
  exists t1 t2, ~ same_target t1 t2 /\ subject_of t1 = subject_of t2 /\ wf_target t2 = true.
Proof. exact subject_collision_compat. Qed.

(* ---- nothing after unregister -------------------------------------------------------
   When l is not (no longer) a listener of subscriber i and is not registered for
   that subject again: callbacks of l through i  ++  the one callback already
   decided when the unregistration returned (mutex released, call not yet made)
   stays constant -- so the only thing l can still receive is that one message,
   which was published before the unregistration returned. *)
Theorem C20_nothing_after_unregister : forall i l knd key ops t,
  NotReg i l knd key t -> forallb (noreg l knd key) ops = true ->
  NotReg i l knd key (run ops t) /\ U i l (run ops t) = U i l t.
Proof. exact nothing_after_unregister. Qed.

(* ---- ... and nothing at all when the dispatch is inside a callback --------------------
   l is not a listener of subscriber i (its unregistration has returned) and the
   subscriber has no callback decided ([cur] = None) -- in particular whenever its
   goroutine is inside a callback: [Call] clears [cur], the next listener is chosen
   after the callback returned.  Then for every op list that does not register l for
   the subject again, l is handed nothing through i any more and nothing is decided
   for it.  The trace form is clause (e) of P_C20 (corr/Run_C20.v): a callback the
   harness holds was running when the unregistration returned => no callback of that
   message for l afterwards. *)
Theorem C20_nothing_behind_a_running_callback : forall i l knd key ops t x,
  NotReg i l knd key t -> nth_error (subs t) i = Some x -> cur x = None ->
  forallb (noreg l knd key) ops = true ->
  delivered i l (run ops t) = delivered i l t /\
  late_of l (nth_error (subs (run ops t)) i) = [].
Proof. exact nothing_behind_a_running_callback. Qed.

(* ---- what the replay of the harness accepts ------------------------------------------
   The judge's verdict "the model follows the log" ([replay ... = None], no code 1) means:
   there is an op list whose run from the initial state makes exactly the logged
   callbacks, in the logged order (and, checked by the replay on the way, returns what the
   logged calls returned, is quiescent exactly where the implementation was, and has the
   logged digests).  The replay chooses between dropping a snapshot entry that is not a
   member any more at once and leaving it by looking at the callbacks the log still holds;
   whatever it chooses, it only applies [step]. *)
Theorem C20_replay_is_run : forall tb evs,
  replay tb 0 (mkR init [] []) evs = None ->
  exists ops, model_callbacks (run ops init) = logged_callbacks evs.
Proof. exact replay_is_run. Qed.

(* ---- "receives every message published before unregistration began" -----------------
   Full statement of the property: every message whose publication returned after
   the registration completed and before the unregistration began is received.
   Proved: C20_drained_equal (everything is received once nothing is on its way).
   Refuted as stated (known finding C20/unregister/pending-lost; replayed on the
   implementation): a message still on its way when the listener is unregistered
   is never delivered. *)
Theorem C20_published_before_unregister_refuted :
  let t := run pending_lost_pre init in
  q t = [(subject_of pending_lost_tg, 1%N)] /\
  forall ops, forallb (noreg 3%N KRoom (subject_of pending_lost_tg)) ops = true ->
              delivered 0 3%N (run ops t) = [].
Proof. exact published_before_unregister_refuted. Qed.

(* ---- publishers never block ----------------------------------------------------------
   Publish is enabled in every state (whatever registrations are under way,
   whatever the consumers do) and only appends to the queue ... *)
Theorem C20_publish_never_blocks : forall t tg m,
  enabled t (Publish tg m) = true /\
  (bad_subject (subject_of tg) = false -> q (step t (Publish tg m)) = q t ++ [(subject_of tg, m)]) /\
  disp (step t (Publish tg m)) = disp t /\ subs (step t (Publish tg m)) = subs t /\
  emu (step t (Publish tg m)) = emu t /\ dlog (step t (Publish tg m)) = dlog t /\
  drops (step t (Publish tg m)) = drops t.
Proof. exact publish_never_blocks. Qed.

(* ... and from every state the dispatcher alone (no step of any subscriber or
   listener: channels may be full, callbacks may never return) empties it *)
Theorem C20_dispatcher_never_blocks : forall t,
  exists ops, forallb dispatcher_op ops = true /\ q (run ops t) = [] /\ disp_idle (run ops t) = true.
Proof. exact dispatcher_never_blocks. Qed.

(* the slow-consumer threshold is what the model says it is: the 65th and 66th
   message for a subscriber that took none from its channel are dropped *)
Theorem C20_slow_consumer_drops :
  let t := run (Register pending_lost_tg 3%N :: RegFinish :: flood 66) init in
  drops t = [(0, 65%N); (0, 66%N)] /\
  exists x, nth_error (subs t) 0 = Some x /\ List.length (chan x) = 64.
Proof. exact slow_consumer_drops. Qed.

(* ---- lock programs of the current source ------------------------------------------------
   asyncEventsNats.mu, the four subscriber mutexes and LoopbackNatsClient.mu: no
   acquisition while held by the same goroutine, every acquisition released;
   the publish path never touches asyncEventsNats.mu; callbacks and channel sends
   are made with the mutex released (the critical sections the model's ops are). *)
Theorem C20_lock_programs : c20_locks_check = true.
Proof. exact c20_locks_ok. Qed.

(* ---- non-vacuity ----------------------------------------------------------------------------- *)
Definition ex_tg : target := T KRoom "r1" (Some "b1").
Definition ex_t0 : st := run [Register ex_tg 1%N; RegFinish; Register ex_tg 2%N] init.
Definition ex_ops : list op :=
  [Publish ex_tg 100%N; Publish (T KUser "u" None) 5%N; Publish ex_tg 101%N; Dispatch; Send 0; Begin 0;
   Unregister ex_tg 1%N; Pick 0 2%N; Call 0; Pick 0 1%N; End_ 0;
   Register ex_tg 4%N; Dispatch; Dispatch; Send 0; Begin 0; Pick 0 4%N; Call 0; Pick 0 2%N; Call 0; End_ 0;
   Register (T KSession "s1" None) 2%N; RegFinish; Unregister (T KSession "s1" None) 2%N; Exit 1].

(* the hypotheses of C20_bus_fifo_exact / _drained_equal are met by a history
   with interleaved publications, an unregistration during the iteration, a
   registration, and a subscriber of another subject being created and closed *)
Example C20_fifo_nonvacuous :
  Good 0 2%N (subject_of ex_tg) KRoom ex_t0 /\
  forallb (keeps 2%N (subject_of ex_tg) KRoom) ex_ops = true /\
  no_overflow 0 ex_ops ex_t0 = true /\
  List.length (pending 0 2%N (subject_of ex_tg) ex_t0) + List.length (pubs_all (subject_of ex_tg) ex_ops) <= 64 /\
  pending 0 2%N (subject_of ex_tg) (run ex_ops ex_t0) = [] /\
  delivered 0 2%N (run ex_ops ex_t0) = [100%N; 101%N] /\
  delivered 0 1%N (run ex_ops ex_t0) = [] /\
  delivered 0 4%N (run ex_ops ex_t0) = [101%N].
Proof.
  split; [|vm_compute; repeat split; try reflexivity; repeat constructor].
  split.
  - split.
    + eexists. split; [vm_compute; reflexivity|]. split; [reflexivity|]. split.
      * cbn. repeat constructor; cbn; intuition discriminate.
      * cbn. intros; discriminate.
    + cbn. intros; discriminate.
  - eexists. split; [vm_compute; reflexivity|]. cbn. auto.
Qed.

(* the hypothesis of C20_nothing_after_unregister is met right after an unregistration *)
Example C20_after_nonvacuous :
  let t := run [Register ex_tg 1%N; RegFinish; Register ex_tg 2%N; Unregister ex_tg 2%N] init in
  NotReg 0 2%N KRoom (subject_of ex_tg) t.
Proof.
  cbn zeta. split; [vm_compute; discriminate|]. eexists. split; [vm_compute; reflexivity|]. cbn. auto.
Qed.

(* the side condition of C20_nothing_foreign_partial admits ids with separators *)
Example C20_wf_nonvacuous :
  forallb op_wf [Register (T KRoom "a|b" (Some "x")) 1%N; Publish (T KUser "u" None) 2%N;
                 Register (T KSession "s|1" (Some "p|q")) 1%N] = true.
Proof. reflexivity. Qed.

(* P_C20 accepts a history that exercises all four clauses and rejects each violation *)
Example C20_P_accepts :
  P_C20 (fun _ => 1%N) (index [HRegStart 1 0; HRegEnd 1 0 true; HPubStart 10 0 77; HPubEnd 10 true;
                              ERecv 1 1 10 77 false; HPubStart 11 0 78; HPubEnd 11 true; ERecv 1 1 11 78 false;
                              HUnregStart 1 0; HUnregEnd 1 0]) = true.
Proof. vm_compute. reflexivity. Qed.
Example C20_P_rejects :
  map (fun h => P_C20_clause (fun _ => 1%N) (index h))
    [ (* lost *)      [HRegStart 1 0; HRegEnd 1 0 true; HPubStart 10 0 77; HPubEnd 10 true; HUnregStart 1 0; HUnregEnd 1 0];
      (* twice *)     [HRegStart 1 0; HRegEnd 1 0 true; HPubStart 10 0 77; HPubEnd 10 true; ERecv 1 1 10 77 false; ERecv 1 1 10 77 false];
      (* reordered *) [HRegStart 1 0; HRegEnd 1 0 true; HPubStart 10 0 77; HPubEnd 10 true; HPubStart 11 0 78; HPubEnd 11 true;
                       ERecv 1 1 11 78 false; ERecv 1 1 10 77 false];
      (* foreign *)   [HRegStart 1 0; HRegEnd 1 0 true; HPubStart 10 5 77; HPubEnd 10 true; ERecv 1 1 10 77 false];
      (* too late *)  [HRegStart 1 0; HRegEnd 1 0 true; HUnregStart 1 0; HUnregEnd 1 0; HPubStart 10 0 77; HPubEnd 10 true;
                       ERecv 1 1 10 77 false];
      (* modified *)  [HRegStart 1 0; HRegEnd 1 0 true; HPubStart 10 0 77; HPubEnd 10 true; ERecv 1 1 10 76 false] ]
  = [1; 1; 2; 3; 3; 4]%N.
Proof. vm_compute. reflexivity. Qed.

(* Calls that change nothing -- Unregister for a listener that is not (or no longer)
   registered on the subject, Register for one that is -- are part of the histories P_C20
   judges: they open and close no registration interval, so a listener that stays
   registered must still receive everything (clause 1). *)
Example C20_P_unbalanced_calls :
  let pre := [HRegStart 1 0; HRegEnd 1 0 true; HRegStart 2 0; HRegEnd 2 0 true;
              HUnregStart 2 0; HUnregEnd 2 0; HUnregStart 2 0; HUnregEnd 2 0;      (* 2 leaves twice *)
              HUnregStart 3 0; HUnregEnd 3 0;                                      (* 3 never was there *)
              HRegStart 1 0; HRegEnd 1 0 true;                                     (* 1 registers again *)
              HPubStart 10 0 77; HPubEnd 10 true] in
  hist_wf (index pre) = true /\
  P_C20_clause (fun _ => 2%N) (index (pre ++ [ERecv 1 2 10 77 false])) = 0%N /\
  P_C20_clause (fun _ => 2%N) (index pre) = 1%N /\                                (* 1 was dropped with 2 *)
  P_C20_clause (fun _ => 2%N) (index (pre ++ [ERecv 1 2 10 77 false; ERecv 2 2 10 77 false])) = 3%N.
Proof. vm_compute. repeat split; reflexivity. Qed.

(* the model on that script: the second Unregister of listener 2 leaves the subscriber of
   the user subject open with listener 1, which is handed the message (an instance of what
   C20_bus_fifo_exact says for every op list that does not unregister listener 1) *)
Example C20_model_double_unregister :
  let tu := T KUser "u" (Some "b") in
  let t := run [Register tu 1%N; RegFinish; Register tu 2%N; Unregister tu 2%N; Unregister tu 2%N;
                Unregister tu 3%N; Publish tu 7%N; Dispatch; Send 0; Begin 0; Pick 0 1%N; Call 0; End_ 0] init in
  dlog t = [(0, 1%N, 7%N)] /\ map ls (subs t) = [[1%N]] /\ map opened (subs t) = [true].
Proof. vm_compute. repeat split; reflexivity. Qed.

(* The judge of the collision-pool cases (mode 3) on the history the seeded change C20-5 produces
   (user "mary jane" encodes to user.bWFyeSBqYW5l, the user literally named "bWFyeSBqYW5l" is mapped
   raw to the same subject; listener 1 of the latter gets message 10 published for the former):
   the table passes pool_ok, the subject strings differ from the model's (code 3 at entry 1), the
   model cannot follow the callback (code 1) and P_C20 fails at clause 3 on the implementation's
   own trace (code 2).  The same history with correct subject strings and no foreign callback is
   accepted; a table from the region of the known finding is refused as a pool table (code 5). *)
Example C20_judge_pool :
  judge (mkcase 7 3 [(T KUser "mary jane" None, "user.bWFyeSBqYW5l");
                     (T KUser "bWFyeSBqYW5l" None, "user.bWFyeSBqYW5l")]
                [EReg 1 1 true; EPub 0 10 77 true; ERecv 1 2 10 77 false]) = [(7, 3, 1); (7, 1, 2); (7, 2, 3)]%N
  /\ judge (mkcase 7 3 [(T KUser "mary jane" None, "user.bWFyeSBqYW5l");
                        (T KUser "bWFyeSBqYW5l" None, "user.YldGeWVTQnFZVzVs")]
                [EReg 1 1 true; EPub 0 10 77 true; EPub 1 11 78 true; ERecv 1 2 11 78 false]) = []
  /\ judge (mkcase 7 3 [(T KUser "u|x" None, "user.dXx4"); (T KUser "u" (Some "x"), "user.dXx4")]
                [EReg 0 1 true; EPub 0 10 77 true; ERecv 1 2 10 77 false]) = [(7, 5, 0)]%N.
Proof. vm_compute. repeat split; reflexivity. Qed.

(* Clause (e) and the replay on listener changes that fall into the dispatch of one message
   (room subject, listeners 0 and 1, resp. 1, 2, 3; all callbacks held).
   late-unreg: listener 0 is in its callback for message 1, listener 1 is unregistered, 0 is
     released.  Nothing more: accepted.  Listener 1 called for message 1 (seeded change C20-4:
     no membership check before the callback): the model cannot follow (code 1 at event 6) and
     P_C20 fails at clause 5 on the implementation's own trace.  The same callback when 0 had
     been released BEFORE the unregistration: the decided callback cannot be excluded, accepted.
   late-rereg: 3 is in its callback, 1 is unregistered, 3 released, 2 called and held, 1
     registered again, 2 released.  Whether 1 is then called depends on where the loop was:
     both logs are runs of the model (the replay keeps the entry in the first, drops it before
     [Pick 0 2] in the second); without the second registration the callback is refused. *)
Example C20_P_late :
  let tb : tgt_table := [(T KRoom "late" (Some "b1"), "")] in
  let k := fun _ : nat => 1%N in
  let verdict := fun evs => (replay tb 0 (mkR init [] []) evs, P_C20_safety_clause k (index (seq_history evs))) in
  let pre := [EReg 0 0 true; EReg 0 1 true; EPub 0 1 77 true; ERecv 0 1 1 77 true; EUnreg 0 1; ERelease 0]%N in
  let a := [EReg 0 1 true; EReg 0 2 true; EReg 0 3 true; EPub 0 6 77 true; ERecv 3 1 6 77 true; EUnreg 0 1;
            ERelease 3; ERecv 2 1 6 77 true; EReg 0 1 true; ERelease 2]%N in
  verdict pre = (None, 0%N) /\
  verdict (pre ++ [ERecv 1 1 1 77 false]) = (Some 6%N, 5%N) /\
  P_C20_safety_clause k (index (seq_history [EReg 0 0 true; EReg 0 1 true; EPub 0 1 77 true; ERecv 0 1 1 77 true;
                                             ERelease 0; EUnreg 0 1; ERecv 1 1 1 77 false]%N)) = 0%N /\
  verdict a = (None, 0%N) /\
  verdict (a ++ [ERecv 1 1 6 77 false]) = (None, 0%N) /\
  option_map (fun p => skipn 12 (fst p)) (replay_ops tb (mkR init [] []) (a ++ [ERecv 1 1 6 77 false]))
    = Some [Unregister (T KRoom "late" (Some "b1")) 1; Pick 0 2; Call 0;
            Register (T KRoom "late" (Some "b1")) 1; RegFinish; Pick 0 1; Call 0; End_ 0]%N /\
  option_map (fun p => skipn 12 (fst p)) (replay_ops tb (mkR init [] []) a)
    = Some [Unregister (T KRoom "late" (Some "b1")) 1; Pick 0 1; Pick 0 2; Call 0;
            Register (T KRoom "late" (Some "b1")) 1; RegFinish; End_ 0]%N /\
  verdict [EReg 0 1 true; EReg 0 2 true; EReg 0 3 true; EPub 0 6 77 true; ERecv 3 1 6 77 true; EUnreg 0 1;
           ERelease 3; ERecv 2 1 6 77 true; ERelease 2; ERecv 1 1 6 77 false]%N = (Some 9%N, 5%N).
Proof. vm_compute. repeat split; reflexivity. Qed.

Print Assumptions C20_bus_fifo_exact.
Print Assumptions C20_received_is_prefix.
Print Assumptions C20_drained_equal.
Print Assumptions C20_below_threshold.
Print Assumptions C20_in_order_at_most_once.
Print Assumptions C20_callback_provenance.
Print Assumptions C20_subject_kind_inj.
Print Assumptions C20_b64_inj.
Print Assumptions C20_subject_inj.
Print Assumptions C20_pool_side_condition.
Print Assumptions C20_pool_subjects_distinct.
Print Assumptions C20_nothing_foreign_partial.
Print Assumptions C20_nothing_foreign_refuted.
Print Assumptions C20_subject_collision.
Print Assumptions C20_subject_collision_compat.
Print Assumptions C20_nothing_after_unregister.
Print Assumptions C20_nothing_behind_a_running_callback.
Print Assumptions C20_replay_is_run.
Print Assumptions C20_published_before_unregister_refuted.
Print Assumptions C20_publish_never_blocks.
Print Assumptions C20_dispatcher_never_blocks.
Print Assumptions C20_slow_consumer_drops.
Print Assumptions C20_lock_programs.
