From Coq Require Import List ZArith String Bool.
From Verif Require Import proofs.RoomApi_proofs.
Theorem C11_stub : True. Proof. exact stub. Qed.
Print Assumptions C11_stub.
