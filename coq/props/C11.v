(* C11 — Authenticated room API requests of any shape are answered, never fatal.
   Only statements here; proofs are in proofs/RoomApi_proofs.v, proofs/RoomApi_nobody.v,
   proofs/RoomApi_elsewhere.v
   (+ Decode_proofs.v, Decode_depth.v).  The model (model/RoomApi.v, [step true]) is the code with
   fixes/C11/01 applied; [step false] is the code as found.

   Quantifiers: [b : body] is every request body (text that is not JSON, or any
   JSON tree); [st : state] is every server state the handlers look at (room
   exists or not, members, call state, properties, room-session table, dial-out
   client).  The request is correctly signed by construction (the model starts
   behind the checksum gate, which is C02's). *)
From Coq Require Import List ZArith NArith String Bool Lia.
From Verif Require Import gen.Params gen.Schema lib.Json lib.Decode model.RoomApi corr.Run_C11
  proofs.Decode_proofs proofs.Decode_depth proofs.RoomApi_proofs proofs.RoomApi_nobody proofs.RoomApi_elsewhere.
Import ListNotations.
Open Scope string_scope.

(* The request type the proofs are about is what the generated schema (gen/Schema.v,
   regenerated from api_backend.go on every run) resolves to. *)
Theorem C11_schema : ty_request = TStruct req_fields.
Proof. exact ty_request_eq. Qed.

(* (1) Answered, never fatal - full strength, no hypothesis: for every state and
   every body the handler replies (no handler panic, i.e. never "connection closed
   without a reply") and nothing panics anywhere: not in the hub main loop, not in
   the Room's event goroutine, not in a session's event goroutine. *)
Theorem C11_answered_never_fatal : forall st b,
  let o := snd (step true st b) in
  o_exit o = false /\ exists code, o_reply o = Status code.
Proof. exact answered_never_fatal. Qed.

(* ... and so for every history of requests *)
Theorem C11_history_never_fatal : forall bs st,
  Forall (fun o => o_exit o = false /\ exists code, o_reply o = Status code) (run true st bs).
Proof. exact run_never_fatal. Qed.

(* (2) The status is 2xx or 4xx.
   Full statement:  forall st b, exists code, o_reply (snd (step true st b)) = Status code /\ good_code code.
   It does not hold as such - see C11_room_api_total_refuted (known finding
   C11/nesting-limit-500) - and a *valid* dial-out request is answered with the
   gateway status (502/504) of a connected dial-out client that fails.  Proved:
   the statement for every body nested less deep than the limit of encoding/json
   (10000) and every state whose dial-out client, if any, ends in 2xx/4xx. *)
Theorem C11_room_api_total_partial : forall st b, dialout_ok st -> shallow b ->
  let o := snd (step true st b) in
  o_exit o = false /\ exists code, o_reply o = Status code /\ good_code code.
Proof. exact total_partial. Qed.

Theorem C11_history_total_partial : forall bs st, dialout_ok st -> Forall shallow bs ->
  Forall (fun o => o_exit o = false /\ exists code, o_reply o = Status code /\ good_code code) (run true st bs).
Proof. exact run_total_partial. Qed.

(* what is outside (2), exactly: any other status is the one caused by the dial-out
   client, or 500 for a body at the nesting limit *)
Theorem C11_other_status_cases : forall st b code,
  o_reply (snd (step true st b)) = Status code -> ~ good_code code ->
  st_dialout st = Some code \/ (code = 500%Z /\ ~ shallow b).
Proof. exact bad_code_cases. Qed.

Theorem C11_room_api_total_refuted : exists st b,
  dialout_ok st /\ malformed b = false /\ o_reply (snd (step true st b)) = Status 500.
Proof. exists (fixture false true), w_deep. pose proof nesting_500. tauto. Qed.

(* (3) A malformed request causes no event - full strength: it is answered with
   400, nothing at all is published or sent, the state is unchanged.  [malformed]
   is the definition of corr/Run_C11.v (written from the API documentation). *)
Theorem C11_malformed_silent : forall st b, malformed b = true ->
  step true st b = (st, {| o_reply := Status 400; o_exit := false; o_pubs := [] |}).
Proof. exact malformed_silent. Qed.

(* (3b) The same sentence for the requests the server does not refuse but that name
   nothing: "incall" with "all": true whose flags value is missing, null, a string, a
   list, an object, a number with a fractional part or an integer outside 64 bits
   ([names_no_state] of corr/Run_C11.v, from the API documentation).  Whatever the
   state - in particular with participants in the call - the request is answered,
   nothing panics, the state (call membership included) is unchanged and no session
   receives an event ([no_events st ps]: for every session id, events_for st sid ps = []).
   No hypothesis. *)
Theorem C11_no_state_request_silent : forall st b, names_no_state b = true ->
  fst (step true st b) = st /\
  o_exit (snd (step true st b)) = false /\
  (exists code, o_reply (snd (step true st b)) = Status code) /\
  no_events st (o_pubs (snd (step true st b))).
Proof. exact names_no_state_silent. Qed.

(* (3c) The same sentence for "incall" (all not true) and "participants" requests whose
   "users" / "changed" lists name nobody ([names_nobody known] of corr/Run_C11.v, from the API
   documentation): no entry with a string "sessionId" other than "0" that is the room session id
   of a session the server knows ([known_of st]: the ids of the state's room-session table) -
   entries without "sessionId", with one of another kind, "0", unknown ids, entries that are
   not objects, lists missing / null / empty.  Whatever the state - room existing or not,
   participants in the call or not - the request is answered (200, or 400 when the document does
   not decode), nothing panics, the state is unchanged and nothing at all is published: no
   event for anybody and the room's participant list stays what it was.  No hypothesis. *)
Theorem C11_names_nobody_request_silent : forall st b, names_nobody (known_of st) b = true ->
  exists c, (c = 200 \/ c = 400)%Z /\
            step true st b = (st, {| o_reply := Status c; o_exit := false; o_pubs := [] |}).
Proof. exact names_nobody_silent. Qed.

(* ... in the form the trace predicate P_C11 uses it: [run_known] are the room session ids of
   the two sessions of the harness fixture; requests never add ids ([after st bs]: the state after the history bs),
   and the class only grows when ids disappear.  So at every point of every history from either
   fixture state a request of the class [names_nobody run_known] is silent. *)
Theorem C11_names_nobody_history_silent : forall ex num bs b, names_nobody run_known b = true ->
  exists c, (c = 200 \/ c = 400)%Z /\
            step true (after (fixture ex num) bs) b =
              (after (fixture ex num) bs, {| o_reply := Status c; o_exit := false; o_pubs := [] |}).
Proof. exact names_nobody_fixture. Qed.

Theorem C11_names_nobody_monotone : forall k k' b, incl k' k -> names_nobody k b = true -> names_nobody k' b = true.
Proof. exact names_nobody_mono. Qed.

(* The code as found violates (1) and (2): the three confirmed defects. *)
Theorem C11_answered_refuted_unrepaired : exists st b, o_reply (snd (step false st b)) = NoReply.
Proof. exists wst, w_invite. exact unrepaired_no_reply. Qed.

Theorem C11_status_refuted_unrepaired : exists st b, shallow b /\ o_reply (snd (step false st b)) = Status 500.
Proof. exists wst, w_switchto. exact unrepaired_500. Qed.

Theorem C11_never_fatal_refuted_unrepaired : exists st b, o_exit (snd (step false st b)) = true.
Proof. exists wst, w_update. exact (proj1 unrepaired_exit). Qed.

(* the same three requests on the repaired code *)
Theorem C11_witnesses_repaired :
  o_reply (snd (step true wst w_invite)) = Status 400 /\
  o_reply (snd (step true wst w_switchto)) = Status 400 /\
  snd (step true wst w_update) = {| o_reply := Status 400; o_exit := false; o_pubs := [] |}.
Proof. exact repaired_witnesses. Qed.

(* Shape semantics used above, as general facts of lib/Decode.v: a member of the
   wrong kind fails the whole document; the re-encoded value is not nested deeper
   than the document. *)
Theorem C11_decode_wrong_kind_fails : forall fs cur ms gn jn ft v,
  In (gn, jn, ft) fs -> In v (nonnull_occurrences jn ms) ->
  (forall c', exists e, decode ft c' v = Err e) -> exists e, decode_fields fs cur ms = Err e.
Proof. exact decode_fields_err. Qed.

Theorem C11_decode_depth : forall t, flat t = true -> forall cur j v, decode t cur j = Ok v ->
  (gdepth v <= Nat.max (gdepth cur) (Nat.max (json_depth j) (tz t)))%nat.
Proof. exact decode_depth. Qed.

(* Non-vacuity. *)
Example C11_nonvacuous_wellformed :
  shallow ex_incall /\ dialout_ok wst /\ malformed ex_incall = false /\
  o_reply (snd (step true wst ex_incall)) = Status 200 /\
  events_for wst fixture_sid (o_pubs (snd (step true wst ex_incall))) = [KParticipants 1] /\
  st_incall (fst (step true wst ex_incall)) = [fixture_sid].
Proof. exact ex_incall_ok. Qed.

Example C11_nonvacuous_malformed : forallb malformed ex_malformed = true.
Proof. exact ex_malformed_ok. Qed.

(* six requests of the second class (flags a string, an object, a list, 1.5, null, missing):
   none is [malformed], all are answered 200 in a state with the fixture's session in the call *)
Example C11_nonvacuous_no_state :
  forallb names_no_state ex_no_state = true /\ forallb (fun b => negb (malformed b)) ex_no_state = true /\
  forallb (fun b => match o_reply (snd (step true (with_incall wst [fixture_sid]) b)) with Status 200 => true | _ => false end) ex_no_state = true.
Proof. exact ex_no_state_ok. Qed.

(* four requests of the third class (the one of the seeded change's report: entries without
   "sessionId", with a number, with "0"; a single empty entry; the same for "participants"; a
   permissions entry for "0"): in the class, not [malformed], answered 200 with the fixture's
   session in the call; the first one with one valid entry added is outside the class and the
   client receives the participants update *)
Example C11_nonvacuous_names_nobody :
  forallb (names_nobody run_known) ex_nobody = true /\ forallb (fun b => negb (malformed b)) ex_nobody = true /\
  forallb (fun b => match o_reply (snd (step true (with_incall wst [fixture_sid]) b)) with Status 200 => true | _ => false end) ex_nobody = true /\
  names_nobody run_known ex_somebody = false /\
  events_for wst fixture_sid (o_pubs (snd (step true wst ex_somebody))) = [KParticipants 1].
Proof. exact ex_nobody_ok. Qed.

(* Sessions ELSEWHERE.  A request for a room can name - by a room session id that resolves - a
   session that is in another room.  (3a) Only members of a room are ever recorded as being in
   its call: [call_in_room] (the call list is included in the member list) is kept by every
   request, repaired or not, hence holds at every point of every history from the fixture states. *)
Theorem C11_call_members_only : forall fixed st b, call_in_room st -> call_in_room (fst (step fixed st b)).
Proof. exact step_call. Qed.

Theorem C11_call_members_only_history : forall ex num bs, call_in_room (after (fixture ex num) bs).
Proof. intros ex num bs. apply after_call. apply fixture_call. Qed.

(* (3b) The consumer of an "incall" request (all not true) whose [changed] entries name only
   sessions that are not members of the room ([names_elsewhere]: whatever "sessionId" /
   "sessionid" says - a session of another room, of no room, nobody) leaves members and call
   state of the room as they are, whatever call state the entries claim. *)
Theorem C11_elsewhere_entries_change_no_call_state : forall st r ic,
  call_in_room st ->
  as_str (fld "Type" r) = "incall" -> deref (fld "InCall" r) = Some ic -> as_bool (fld "All" ic) = false ->
  (forall u, In u (as_list (fld "Changed" ic)) -> names_elsewhere st u) ->
  st_incall (c_state (consume st r)) = st_incall st /\
  st_members (c_state (consume st r)) = st_members st.
Proof. exact consume_elsewhere. Qed.

(* non-vacuity: the request of seeded change C11-5 (the entry names the session of the other room
   as "in call", room existing): in no silent class, answered 200, nothing exits, the member of
   the room gets the participants update, the session elsewhere nothing, nobody is in the call;
   the same entry for the member puts the member into the call *)
Example C11_nonvacuous_elsewhere :
  malformed ex_elsewhere = false /\ names_nobody run_known ex_elsewhere = false /\
  o_reply (snd (step true wst ex_elsewhere)) = Status 200 /\ o_exit (snd (step true wst ex_elsewhere)) = false /\
  events_for wst fixture_sid (o_pubs (snd (step true wst ex_elsewhere))) = [KParticipants 1] /\
  events_for wst fixture_sid2 (o_pubs (snd (step true wst ex_elsewhere))) = [] /\
  st_incall (fst (step true wst ex_elsewhere)) = [] /\
  st_incall (fst (step true wst ex_member)) = [fixture_sid].
Proof. exact ex_elsewhere_ok. Qed.

Print Assumptions C11_schema.
Print Assumptions C11_answered_never_fatal.
Print Assumptions C11_history_never_fatal.
Print Assumptions C11_room_api_total_partial.
Print Assumptions C11_history_total_partial.
Print Assumptions C11_other_status_cases.
Print Assumptions C11_room_api_total_refuted.
Print Assumptions C11_malformed_silent.
Print Assumptions C11_no_state_request_silent.
Print Assumptions C11_names_nobody_request_silent.
Print Assumptions C11_names_nobody_history_silent.
Print Assumptions C11_names_nobody_monotone.
Print Assumptions C11_answered_refuted_unrepaired.
Print Assumptions C11_status_refuted_unrepaired.
Print Assumptions C11_never_fatal_refuted_unrepaired.
Print Assumptions C11_witnesses_repaired.
Print Assumptions C11_decode_wrong_kind_fails.
Print Assumptions C11_decode_depth.
Print Assumptions C11_call_members_only.
Print Assumptions C11_call_members_only_history.
Print Assumptions C11_elsewhere_entries_change_no_call_state.
