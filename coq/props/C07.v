(* C07 — Closed sessions leave nothing behind and session limits are exact. *)
From Coq Require Import List NArith Bool Permutation.
From Verif Require Import model.Hub proofs.Hub_wf proofs.Hub_corollaries proofs.Hub_counted.
Import ListNotations.
Open Scope N_scope.

(* In every reachable state (any history, any delivery order of the bus) ... *)
Theorem C07_invariant_every_history : forall limits gated ops, WF (run (init limits gated) ops).
Proof. exact wf_reachable. Qed.
(* ... a session that is not in the session table any more is referenced by no table: no room member
   list or in-call set, no room-session entry, no virtual-session entry, no waiting list, no per-backend
   count, no connection, and no virtual session names it as parent; *)
Theorem C07_no_residue : forall h sid, WF h -> get_sess h sid = None -> unreferenced h sid.
Proof. exact no_residue. Qed.
(* ending a session (bye, expiry, kick, failed registration, closed connection) removes it with all its
   virtual sessions and keeps the invariant; rooms it emptied are gone (C04_no_empty_room). *)
Theorem C07_close_session_ends : forall h sid, WF h ->
  let h' := fst (close_session h sid) in
  get_sess h' sid = None /\ WF h' /\ unreferenced h' sid.
Proof. exact close_session_ends. Qed.
Theorem C07_no_empty_room : forall h k r, WF h -> room_of h k = Some r -> r.(r_members) <> [].
Proof. exact no_empty_room. Qed.
(* The sessions counted against a backend's limit are live (capacity freed by ended sessions is
   available again) and never more than the limit, in every reachable state. *)
Theorem C07_limit_never_exceeded : forall h b l, WF h -> aget h.(h_counted) b = Some l ->
  N.of_nat (length l) <= limit_of h b /\ forall sid, In sid l -> live h sid.
Proof. exact limit_never_exceeded. Qed.
(* Conversely, in every reachable state (any history, any delivery order of the bus) every registered
   non-internal session of a limited backend is on that backend's list: the bound is a bound on the
   sessions, not only on the list.  CI (proofs/Hub_counted.v) also says that every entry of the list is a
   live non-internal session of that backend and that neither the session table nor the lists have
   duplicates. *)
Theorem C07_counted_every_history : forall limits gated ops,
  forall sid s, let h := run (init limits gated) ops in
  get_sess h sid = Some s -> s.(s_kind) = KClient -> limit_of h s.(s_backend) <> 0 ->
  In sid (counted_of h s.(s_backend)).
Proof. exact counted_reachable. Qed.
Theorem C07_counted_every_history_q : forall limits gated ops,
  forall sid s, let h := qrun (init limits gated) ops in
  get_sess h sid = Some s -> s.(s_kind) = KClient -> limit_of h s.(s_backend) <> 0 ->
  In sid (counted_of h s.(s_backend)).
Proof. exact counted_reachable_q. Qed.
Theorem C07_counted_invariant_every_history : forall limits gated ops,
  CI (run (init limits gated) ops) /\ CI (qrun (init limits gated) ops).
Proof. exact ci_every_history. Qed.
(* The number of concurrently registered non-internal sessions of a limited backend never exceeds the
   limit: any duplicate-free list of such sessions is no longer than the limit ... *)
Theorem C07_registered_never_exceed_limit : forall h b l,
  WF h -> Counted h -> limit_of h b <> 0 -> NoDup l ->
  (forall sid, In sid l -> exists s, get_sess h sid = Some s /\ s.(s_kind) = KClient /\ s.(s_backend) = b) ->
  N.of_nat (length l) <= limit_of h b.
Proof. exact registered_never_exceed_limit. Qed.
(* ... in particular the list of all of them, read off the session table, after every history. *)
Theorem C07_registered_never_exceed_limit_every_history : forall limits gated ops b,
  let h := run (init limits gated) ops in
  limit_of h b <> 0 ->
  N.of_nat (length (map fst (filter (fun e => match (snd e).(s_kind) with
                                              | KClient => N.eqb (snd e).(s_backend) b
                                              | _ => false end) h.(h_sessions)))) <= limit_of h b.
Proof. exact registered_clients_never_exceed_limit_reachable. Qed.
Theorem C07_registered_never_exceed_limit_every_history_q : forall limits gated ops b,
  let h := qrun (init limits gated) ops in
  limit_of h b <> 0 ->
  N.of_nat (length (map fst (filter (fun e => match (snd e).(s_kind) with
                                              | KClient => N.eqb (snd e).(s_backend) b
                                              | _ => false end) h.(h_sessions)))) <= limit_of h b.
Proof. exact registered_clients_never_exceed_limit_reachable_q. Qed.
(* The limit is exact: the list the limit is checked against is a permutation of the registered
   non-internal sessions of the backend, so a registration is refused exactly when their number equals
   the limit (limit_history in proofs/Hub_counted.v: two register, the third is refused, after a bye the
   third registers).  Racing registrations are atomic steps of the model (Backend.AddSession holds a
   lock); on the implementation P_C07 (limits_ok_from: counted flag of every client session) checks the
   same on every state.  Bus subscriptions are not part of the model's state (the bus is the harness's):
   registrations_exact checks them on the implementation. *)
Theorem C07_limit_exact : forall h b, CI h -> limit_of h b <> 0 -> Permutation (clients_of h b) (counted_of h b).
Proof. exact counted_exact. Qed.
Theorem C07_refused_iff_full : forall h c cn b u,
  WF h -> CI h -> limit_of h b <> 0 ->
  (snd (register h c cn b KClient u) = [ToConn c (SError E_session_limit)]
   <-> N.of_nat (length (clients_of h b)) = limit_of h b).
Proof. exact register_refused_iff_full. Qed.

Print Assumptions C07_invariant_every_history.
Print Assumptions C07_no_residue.
Print Assumptions C07_close_session_ends.
Print Assumptions C07_no_empty_room.
Print Assumptions C07_limit_never_exceeded.
Print Assumptions C07_counted_every_history.
Print Assumptions C07_counted_every_history_q.
Print Assumptions C07_counted_invariant_every_history.
Print Assumptions C07_registered_never_exceed_limit.
Print Assumptions C07_registered_never_exceed_limit_every_history.
Print Assumptions C07_registered_never_exceed_limit_every_history_q.
Print Assumptions C07_limit_exact.
Print Assumptions C07_refused_iff_full.

(* ---- the clients table and the expiry list say what the sessions say, for every history (proofs/Hub_attach.v) ----
   The model-side statement of the clauses expiring_unattached / clients_attached of digest_C07, in every state
   reachable from the initial state (any limits, gated or not, any history of operations, step-by-step - every
   delivery order and every interleaving of completions - or quiescent). *)
From Verif Require proofs.Hub_own proofs.Hub_attach corr.Hub_preds.

(* The clients table names only live sessions that have a connection; that connection exists and is attached to
   exactly that session ... *)
Theorem C07_clients_table_exact : forall limits gated ops h sid,
  h = run (init limits gated) ops \/ h = qrun (init limits gated) ops ->
  In sid h.(h_clients) ->
  exists s c cn, get_sess h sid = Some s /\ s.(s_conn) = Some c /\ aget h.(h_conns) c = Some cn /\ cn.(c_sess) = Some sid.
Proof. intros limits gated ops h sid R. exact (Hub_attach.clients_table_exact h sid (Hub_own.reachable_intro limits gated ops h R)). Qed.
(* ... and it names every such session: a session is in the clients table exactly when it has a connection. *)
Theorem C07_clients_table_iff : forall limits gated ops h sid,
  h = run (init limits gated) ops \/ h = qrun (init limits gated) ops ->
  (In sid h.(h_clients) <-> exists s c, get_sess h sid = Some s /\ s.(s_conn) = Some c).
Proof. intros limits gated ops h sid R. exact (Hub_attach.clients_table_iff h sid (Hub_own.reachable_intro limits gated ops h R)). Qed.
(* Only sessions without a connection wait for expiry. *)
Theorem C07_expiring_has_no_connection : forall limits gated ops h sid,
  h = run (init limits gated) ops \/ h = qrun (init limits gated) ops ->
  In sid h.(h_expired) -> exists s, get_sess h sid = Some s /\ s.(s_conn) = None.
Proof. intros limits gated ops h sid R. exact (Hub_attach.expiring_unattached_state h sid (Hub_own.reachable_intro limits gated ops h R)). Qed.
(* A connection that is attached to a session: the session is live, not virtual, writes to this connection, and the
   connection does not wait for a hello. *)
Theorem C07_connection_session_agree : forall limits gated ops h c cn sid,
  h = run (init limits gated) ops \/ h = qrun (init limits gated) ops ->
  aget h.(h_conns) c = Some cn -> cn.(c_sess) = Some sid ->
  exists s, get_sess h sid = Some s /\ s.(s_conn) = Some c /\ is_virtual s.(s_kind) = false /\ cn.(c_expect) = false.
Proof. intros limits gated ops h c cn sid R. exact (Hub_attach.connection_session_agree h c cn sid (Hub_own.reachable_intro limits gated ops h R)). Qed.
(* The bridge: on the digest of every reachable model state the two clauses of digest_C07 are true. *)
Theorem C07_attachment_clauses_on_model_digest : forall limits gated ops h,
  h = run (init limits gated) ops \/ h = qrun (init limits gated) ops ->
  Hub_preds.expiring_unattached (Run_Hub.digest_of h) = true /\ Hub_preds.clients_attached (Run_Hub.digest_of h) = true.
Proof.
  intros limits gated ops h R. pose proof (Hub_own.reachable_intro limits gated ops h R) as R'.
  split; [exact (Hub_attach.expiring_unattached_digest h R')|exact (Hub_attach.clients_attached_digest h R')].
Qed.
(* Not vacuous: a computed history with a cut, a tick, a resume, a tick (clients table, expiry list, anonymous list,
   connections with their session and hello flag, sessions with their connection and room). *)
Example C07_example_attachment :
  Hub_attach.at_view (run (init [0; 0] false) Hub_attach.at_ops) =
    ([1], [2], [], [(1, Some 1, false)], [(1, Some 1, Some (0, 1)); (2, None, Some (0, 1))]) /\
  Hub_attach.at_view (run (init [0; 0] false) (Hub_attach.at_ops ++ Hub_attach.at_resume ++ [OTick 40])) =
    ([1; 2], [], [], [(1, Some 1, false); (3, Some 2, false)], [(1, Some 1, Some (0, 1)); (2, Some 3, Some (0, 1))]) /\
  Hub_attach.at_view (run (init [0; 0] false) (Hub_attach.at_ops ++ [OTick 40])) =
    ([1], [], [], [(1, Some 1, false)], [(1, Some 1, Some (0, 1))]).
Proof.
  destruct Hub_attach.at_example as (E1 & _ & E3 & E4 & E5 & _). split; [exact E1|]. split; [|exact E5].
  rewrite E4. exact E3.
Qed.
Print Assumptions C07_clients_table_exact.
Print Assumptions C07_clients_table_iff.
Print Assumptions C07_expiring_has_no_connection.
Print Assumptions C07_connection_session_agree.
Print Assumptions C07_attachment_clauses_on_model_digest.
Print Assumptions C07_example_attachment.
