(* C07 — Closed sessions leave nothing behind and session limits are exact. *)
From Coq Require Import List NArith Bool.
From Verif Require Import model.Hub proofs.Hub_wf proofs.Hub_corollaries.
Import ListNotations.
Open Scope N_scope.

(* In every reachable state (any history, any delivery order of the bus) ... *)
Theorem C07_invariant_every_history : forall limits gated ops, WF (run (init limits gated) ops).
Proof. exact wf_reachable. Qed.
(* ... a session that is not in the session table any more is referenced by no table: no room member
   list or in-call set, no room-session entry, no virtual-session entry, no waiting list, no per-backend
   count, no connection, and no virtual session names it as parent; *)
Theorem C07_no_residue : forall h sid, WF h -> get_sess h sid = None -> unreferenced h sid.
Proof. exact no_residue. Qed.
(* ending a session (bye, expiry, kick, failed registration, closed connection) removes it with all its
   virtual sessions and keeps the invariant; rooms it emptied are gone (C04_no_empty_room). *)
Theorem C07_close_session_ends : forall h sid, WF h ->
  let h' := fst (close_session h sid) in
  get_sess h' sid = None /\ WF h' /\ unreferenced h' sid.
Proof. exact close_session_ends. Qed.
Theorem C07_no_empty_room : forall h k r, WF h -> room_of h k = Some r -> r.(r_members) <> [].
Proof. exact no_empty_room. Qed.
(* The sessions counted against a backend's limit are live (capacity freed by ended sessions is
   available again) and never more than the limit, in every reachable state. *)
Theorem C07_limit_never_exceeded : forall h b l, WF h -> aget h.(h_counted) b = Some l ->
  N.of_nat (length l) <= limit_of h b /\ forall sid, In sid l -> live h sid.
Proof. exact limit_never_exceeded. Qed.
(* C07_limit_exact_partial: that every registered non-internal session of a limited backend is on that
   list (so the bound is a bound on the sessions, not only on the list) is checked on every implementation
   state by P_C07 (limits_ok_from: counted flag of every client session) and by the comparison with the
   model; racing registrations are atomic steps of the model (Backend.AddSession holds a lock).  Bus
   subscriptions are not part of the model's state (the bus is the harness's): registrations_exact checks
   them on the implementation. *)

Print Assumptions C07_invariant_every_history.
Print Assumptions C07_no_residue.
Print Assumptions C07_close_session_ends.
Print Assumptions C07_no_empty_room.
Print Assumptions C07_limit_never_exceeded.
