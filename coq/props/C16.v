(* C16 — Forwarding headers are trusted only from trusted proxies.
   Only statements here; proofs are in proofs/RealIP_proofs.v.

   Every theorem below is universally quantified over the library functions
   that are not modelled, parse_ip (net.ParseIP), split_host_port
   (net.SplitHostPort) and - where configuration strings are read - parse_cidr
   (net.ParseCIDR): they hold whatever these functions answer.  Where a
   hypothesis on them is needed it is `oracle_sane`: the empty string is not
   an address and does not split. *)
From Coq Require Import List NArith Bool String Ascii.
From Verif Require Import gen.Params model.RealIP corr.Run_C16 proofs.RealIP_proofs.
Import ListNotations.
Open Scope string_scope.

(* The socket peer is not a configured trusted proxy (or is not an address, or
   no proxies are configured): the result is the peer's host, for ALL header
   lines of any number, order and content. *)
Theorem C16_untrusted_peer_ignores_headers :
  forall parse_ip split_host_port trusted peer xr xff,
    untrusted_peer parse_ip split_host_port trusted peer ->
    real_ip parse_ip split_host_port trusted peer xr xff = strip_port split_host_port peer.
Proof. exact untrusted_peer_ignores_headers. Qed.

(* Consequently a client that connects directly can never change its apparent
   address ... *)
Theorem C16_direct_client_cannot_spoof :
  forall parse_ip split_host_port trusted peer xr xff xr' xff',
    untrusted_peer parse_ip split_host_port trusted peer ->
    real_ip parse_ip split_host_port trusted peer xr xff =
    real_ip parse_ip split_host_port trusted peer xr' xff'.
Proof. exact direct_client_cannot_spoof. Qed.

(* ... nor what any of the gated endpoints (0 stats, 1 serverinfo, 2 metrics,
   3/4 the proxy's stats and metrics) answers to it. *)
Theorem C16_direct_client_same_gate :
  forall parse_ip split_host_port e trusted allow peer xr xff xr' xff',
    untrusted_peer parse_ip split_host_port (Some trusted) peer ->
    endpoint_status parse_ip split_host_port e trusted allow peer xr xff =
    endpoint_status parse_ip split_host_port e trusted allow peer xr' xff'.
Proof. exact direct_client_same_gate. Qed.

(* The model computes exactly the address the property describes
   (Run_C16.spec_addr, written from the property text with filter / last
   instead of the code's reverse loop with an accumulator). *)
Theorem C16_trusted_peer_spec :
  forall parse_ip split_host_port, oracle_sane parse_ip split_host_port ->
  forall trusted peer xr xff,
    real_ip parse_ip split_host_port trusted peer xr xff =
    spec_addr parse_ip split_host_port trusted peer xr xff.
Proof. exact real_ip_spec. Qed.

(* The same, read relationally for a peer that is a trusted proxy: first
   X-Real-IP line if it is an address; else the right-most X-Forwarded-For hop
   that is an address and not a trusted proxy; else (all hops proxies) the
   left-most address; else the peer. *)
Theorem C16_trusted_peer_cases :
  forall parse_ip split_host_port, oracle_sane parse_ip split_host_port ->
  forall l peer a xr xff,
  parse_ip (strip_port split_host_port peer) = Some a -> allowed l a = true ->
  let r := real_ip parse_ip split_host_port (Some l) peer xr xff in
  let hs := hops split_host_port xff in
  (exists v vs, xr = v :: vs /\ is_addr parse_ip v = true /\ r = v) \/
  (no_usable_real_ip parse_ip xr /\ exists pre post, hs = (pre ++ r :: post)%list /\
     is_addr parse_ip r = true /\ is_proxy parse_ip (Some l) r = false /\
     forall h, In h post -> not_untrusted parse_ip l h) \/
  (no_usable_real_ip parse_ip xr /\ (forall h, In h hs -> not_untrusted parse_ip l h) /\
     exists pre post, hs = (pre ++ r :: post)%list /\ is_addr parse_ip r = true /\
                      forall h, In h pre -> is_addr parse_ip h = false) \/
  (no_usable_real_ip parse_ip xr /\ (forall h, In h hs -> is_addr parse_ip h = false) /\
     r = strip_port split_host_port peer).
Proof. exact trusted_peer_cases. Qed.

(* Provenance, no hypothesis: the returned text is the peer's host, or the
   request came from a trusted proxy and the text is an address that is the
   first X-Real-IP line or a (trimmed, port-stripped) hop of X-Forwarded-For. *)
Theorem C16_result_provenance :
  forall parse_ip split_host_port trusted peer xr xff,
  let r := real_ip parse_ip split_host_port trusted peer xr xff in
  r = strip_port split_host_port peer \/
  (exists l a, trusted = Some l /\ parse_ip (strip_port split_host_port peer) = Some a /\
     allowed l a = true /\ is_addr parse_ip r = true /\
     ((exists vs, xr = r :: vs) \/
      (exists raw, In raw (split_comma (join_comma xff)) /\
                   r = strip_port split_host_port (trim raw)))).
Proof. exact result_provenance. Qed.

(* ... and that hop literally occurs in one of the header lines. *)
Theorem C16_result_literal :
  forall parse_ip split_host_port trusted peer xr xff,
  let r := real_ip parse_ip split_host_port trusted peer xr xff in
  r = strip_port split_host_port peer \/ In r xr \/
  (exists v pre t post, In v xff /\ v = pre ++ t ++ post /\ r = strip_port split_host_port t) \/
  (xff = [] /\ r = strip_port split_host_port "").
Proof. exact result_literal. Qed.

(* When the peer is an address, so is the result (it can be used as a key). *)
Theorem C16_result_is_address :
  forall parse_ip split_host_port trusted peer xr xff a,
  parse_ip (strip_port split_host_port peer) = Some a ->
  is_addr parse_ip (real_ip parse_ip split_host_port trusted peer xr xff) = true.
Proof. exact result_is_address. Qed.

(* The gated endpoints answer 200 iff the client address is an address on the
   allow-list (top `len` bits equal to a configured network), 403 otherwise. *)
Theorem C16_stats_gate_iff :
  forall parse_ip split_host_port e trusted allow peer xr xff,
  (endpoint_status parse_ip split_host_port e trusted allow peer xr xff = 200%N <->
   exists a n, parse_ip (real_ip parse_ip split_host_port (Some trusted) peer xr xff) = Some a /\
               In n allow /\ in_net n a = true) /\
  (endpoint_status parse_ip split_host_port e trusted allow peer xr xff = 200%N \/
   endpoint_status parse_ip split_host_port e trusted allow peer xr xff = 403%N).
Proof. exact stats_gate_iff. Qed.

(* For a direct client the gate depends on the socket peer alone. *)
Theorem C16_stats_gate_direct :
  forall parse_ip split_host_port e trusted allow peer xr xff,
  untrusted_peer parse_ip split_host_port (Some trusted) peer ->
  (endpoint_status parse_ip split_host_port e trusted allow peer xr xff = 200%N <->
   exists a, parse_ip (strip_port split_host_port peer) = Some a /\ on_list allow a = true).
Proof. exact stats_gate_direct. Qed.

(* The whole property as the trace predicate, for every list of requests. *)
Theorem C16_model_satisfies_P :
  forall parse_ip split_host_port parse_cidr, oracle_sane parse_ip split_host_port ->
  forall ops, P_C16 parse_ip split_host_port parse_cidr (trace_of parse_ip split_host_port parse_cidr ops) = true.
Proof. exact model_satisfies_P. Qed.

(* ---- configuration strings (app.trustedproxies, stats.allowed_ips) ------------
   The model's ParseAllowedIps / parseIPNet is the reading "comma separated
   addresses and subnets, blanks and empty entries ignored, anything else
   refused" of corr/Run_C16.v. *)
Theorem C16_config_reading : forall parse_ip parse_cidr cfg,
  parse_allowed parse_ip parse_cidr cfg = spec_nets parse_ip parse_cidr cfg.
Proof. exact parse_allowed_spec. Qed.

(* An entry without a prefix length matches exactly that address: membership in
   the parsed list is "equal to an address entry or inside a subnet entry". *)
Theorem C16_bare_entry_exact : forall b a, wf_ip b -> wf_ip a ->
  (contains (full_net b) a = true <-> a = b).
Proof. exact bare_entry_exact. Qed.
Theorem C16_configured_iff : forall parse_ip parse_cidr,
  (forall s b, parse_ip s = Some b -> wf_ip b) ->
  forall cfg l a, wf_ip a -> parse_allowed parse_ip parse_cidr cfg = Some l ->
  allowed l a = configured parse_ip parse_cidr cfg a.
Proof.
  intros pi pc Hwf cfg l a Ha H. rewrite allowed_on_list. rewrite parse_allowed_spec in H.
  exact (on_list_entries pi pc Hwf cfg l a Ha H).
Qed.

(* A direct client of a hub whose trusted proxies are configured by the text
   cfg (empty: the default list) keeps its socket address whatever it sends. *)
Theorem C16_config_direct_client : forall parse_ip split_host_port parse_cidr cfg t peer xr xff,
  hub_trusted parse_ip parse_cidr cfg = Some t ->
  untrusted_peer parse_ip split_host_port (Some t) peer ->
  step parse_ip split_host_port parse_cidr (OCfgHub cfg peer xr xff) = VAddr (strip_port split_host_port peer).
Proof. exact cfg_direct_client. Qed.

(* What a mask of the wrong length does (an IPv6 entry given the /32 of an IPv4
   address): every address that shares its first 32 bits is on the list. *)
Theorem C16_short_mask_refuted : forall b a, wf_ip (V6 b) -> wf_ip (V6 a) ->
  N.shiftr b 96 = N.shiftr a 96 -> contains (V6 b, 32%N) (V6 a) = true.
Proof. exact short_mask_matches_neighbours. Qed.

(* ---- configuration histories (start, then reloads) ----------------------------
   Hub.Reload / BackendServer.Reload / ProxyServer.Reload read the options again.  The
   configuration in effect (Run_C16.in_effect) is the last valid one loaded; an option that
   is absent from a file is an empty one. *)

(* the model's fold over the reloads computes the list of the configuration in effect *)
Theorem C16_history_in_effect : forall parse_ip parse_cidr d st rl,
  history_list parse_ip parse_cidr d st rl =
  match in_effect parse_ip parse_cidr st rl with
  | Some cfg => match spec_nets parse_ip parse_cidr cfg with
                | Some l => Some (or_default d l) | None => None end
  | None => None
  end.
Proof. exact history_list_spec. Qed.

(* after any sequence of reloads the server answers every request exactly as a server
   freshly started with the configuration in effect *)
Theorem C16_reload_as_fresh_hub : forall parse_ip split_host_port parse_cidr st rl cfg peer xr xff,
  in_effect parse_ip parse_cidr st rl = Some cfg ->
  step parse_ip split_host_port parse_cidr (OHistHub st rl peer xr xff) =
  step parse_ip split_host_port parse_cidr (OCfgHub cfg peer xr xff).
Proof. exact hist_hub_as_fresh. Qed.
Theorem C16_reload_as_fresh_stats : forall parse_ip split_host_port parse_cidr e st rl tcfg acfg peer xr xff,
  in_effect parse_ip parse_cidr (fst st) (map fst rl) = Some tcfg ->
  in_effect parse_ip parse_cidr (snd st) (map snd rl) = Some acfg ->
  step parse_ip split_host_port parse_cidr (OHistStats e st rl peer xr xff) =
  step parse_ip split_host_port parse_cidr (OCfgStats e tcfg acfg peer xr xff).
Proof. exact hist_stats_as_fresh. Qed.

(* what is in effect after the last reload: nothing if the option was removed from the
   file (the default list applies again, whatever was configured before); the new text if
   it is valid; what was in effect before if the new text is refused *)
Theorem C16_reload_removed_option : forall parse_ip parse_cidr st rl,
  config_valid parse_ip parse_cidr (cfg_text st) = true ->
  in_effect parse_ip parse_cidr st (rl ++ [None]) = Some "".
Proof. exact in_effect_removed. Qed.
Theorem C16_reload_valid_replaces : forall parse_ip parse_cidr st rl o,
  config_valid parse_ip parse_cidr (cfg_text st) = true ->
  config_valid parse_ip parse_cidr (cfg_text o) = true ->
  in_effect parse_ip parse_cidr st (rl ++ [o]) = Some (cfg_text o).
Proof. exact in_effect_replaced. Qed.
Theorem C16_reload_refused_keeps : forall parse_ip parse_cidr st rl o,
  config_valid parse_ip parse_cidr (cfg_text o) = false ->
  in_effect parse_ip parse_cidr st (rl ++ [o]) = in_effect parse_ip parse_cidr st rl.
Proof. exact in_effect_refused. Qed.

(* consequently: after the allow-list option has been removed, the gate is that of the
   default list (127.0.0.1 only), for every earlier history *)
Theorem C16_reload_removed_allow_list_is_default :
  forall parse_ip split_host_port parse_cidr e st rl tcfg last_t peer xr xff,
  config_valid parse_ip parse_cidr (cfg_text (snd st)) = true ->
  in_effect parse_ip parse_cidr (fst st) (map fst (rl ++ [(last_t, None)])) = Some tcfg ->
  step parse_ip split_host_port parse_cidr (OHistStats e st (rl ++ [(last_t, None)]) peer xr xff) =
  step parse_ip split_host_port parse_cidr (OCfgStats e tcfg "" peer xr xff).
Proof.
  intros pi sh pc e st rl tcfg last_t peer xr xff Hs Ht.
  apply hist_stats_as_fresh; [exact Ht|].
  rewrite map_app. cbn [map snd]. apply in_effect_removed. exact Hs.
Qed.

(* CIDR arithmetic: the mask test of net.IPNet.Contains is equality of the top
   `len` bits — as quotient/remainder, as shifts, bit by bit. *)
Theorem C16_contains_top_bits : forall n a, contains n a = in_net n a.
Proof. exact contains_in_net. Qed.
Theorem C16_contains_prefix : forall b len a,
  (len <= width b)%N -> wf_ip b -> wf_ip a ->
  (contains (b, len) a = true <->
   same_family b a /\ N.shiftr (num b) (width b - len) = N.shiftr (num a) (width b - len)).
Proof. exact contains_shiftr. Qed.
Theorem C16_contains_bits : forall b len a, (len <= width b)%N ->
  (contains (b, len) a = true <->
   same_family b a /\
   forall i, (width b - len <= i < width b)%N -> N.testbit (num b) i = N.testbit (num a) i).
Proof. exact contains_bits. Qed.
Theorem C16_allowed_on_list : forall nets a, allowed nets a = on_list nets a.
Proof. exact allowed_on_list. Qed.

(* The default trusted proxies, from the list in the current source: loopback
   and the private IPv4 ranges, no IPv6 address. *)
Theorem C16_default_trusted :
  c16_privateIpNets = ["127.0.0.0/8"; "10.0.0.0/8"; "172.16.0.0/12"; "192.168.0.0/16"] /\
  default_trusted = [(V4 2130706432, 8%N); (V4 167772160, 8%N); (V4 2886729728, 12%N); (V4 3232235520, 16%N)].
Proof. split; [reflexivity|exact default_trusted_val]. Qed.
Theorem C16_default_trusted_v4 : forall n, (n < 2 ^ 32)%N ->
  allowed default_trusted (V4 n) =
  ((n / 2 ^ 24 =? 127) || (n / 2 ^ 24 =? 10) || (n / 2 ^ 20 =? 2753) || (n / 2 ^ 16 =? 49320))%N.
Proof. exact default_trusted_v4. Qed.
Theorem C16_default_trusted_v6 : forall n, allowed default_trusted (V6 n) = false.
Proof. exact default_trusted_v6. Qed.

(* ---- non-vacuity ------------------------------------------------------------- *)
Definition ex_parse : string -> option ip :=
  lookup [("8.8.8.8", V4 134744072); ("10.0.0.5", V4 167772165); ("6.6.6.6", V4 101058054);
          ("127.0.0.1", V4 2130706433); ("192.168.1.50", V4 3232235826)].
Definition ex_split : string -> option string :=
  lookup [("8.8.8.8:4711", "8.8.8.8"); ("10.0.0.5:80", "10.0.0.5"); ("127.0.0.1:9", "127.0.0.1")].

Definition ex_cidr : string -> option net := lookup [("192.168.0.0/16", (V4 3232235520, 16%N))].

Example C16_ex_oracle_sane : oracle_sane ex_parse ex_split.
Proof. split; reflexivity. Qed.

(* a direct client from a public address with the default configuration meets
   the hypothesis, and its forged headers change nothing *)
Example C16_ex_direct :
  untrusted_peer ex_parse ex_split (Some default_trusted) "8.8.8.8:4711" /\
  real_ip ex_parse ex_split (Some default_trusted) "8.8.8.8:4711" ["127.0.0.1"] ["127.0.0.1"; "10.0.0.5"] = "8.8.8.8" /\
  endpoint_status ex_parse ex_split 0 default_trusted default_stats_allowed
                  "8.8.8.8:4711" ["127.0.0.1"] ["127.0.0.1"] = 403%N /\
  endpoint_status ex_parse ex_split 0 default_trusted default_stats_allowed "127.0.0.1:9" [] [] = 200%N.
Proof.
  split; [|vm_compute; repeat split; reflexivity].
  intros a Ha. vm_compute in Ha. injection Ha as <-. vm_compute. reflexivity.
Qed.

(* a request through a trusted proxy: right-most untrusted hop; all hops
   proxies: the left-most; X-Real-IP first *)
Example C16_ex_trusted :
  real_ip ex_parse ex_split (Some default_trusted) "10.0.0.5:80" [] ["6.6.6.6, 8.8.8.8"; " 10.0.0.5:80 ,unknown"] = "8.8.8.8" /\
  real_ip ex_parse ex_split (Some default_trusted) "10.0.0.5:80" ["garbage"; "6.6.6.6"] ["127.0.0.1, 192.168.1.50"] = "127.0.0.1" /\
  real_ip ex_parse ex_split (Some default_trusted) "10.0.0.5:80" ["6.6.6.6"] ["8.8.8.8"] = "6.6.6.6" /\
  real_ip ex_parse ex_split (Some default_trusted) "10.0.0.5:80" [] ["unknown"] = "10.0.0.5" /\
  P_C16 ex_parse ex_split ex_cidr (trace_of ex_parse ex_split ex_cidr
     [ORealIP (Some default_trusted) "10.0.0.5:80" [] ["6.6.6.6, 8.8.8.8"];
      OStats 2 default_trusted default_stats_allowed "10.0.0.5:80" [] ["127.0.0.1"]]) = true.
Proof. vm_compute. repeat split; reflexivity. Qed.

(* the predicate is not trivially true: a server that believed the header of a
   direct client would violate it *)
Example C16_ex_P_rejects :
  P_C16 ex_parse ex_split ex_cidr
    [(ORealIP (Some default_trusted) "8.8.8.8:4711" ["127.0.0.1"] [], VAddr "127.0.0.1")] = false /\
  P_C16 ex_parse ex_split ex_cidr
    [(OStats 0 default_trusted default_stats_allowed "8.8.8.8:4711" [] ["127.0.0.1"], VStatus 200)] = false.
Proof. vm_compute. split; reflexivity. Qed.

(* configuration strings: a single IPv6 address trusts that address only; the
   predicate rejects a server that trusts its neighbour in the same /32, and a
   server that lets the neighbour through the gate *)
Definition ex_parse6 : string -> option ip :=
  lookup [("2001:db8::1", V6 42540766411282592856903984951653826561);
          ("2001:db8:1234::5", V6 42540766416916187176308156905784606725);
          ("127.0.0.1", V4 2130706433)].
Definition ex_split6 : string -> option string :=
  lookup [("[2001:db8::1]:443", "2001:db8::1"); ("[2001:db8:1234::5]:443", "2001:db8:1234::5")].
Example C16_ex_config :
  parse_allowed ex_parse6 ex_cidr " 2001:db8::1 ,, 192.168.0.0/16" =
    Some [(V6 42540766411282592856903984951653826561, 128%N); (V4 3232235520, 16%N)] /\
  parse_allowed ex_parse6 ex_cidr "2001:db8::1, nonsense" = None /\
  step ex_parse6 ex_split6 ex_cidr (OCfgHub "2001:db8::1" "[2001:db8::1]:443" ["127.0.0.1"] []) = VAddr "127.0.0.1" /\
  step ex_parse6 ex_split6 ex_cidr (OCfgHub "2001:db8::1" "[2001:db8:1234::5]:443" ["127.0.0.1"] []) = VAddr "2001:db8:1234::5" /\
  P_C16 ex_parse6 ex_split6 ex_cidr
    [(OCfgHub "2001:db8::1" "[2001:db8:1234::5]:443" ["127.0.0.1"] [], VAddr "127.0.0.1")] = false /\
  P_C16 ex_parse6 ex_split6 ex_cidr
    [(OCfgStats 0 "" "2001:db8::1" "[2001:db8:1234::5]:443" [] [], VStatus 200)] = false /\
  P_C16 ex_parse6 ex_split6 ex_cidr
    [(OCfgAllowed "2001:db8::1" (V6 42540766416916187176308156905784606725), VBool true)] = false.
Proof. vm_compute. repeat split; reflexivity. Qed.

(* configuration histories: an allow-list option that is removed on reload no longer
   lets its former addresses in; the predicate rejects a server that keeps the old list,
   one that keeps trusting a proxy whose entry was removed, and accepts the model *)
Definition ex_parse_h : string -> option ip :=
  lookup [("10.9.9.9", V4 168364297); ("127.0.0.1", V4 2130706433); ("8.8.8.8", V4 134744072)].
Definition ex_split_h : string -> option string :=
  lookup [("10.9.9.9:1", "10.9.9.9"); ("127.0.0.1:9", "127.0.0.1"); ("8.8.8.8:7", "8.8.8.8")].
Example C16_ex_history :
  in_effect ex_parse_h ex_cidr (Some "127.0.0.1, 10.9.9.9") [Some "10.9.9.9"; None] = Some "" /\
  in_effect ex_parse_h ex_cidr (Some "10.9.9.9") [Some "nonsense"] = Some "10.9.9.9" /\
  in_effect ex_parse_h ex_cidr (Some "nonsense") [Some "10.9.9.9"] = None /\
  step ex_parse_h ex_split_h ex_cidr
    (OHistStats 0 (None, Some "127.0.0.1, 10.9.9.9") [(None, None)] "10.9.9.9:1" [] []) = VStatus 403 /\
  step ex_parse_h ex_split_h ex_cidr
    (OHistStats 0 (None, Some "127.0.0.1, 10.9.9.9") [(None, Some "nonsense")] "10.9.9.9:1" [] []) = VStatus 200 /\
  P_C16 ex_parse_h ex_split_h ex_cidr
    [(OHistStats 0 (None, Some "127.0.0.1, 10.9.9.9") [(None, None)] "10.9.9.9:1" [] [], VStatus 200)] = false /\
  P_C16 ex_parse_h ex_split_h ex_cidr
    [(OHistStats 0 (None, Some "10.9.9.9") [(None, None)] "127.0.0.1:9" [] [], VStatus 403)] = false /\
  P_C16 ex_parse_h ex_split_h ex_cidr
    [(OHistHub (Some "8.8.8.8") [None] "8.8.8.8:7" ["127.0.0.1"] [], VAddr "127.0.0.1")] = false /\
  P_C16 ex_parse_h ex_split_h ex_cidr
    [(OHistHub (Some "8.8.8.8") [None] "8.8.8.8:7" ["127.0.0.1"] [], VAddr "8.8.8.8")] = true.
Proof. vm_compute. repeat split; reflexivity. Qed.

Print Assumptions C16_untrusted_peer_ignores_headers.
Print Assumptions C16_direct_client_cannot_spoof.
Print Assumptions C16_direct_client_same_gate.
Print Assumptions C16_trusted_peer_spec.
Print Assumptions C16_trusted_peer_cases.
Print Assumptions C16_result_provenance.
Print Assumptions C16_result_literal.
Print Assumptions C16_result_is_address.
Print Assumptions C16_stats_gate_iff.
Print Assumptions C16_stats_gate_direct.
Print Assumptions C16_model_satisfies_P.
Print Assumptions C16_config_reading.
Print Assumptions C16_bare_entry_exact.
Print Assumptions C16_configured_iff.
Print Assumptions C16_config_direct_client.
Print Assumptions C16_short_mask_refuted.
Print Assumptions C16_history_in_effect.
Print Assumptions C16_reload_as_fresh_hub.
Print Assumptions C16_reload_as_fresh_stats.
Print Assumptions C16_reload_removed_option.
Print Assumptions C16_reload_valid_replaces.
Print Assumptions C16_reload_refused_keeps.
Print Assumptions C16_reload_removed_allow_list_is_default.
Print Assumptions C16_contains_top_bits.
Print Assumptions C16_contains_prefix.
Print Assumptions C16_contains_bits.
Print Assumptions C16_allowed_on_list.
Print Assumptions C16_default_trusted.
Print Assumptions C16_default_trusted_v4.
Print Assumptions C16_default_trusted_v6.
