(* C09 — No publisher or subscriber outlives the session, room stay or call that owns it. *)
From Coq Require Import List NArith Bool.
From Verif Require Import model.Hub proofs.Hub_media.
Import ListNotations.
Open Scope N_scope.

(* Leaving the room or the call, or closing the session, closes every open publisher and subscriber
   of the session at the media server and empties its tables. *)
Theorem C09_release_closes_everything : forall h sid s,
  get_sess h sid = Some s ->
  let '(h', outs) := release_mcu h sid in
  (forall tok, In tok (map snd s.(s_pubs) ++ map snd s.(s_subs)) -> In tok h.(h_mcuopen) -> In (ToMcu (MClose tok)) outs) /\
  (forall tok, In tok (map snd s.(s_pubs) ++ map snd s.(s_subs)) -> ~ In tok h'.(h_mcuopen)) /\
  (exists s', get_sess h' sid = Some s' /\ s'.(s_pubs) = [] /\ s'.(s_subs) = [] /\ s'.(s_rel) = s.(s_rel) + 1).
Proof. exact release_closes_everything. Qed.

(* A creation that completes after the owner is already gone (released meanwhile) is closed too ... *)
Theorem C09_late_creation_is_closed : forall h tok p s,
  get_sess h p.(mp_owner) = Some s -> s.(s_rel) <> p.(mp_rel) ->
  let '(h', outs) := finish_create h tok p true in
  In (ToMcu (MClose tok)) outs /\ h_mcuopen h' = h_mcuopen h /\
  (forall x, option_map (fun t => (t.(s_pubs), t.(s_subs))) (get_sess h' x) = option_map (fun t => (t.(s_pubs), t.(s_subs))) (get_sess h x)).
Proof. exact late_creation_is_closed. Qed.
(* ... and one for a session that no longer exists fails without opening anything. *)
Theorem C09_creation_for_dead_session_fails : forall h tok p,
  get_sess h p.(mp_owner) = None -> finish_create h tok p true = (h, [ToMcu (MFailed tok)]).
Proof. exact creation_for_dead_session_fails. Qed.

(* At most one publisher per session and stream: of two creations for the same stream the second
   one to complete is closed. *)
Theorem C09_duplicate_publisher_closed : forall h tok p s tok0,
  get_sess h p.(mp_owner) = Some s -> s.(s_rel) = p.(mp_rel) -> p.(mp_kind) = 0 ->
  offer_allowed s.(s_perms) p.(mp_stream) (N.land p.(mp_media) 3) = true ->
  aget s.(s_pubs) p.(mp_stream) = Some tok0 ->
  In (ToMcu (MClose tok)) (snd (finish_create h tok p true)) /\
  h_mcuopen (fst (finish_create h tok p true)) = h_mcuopen h.
Proof. exact duplicate_publisher_closed. Qed.
(* C09_owned_or_closed_partial: "at quiescence every open object is owned by a live session" as an
   invariant over all interleavings of completions is checked on every implementation state by
   P_C09 (digest_C09: open objects = objects in the sessions' tables) and by the comparison of the
   model's open set with the fake media server's; it is not proved as an invariant yet. *)

Print Assumptions C09_release_closes_everything.
Print Assumptions C09_late_creation_is_closed.
Print Assumptions C09_creation_for_dead_session_fails.
Print Assumptions C09_duplicate_publisher_closed.
