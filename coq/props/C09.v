(* C09 — No publisher or subscriber outlives the session, room stay or call that owns it. *)
From Coq Require Import List NArith Bool.
From Verif Require Import model.Hub proofs.Hub_media proofs.Hub_wf proofs.Hub_own.
Import ListNotations.
Open Scope N_scope.

(* Leaving the room or the call, or closing the session, closes every open publisher and subscriber
   of the session at the media server and empties its tables. *)
Theorem C09_release_closes_everything : forall h sid s,
  get_sess h sid = Some s ->
  let '(h', outs) := release_mcu h sid in
  (forall tok, In tok (map snd s.(s_pubs) ++ map snd s.(s_subs)) -> In tok h.(h_mcuopen) -> In (ToMcu (MClose tok)) outs) /\
  (forall tok, In tok (map snd s.(s_pubs) ++ map snd s.(s_subs)) -> ~ In tok h'.(h_mcuopen)) /\
  (exists s', get_sess h' sid = Some s' /\ s'.(s_pubs) = [] /\ s'.(s_subs) = [] /\ s'.(s_rel) = s.(s_rel) + 1).
Proof. exact release_closes_everything. Qed.

(* A creation that completes after the owner is already gone (released meanwhile) is closed too ... *)
Theorem C09_late_creation_is_closed : forall h tok p s,
  get_sess h p.(mp_owner) = Some s -> s.(s_rel) <> p.(mp_rel) ->
  let '(h', outs) := finish_create h tok p true in
  In (ToMcu (MClose tok)) outs /\ h_mcuopen h' = h_mcuopen h /\
  (forall x, option_map (fun t => (t.(s_pubs), t.(s_subs))) (get_sess h' x) = option_map (fun t => (t.(s_pubs), t.(s_subs))) (get_sess h x)).
Proof. exact late_creation_is_closed. Qed.
(* ... and one for a session that no longer exists fails without opening anything. *)
Theorem C09_creation_for_dead_session_fails : forall h tok p,
  get_sess h p.(mp_owner) = None -> finish_create h tok p true = (h, [ToMcu (MFailed tok)]).
Proof. exact creation_for_dead_session_fails. Qed.

(* At most one publisher per session and stream: of two creations for the same stream the second
   one to complete is closed. *)
Theorem C09_duplicate_publisher_closed : forall h tok p s tok0,
  get_sess h p.(mp_owner) = Some s -> s.(s_rel) = p.(mp_rel) -> p.(mp_kind) = 0 ->
  offer_allowed s.(s_perms) p.(mp_stream) (N.land p.(mp_media) 3) = true ->
  aget s.(s_pubs) p.(mp_stream) = Some tok0 ->
  In (ToMcu (MClose tok)) (snd (finish_create h tok p true)) /\
  h_mcuopen (fst (finish_create h tok p true)) = h_mcuopen h.
Proof. exact duplicate_publisher_closed. Qed.
(* ---- for every history (any limits, gated or not, any ops, step-by-step or quiescent runs) ---- *)

(* Every object open at the media server is in the tables of a live session ... *)
Theorem C09_open_objects_are_owned : forall limits gated ops h,
  h = run (init limits gated) ops \/ h = qrun (init limits gated) ops ->
  forall tok, In tok h.(h_mcuopen) ->
  exists sid s, get_sess h sid = Some s /\ In tok (map snd s.(s_pubs) ++ map snd s.(s_subs)).
Proof. intros limits gated ops h R. exact (own_reachable h (reachable_intro limits gated ops h R)). Qed.
(* ... of exactly one ... *)
Theorem C09_owner_unique : forall limits gated ops h,
  h = run (init limits gated) ops \/ h = qrun (init limits gated) ops ->
  forall tok, In tok h.(h_mcuopen) ->
  exists sid s, get_sess h sid = Some s /\ In tok (map snd s.(s_pubs) ++ map snd s.(s_subs)) /\
    forall sid' s', get_sess h sid' = Some s' -> In tok (map snd s'.(s_pubs) ++ map snd s'.(s_subs)) -> sid' = sid.
Proof. intros limits gated ops h R. exact (owner_unique h (reachable_inv h (reachable_intro limits gated ops h R))). Qed.
(* ... and conversely every object in a live session's tables is open: open = held. *)
Theorem C09_held_objects_are_open : forall limits gated ops h,
  h = run (init limits gated) ops \/ h = qrun (init limits gated) ops ->
  forall sid s tok, get_sess h sid = Some s -> In tok (map snd s.(s_pubs) ++ map snd s.(s_subs)) -> In tok h.(h_mcuopen).
Proof. intros limits gated ops h R. exact (held_reachable h (reachable_intro limits gated ops h R)). Qed.
(* Nothing outlives its owner: an object no live session holds is not open. *)
Theorem C09_nothing_outlives_owner : forall limits gated ops h,
  h = run (init limits gated) ops \/ h = qrun (init limits gated) ops ->
  forall tok,
  (forall sid s, get_sess h sid = Some s -> ~ In tok (map snd s.(s_pubs) ++ map snd s.(s_subs))) -> ~ In tok h.(h_mcuopen).
Proof. intros limits gated ops h R. exact (nothing_outlives_owner h (reachable_intro limits gated ops h R)). Qed.

(* No duplicates: no object is open twice; a session has at most one publisher per stream type and
   one subscriber per (publisher, stream); no object sits in two slots. *)
Theorem C09_no_duplicates : forall limits gated ops h,
  h = run (init limits gated) ops \/ h = qrun (init limits gated) ops ->
  NoDup h.(h_mcuopen) /\
  (forall sid s, get_sess h sid = Some s ->
     NoDup (map fst s.(s_pubs)) /\ NoDup (map fst s.(s_subs)) /\ NoDup (map snd s.(s_pubs) ++ map snd s.(s_subs))).
Proof. intros limits gated ops h R. exact (nodup_reachable h (reachable_intro limits gated ops h R)). Qed.
Theorem C09_one_publisher_per_stream : forall limits gated ops h,
  h = run (init limits gated) ops \/ h = qrun (init limits gated) ops ->
  forall sid s stream t1 t2,
  get_sess h sid = Some s -> In (stream, t1) s.(s_pubs) -> In (stream, t2) s.(s_pubs) -> t1 = t2.
Proof. intros limits gated ops h R. exact (one_publisher_per_stream h (reachable_intro limits gated ops h R)). Qed.

(* When a session is closed (alone, or with its virtual sessions), leaves its room or leaves the
   call, nothing it held stays open (in any state). *)
Theorem C09_close_session_closes : forall h sid s tok,
  get_sess h sid = Some s -> In tok (map snd s.(s_pubs) ++ map snd s.(s_subs)) ->
  ~ In tok (h_mcuopen (fst (close_session h sid))).
Proof. exact close_session_closes. Qed.
Theorem C09_close_one_closes : forall h sid s tok,
  get_sess h sid = Some s -> In tok (map snd s.(s_pubs) ++ map snd s.(s_subs)) ->
  ~ In tok (h_mcuopen (fst (close_one h sid))).
Proof. exact close_one_closes. Qed.
Theorem C09_leave_room_closes : forall h sid n s k tok,
  get_sess h sid = Some s -> s_room s = Some k -> is_virtual (s_kind s) = false ->
  In tok (map snd s.(s_pubs) ++ map snd s.(s_subs)) -> ~ In tok (h_mcuopen (fst (leave_room h sid n))).
Proof. exact leave_room_closes. Qed.
Theorem C09_leave_call_closes : forall h sid s k tok,
  get_sess h sid = Some s -> s_room s = Some k -> is_virtual (s_kind s) = false ->
  In tok (map snd s.(s_pubs) ++ map snd s.(s_subs)) -> ~ In tok (h_mcuopen (fst (leave_call h sid))).
Proof. exact leave_call_closes. Qed.

(* ... and the media server is told: a close request for each of them is among the outputs. *)
Theorem C09_close_session_emits_close : forall h sid s tok,
  get_sess h sid = Some s -> In tok (map snd s.(s_pubs) ++ map snd s.(s_subs)) -> In tok (h_mcuopen h) ->
  In (ToMcu (MClose tok)) (snd (close_session h sid)).
Proof. exact close_session_emits_close. Qed.
Theorem C09_close_one_emits_close : forall h sid s tok,
  get_sess h sid = Some s -> In tok (map snd s.(s_pubs) ++ map snd s.(s_subs)) -> In tok (h_mcuopen h) ->
  In (ToMcu (MClose tok)) (snd (close_one h sid)).
Proof. exact close_one_emits_close. Qed.
Theorem C09_leave_room_emits_close : forall h sid n s k tok,
  get_sess h sid = Some s -> s_room s = Some k -> is_virtual (s_kind s) = false ->
  In tok (map snd s.(s_pubs) ++ map snd s.(s_subs)) -> In tok (h_mcuopen h) ->
  In (ToMcu (MClose tok)) (snd (leave_room h sid n)).
Proof. exact leave_room_emits_close. Qed.
Theorem C09_leave_call_emits_close : forall h sid s k tok,
  get_sess h sid = Some s -> s_room s = Some k -> is_virtual (s_kind s) = false ->
  In tok (map snd s.(s_pubs) ++ map snd s.(s_subs)) -> In tok (h_mcuopen h) ->
  In (ToMcu (MClose tok)) (snd (leave_call h sid)).
Proof. exact leave_call_emits_close. Qed.
(* losing the permission: the revocation closes the publisher there too *)
Theorem C09_revoke_emits_close : forall h sid s stream tok,
  get_sess h sid = Some s -> In (stream, tok) s.(s_pubs) ->
  offer_allowed s.(s_perms) stream (match aget s.(s_pubmedia) tok with Some m => m | None => 0 end) = false ->
  In tok (h_mcuopen h) -> In (ToMcu (MClose tok)) (snd (revoke h sid)).
Proof. exact revoke_emits_close. Qed.

(* No unowned duplicate: when a creation completes, the media server is told that it failed, or the
   new object is closed again in the same step, or it is open and in its owner's tables. *)
Theorem C09_completion_owned_or_closed : forall h tok p ok,
  let '(h', outs) := finish_create h tok p ok in
  (exists o1, outs = ToMcu (MFailed tok) :: o1) \/
  (exists o1, outs = ToMcu (MCreated tok) :: ToMcu (MClose tok) :: o1) \/
  (exists o1, outs = ToMcu (MCreated tok) :: o1 /\ In tok (h_mcuopen h') /\
     exists s', get_sess h' (mp_owner p) = Some s' /\ In tok (map snd s'.(s_pubs) ++ map snd s'.(s_subs))).
Proof. exact completion_owned_or_closed. Qed.

(* The statements are not vacuous: reachable states with an open publisher (media server answering at
   once, and gated with the completion arriving later), a publisher and a subscriber, and the
   publisher's object closed when its session says bye. *)
Example C09_example_open_publisher :
  ex_view (run (init [0] false) ex_ops) = ([1], [], [(1, [(0, 1)], [], [(1, 3)], None)]) /\
  ex_view (run (init [0] true) ex_ops) = ([], [1], [(1, [], [], [], None)]) /\
  ex_view (run (init [0] true) (ex_ops ++ [OMcuDone 1 true])) = ([1], [], [(1, [(0, 1)], [], [(1, 3)], None)]) /\
  ex_view (qrun (init [0] true) (ex_ops ++ [OMcuDone 1 true])) = ([1], [], [(1, [(0, 1)], [], [(1, 3)], None)]).
Proof. split; [exact ex_open_publisher_ungated|split; [exact ex_pending_gated|split; [exact ex_open_publisher_gated|exact ex_open_publisher_gated_q]]]. Qed.
Example C09_example_publisher_and_subscriber :
  ex_view (qrun (init [0] false) ex_ops2) = ([1; 2], [], [(1, [(0, 1)], [], [(1, 3)], None); (2, [], [(1, 0, 2)], [], None)]) /\
  ex_view (qrun (init [0] false) (ex_ops2 ++ [OBye 1])) = ([2], [], [(2, [], [(1, 0, 2)], [], None)]).
Proof. exact ex_publisher_and_subscriber. Qed.

Print Assumptions C09_release_closes_everything.
Print Assumptions C09_late_creation_is_closed.
Print Assumptions C09_creation_for_dead_session_fails.
Print Assumptions C09_duplicate_publisher_closed.
Print Assumptions C09_open_objects_are_owned.
Print Assumptions C09_owner_unique.
Print Assumptions C09_held_objects_are_open.
Print Assumptions C09_nothing_outlives_owner.
Print Assumptions C09_no_duplicates.
Print Assumptions C09_one_publisher_per_stream.
Print Assumptions C09_close_session_closes.
Print Assumptions C09_close_one_closes.
Print Assumptions C09_leave_room_closes.
Print Assumptions C09_leave_call_closes.
Print Assumptions C09_completion_owned_or_closed.
Print Assumptions C09_close_session_emits_close.
Print Assumptions C09_close_one_emits_close.
Print Assumptions C09_leave_room_emits_close.
Print Assumptions C09_leave_call_emits_close.
Print Assumptions C09_revoke_emits_close.

(* ---- virtual sessions hold no media objects (proofs/Hub_attach.v: the invariant AT; proofs/Hub_virtual_media.v) ----
   For every history (any limits, gated or not, any ops, step-by-step or quiescent runs; every delivery order of the
   bus and every interleaving of the media server's completions are histories): a virtual session has no connection,
   no publisher, no subscriber, and no creation is pending for it. *)
From Verif Require Import proofs.Hub_attach proofs.Hub_virtual_media.
Theorem C09_virtual_sessions_hold_nothing : forall limits gated ops h,
  h = run (init limits gated) ops \/ h = qrun (init limits gated) ops ->
  forall sid s, get_sess h sid = Some s -> is_virtual s.(s_kind) = true ->
  s.(s_conn) = None /\ s.(s_pubs) = [] /\ s.(s_subs) = [] /\
  (forall tok p, In (tok, p) h.(h_mcupending) -> p.(mp_owner) <> sid).
Proof. intros limits gated ops h R. exact (virtual_sessions_hold_nothing h (reachable_intro limits gated ops h R)). Qed.
(* Every creation the media server has not answered yet belongs to a live session that is not virtual. *)
Theorem C09_pending_creations_have_client_owner : forall limits gated ops h,
  h = run (init limits gated) ops \/ h = qrun (init limits gated) ops ->
  forall tok p, In (tok, p) h.(h_mcupending) ->
  exists s, get_sess h p.(mp_owner) = Some s /\ is_virtual s.(s_kind) = false.
Proof. intros limits gated ops h R. exact (pending_creations_have_client_owner h (reachable_intro limits gated ops h R)). Qed.
(* C09_open_objects_are_owned, sharpened: every object open at the media server is held by a live session that is
   NOT virtual - of exactly one. *)
Theorem C09_open_objects_owned_by_client_sessions : forall limits gated ops h,
  h = run (init limits gated) ops \/ h = qrun (init limits gated) ops ->
  forall tok, In tok h.(h_mcuopen) ->
  exists sid s, get_sess h sid = Some s /\ is_virtual s.(s_kind) = false /\
    In tok (map snd s.(s_pubs) ++ map snd s.(s_subs)) /\
    forall sid' s', get_sess h sid' = Some s' -> In tok (map snd s'.(s_pubs) ++ map snd s'.(s_subs)) -> sid' = sid.
Proof. intros limits gated ops h R. exact (open_object_owner_unique_client h (reachable_intro limits gated ops h R)). Qed.
(* The session a client request is processed for - the one attached to the connection it arrived on - is never
   virtual (a virtual session never gets a connection): media requests come from ordinary or internal clients. *)
Theorem C09_request_session_not_virtual : forall limits gated ops h c cn sid s,
  h = run (init limits gated) ops \/ h = qrun (init limits gated) ops ->
  aget h.(h_conns) c = Some cn -> cn.(c_sess) = Some sid -> get_sess h sid = Some s -> is_virtual s.(s_kind) = false.
Proof. intros limits gated ops h c cn sid s R. exact (request_session_not_virtual h c cn sid s (reachable_intro limits gated ops h R)). Qed.
(* Not vacuous: a client, an internal client and its virtual session in one call; publisher and subscriber are held
   by the two clients, the virtual session holds nothing (media server answering at once; gated, before and after
   the completions). *)
Example C09_example_virtual_session_in_call :
  vm_view (qrun (init [0; 0] false) vm_ops) =
    ([1; 2], [], [(1, false, Some 1, [(0, 1)], []); (2, false, Some 2, [], [(1, 0, 2)]); (3, true, None, [], [])]) /\
  vm_view (qrun (init [0; 0] true) vm_ops) =
    ([], [(1, 1); (2, 2)], [(1, false, Some 1, [], []); (2, false, Some 2, [], []); (3, true, None, [], [])]) /\
  vm_view (run (init [0; 0] true) (vm_ops ++ [OMcuDone 2 true; OMcuDone 1 true])) =
    ([2; 1], [], [(1, false, Some 1, [(0, 1)], []); (2, false, Some 2, [], [(1, 0, 2)]); (3, true, None, [], [])]).
Proof. exact vm_example. Qed.
Print Assumptions C09_virtual_sessions_hold_nothing.
Print Assumptions C09_pending_creations_have_client_owner.
Print Assumptions C09_open_objects_owned_by_client_sessions.
Print Assumptions C09_request_session_not_virtual.
Print Assumptions C09_example_virtual_session_in_call.

(* ============================================================================================================
   C09J — the media server's side: the bookkeeping of mcuJanus (model/Janus.v, proofs/Janus_proofs.v), scenario
   C09J of the check (corr/Run_C09J.v, harness c09j_verif_test.go).  The names of model/Janus.v shadow those of the
   hub model from here on. *)
From Verif Require Import model.Janus corr.Run_C09J proofs.Janus_proofs.

(* Close takes a publisher (that has a handle and a room) and every subscriber out of mcu.clients -- whether the
   gateway is up or down and whatever it answers to "destroy" / "detach" ... *)
Theorem C09J_close_unregisters : forall st c x rd rt,
  get_obj st c = Some x ->
  (c_kind x = Pub -> c_handle x <> HNone /\ c_room x <> HNone) ->
  memN c (m_clients (fst (close st c rd rt))) = false.
Proof. exact close_unregisters. Qed.
(* ... and the publisher's stream key out of mcu.publishers. *)
Theorem C09J_close_pub_frees_key : forall st c x rd rt,
  get_obj st c = Some x -> c_kind x = Pub -> c_handle x <> HNone -> c_room x <> HNone ->
  pub_of (m_pubs (fst (close st c rd rt))) (ckey x) = None.
Proof. exact close_pub_frees_key. Qed.

(* For every history (any length, any placement of gateway losses, reconnects, refused requests, further creations
   and closes): a client that is out of mcu.clients is never registered again, and its handles and rooms at the gateway
   never become more -- nothing is created for it. *)
Theorem C09J_closed_never_registered_nothing_created : forall ops st c,
  c <> 0 -> c < m_next st -> memN c (m_clients st) = false ->
  let st' := run_from st ops in
  memN c (m_clients st') = false /\
  countN c (g_handles st') <= countN c (g_handles st) /\ countN c (g_rooms st') <= countN c (g_rooms st).
Proof. exact never_again. Qed.
(* Once nothing of it is at the gateway, nothing ever is again. *)
Theorem C09J_closed_stays_gone : forall ops st c,
  c <> 0 -> c < m_next st -> memN c (m_clients st) = false ->
  memN c (g_handles st) = false -> memN c (g_rooms st) = false ->
  memN c (g_handles (run_from st ops)) = false /\ memN c (g_rooms (run_from st ops)) = false.
Proof. exact never_again_nothing. Qed.
(* One step, any state: the only clients something is created for at the gateway are the new one and registered ones. *)
Theorem C09J_step_creates_only_for_registered : forall st o c,
  c <> 0 -> c < m_next st -> memN c (m_clients st) = false -> shrinks c st (step_st st o).
Proof. exact step_shrinks. Qed.

(* After doReconnect every handle and room at the gateway is the MCU's own handle or was made for a client registered
   when the reconnect began (leftovers of closed clients are gone, nothing is made for them). *)
Theorem C09J_reconnect_only_registered : forall st fail c,
  let st' := fst (reconnect st fail) in
  (In c (g_handles st') -> c = 0 \/ In c (m_clients st)) /\ (In c (g_rooms st') -> In c (m_clients st)).
Proof. exact reconnect_only_registered. Qed.

(* A Close while the gateway does not answer leaves the gateway exactly as it was: the handle and the room of the
   client stay there (until the gateway forgets the session) ... *)
Theorem C09J_close_while_down_gateway_unchanged : forall st c rd rt,
  reachable st = false ->
  let st' := fst (close st c rd rt) in
  g_handles st' = g_handles st /\ g_rooms st' = g_rooms st /\ g_up st' = g_up st /\ g_sess st' = g_sess st.
Proof. exact close_while_down_gateway_unchanged. Qed.
(* ... while with the gateway answering, the handle and the room are taken away. *)
Theorem C09J_close_while_up_removes : forall st c x,
  get_obj st c = Some x -> reachable st = true -> c_kind x = Pub -> c_handle x = HLive -> c_room x = HLive ->
  let st' := fst (close st c false false) in
  g_handles st' = remove1 c (g_handles st) /\ g_rooms st' = remove1 c (g_rooms st).
Proof. exact close_while_up_removes. Qed.

(* Close is idempotent: closing a closed client changes no table. *)
Theorem C09J_close_idempotent : forall st c rd rt,
  (forall y, In y (m_objs st) -> c_id y = c -> c_closed y = true /\ c_handle y = HNone) ->
  memN c (m_clients st) = false ->
  fst (close st c rd rt) = st.
Proof. exact close_closed_noop. Qed.

(* "At most one publisher per session and stream type" is NOT kept by mcuJanus itself (it is kept by its caller,
   C09_one_publisher_per_stream): a second NewPublisher for the same stream is registered next to the first ... *)
Theorem C09J_one_publisher_per_stream_refuted : exists ops k,
  (2 <=? N.of_nat (length (registered_pubs_with (run ops) k))) = true.
Proof. exact second_publisher_refuted. Qed.
(* ... and closing the first takes the key of the second away: nobody can subscribe to the second. *)
Theorem C09J_second_publisher_loses_key : exists ops,
  memN 2 (m_clients (run ops)) = true /\ pub_of (m_pubs (run ops)) (1, 0) = None /\
  snd (fst (step (run ops) (ONewSub 3 1 0))) = RErrTimeout.
Proof. exact second_publisher_loses_key. Qed.

(* ---- non-vacuity: the history of the seeded change's demonstration, and P_C09J on model traces --------------- *)
Definition c09j_demo : list op := [ONewPub 1 0 false; OGwDown true; OClose 1 false false; OReconnect []].
Example C09J_demo_clean :
  let st := run c09j_demo in (g_handles st, g_rooms st, m_clients st, m_pubs st) = ([0], [], [], []).
Proof. vm_compute. reflexivity. Qed.
(* a close while the gateway is unreachable leaves handle 1 and room 1 there; after it is reachable again they are
   still there (nobody will ever close them); the next reconnect forgets them and re-creates only publisher 2 *)
Definition c09j_left : list op := [ONewPub 1 0 false; ONewPub 2 0 false; OGwDown false; OClose 1 false false; OGwUp].
Example C09J_left_until_forgotten :
  (g_handles (run c09j_left), g_rooms (run c09j_left), m_clients (run c09j_left)) = ([0; 1; 2], [1; 2], [2]) /\
  (let st := run (c09j_left ++ [OReconnect []]) in (g_handles st, g_rooms st, m_clients st)) = ([0; 2], [2], [2]).
Proof. vm_compute. auto. Qed.
(* no subscriber survives a reconnect (mcu.publishers is emptied and never refilled by NotifyReconnected) *)
Example C09J_reconnect_closes_subscribers :
  step (run [ONewPub 1 0 false; ONewSub 2 1 0]) (OReconnect []) =
  (run [ONewPub 1 0 false; ONewSub 2 1 0; OReconnect []], RNone, [ESubClosed 2]) /\
  m_clients (run [ONewPub 1 0 false; ONewSub 2 1 0; OReconnect []]) = [1] /\
  m_pubs (run [ONewPub 1 0 false; ONewSub 2 1 0; OReconnect []]) = [].
Proof. vm_compute. auto. Qed.
(* the trace predicate holds on the model's traces of these histories (for every history: C09J_P_on_every_model_trace below) *)
Example C09J_P_on_model_traces :
  forallb (fun ops => P_C09J (trace_of ops))
    [c09j_demo; c09j_left ++ [OReconnect []; ONewPub 1 0 false; OCloseAll 1; OCloseAll 2];
     [ONewPub 1 0 false; ONewSub 2 1 0; OClose 1 true false; OClose 2 false true; OReconnect [(1, 0)]; OGwDown true; ONewPub 3 1 false];
     [ONewPub 1 0 false; ONewPub 1 0 false; OClose 1 false false; ONewSub 3 1 0; OClose 2 false false]] = true.
Proof. vm_compute. reflexivity. Qed.
(* ... and fails on the trace the seeded change C09-5 produces (publisher 1 still registered after its close) *)
Example C09J_P_rejects_seeded_trace :
  P_C09J [(ONewPub 1 0 false, ob (ROk 1) [], dg true [0; 1] [1] [1] [((1, 0), 1)] [rw 1 Pub 1 1 0 true true]);
          (OGwDown true, ob RNone [], dg false [] [] [1] [((1, 0), 1)] [rw 1 Pub 1 1 0 true true]);
          (OClose 1 false false, ob RNone [], dg false [] [] [1] [] [rw 1 Pub 1 1 0 false false])] = false.
Proof. vm_compute. reflexivity. Qed.

Print Assumptions C09J_close_unregisters.
Print Assumptions C09J_close_pub_frees_key.
Print Assumptions C09J_closed_never_registered_nothing_created.
Print Assumptions C09J_closed_stays_gone.
Print Assumptions C09J_step_creates_only_for_registered.
Print Assumptions C09J_reconnect_only_registered.
Print Assumptions C09J_close_while_down_gateway_unchanged.
Print Assumptions C09J_close_while_up_removes.
Print Assumptions C09J_close_idempotent.
Print Assumptions C09J_one_publisher_per_stream_refuted.
Print Assumptions C09J_second_publisher_loses_key.

(* ---- C09J, continued: the reachable states (proofs/Janus_inv.v) ------------------------------------------------ *)
From Verif Require Import proofs.Janus_inv.

(* (1) JInv -- one object per id, every id below mcu.clientId has its object, per object: registered exactly when not
   closed, no handle exactly when closed, a publisher no room number exactly when closed, while open exactly one handle
   (one room, a publisher) at the gateway when the field is live and none otherwise, never a room for a subscriber;
   mcu.clients without duplicates; a key of mcu.publishers names an open publisher of that stream; the gateway holds
   handles and rooms only for ids handed out (and the MCU's own handle, once, while it knows the session; nothing when it
   does not) -- holds initially, is kept by every operation, so holds after every history. *)
Theorem C09J_invariant_init : JInv init.
Proof. exact JInv_init. Qed.
Theorem C09J_invariant_step : forall st o, JInv st -> JInv (step_st st o).
Proof. exact step_inv. Qed.
Theorem C09J_invariant_reachable : forall ops, JInv (run ops).
Proof. exact reachable_inv. Qed.
(* read off it, for every history: *)
Theorem C09J_registered_iff_not_closed : forall ops x, In x (m_objs (run ops)) ->
  (memN (c_id x) (m_clients (run ops)) = true <-> c_closed x = false).
Proof. exact registered_not_closed. Qed.
Theorem C09J_registered_has_object : forall ops c, In c (m_clients (run ops)) ->
  exists x, get_obj (run ops) c = Some x /\ c_closed x = false /\ c_handle x <> HNone /\ (c_kind x = Pub -> c_room x <> HNone).
Proof. exact registered_has_object. Qed.
Theorem C09J_closed_has_nothing : forall ops x, In x (m_objs (run ops)) -> c_closed x = true ->
  memN (c_id x) (m_clients (run ops)) = false /\ c_handle x = HNone /\ (c_kind x = Pub -> c_room x = HNone) /\
  (forall k, ~ In (k, c_id x) (m_pubs (run ops))).
Proof. exact closed_has_nothing. Qed.
Theorem C09J_ids_below_counter : forall ops x, In x (m_objs (run ops)) -> 0 < c_id x < m_next (run ops).
Proof. exact ids_below_counter. Qed.
Theorem C09J_publishers_name_registered : forall ops k c, In (k, c) (m_pubs (run ops)) ->
  exists x, get_obj (run ops) c = Some x /\ c_kind x = Pub /\ ckey x = k /\ c_closed x = false /\
            memN c (m_clients (run ops)) = true.
Proof. exact pubs_name_registered. Qed.

Print Assumptions C09J_invariant_reachable.
Print Assumptions C09J_registered_iff_not_closed.
Print Assumptions C09J_registered_has_object.
Print Assumptions C09J_closed_has_nothing.
Print Assumptions C09J_ids_below_counter.
Print Assumptions C09J_publishers_name_registered.

(* (3) What doReconnect leaves, exactly (from any state satisfying JInv, so after any history: C09J_reconnect_exact_run):
   the gateway answers and mcu.publishers is empty; the gateway's rooms are, in the order of mcu.clients and without
   repetition, exactly one per client that was registered, is a publisher and whose "create" was not refused
   (recreated), its handles are the MCU's own handle followed by the same list -- so nothing else is there;
   mcu.clients afterwards is exactly the registered publishers (every registered subscriber has closed itself and its
   listener was told SubscriberClosed); and per publisher registered afterwards: "create" not refused -- open, handle
   and room live, exactly one handle and one room at the gateway; "create" refused -- open and registered with a
   stale handle and room number and nothing at the gateway. *)
Theorem C09J_reconnect_exact : forall st fail, JInv st ->
  let st' := fst (reconnect st fail) in
  reachable st' = true /\ m_pubs st' = [] /\
  g_handles st' = 0 :: g_rooms st' /\
  g_rooms st' = filter (recreated fail st) (m_clients st) /\ NoDup (g_rooms st') /\
  (forall c, In c (m_clients st') <-> In c (m_clients st) /\ is_sub_id st c = false) /\
  (forall c, In c (m_clients st') ->
     exists x', get_obj st' c = Some x' /\ c_kind x' = Pub /\ c_closed x' = false /\
       if mem_key (ckey x') fail
       then c_handle x' = HStale /\ c_room x' = HStale /\ ~ In c (g_handles st') /\ ~ In c (g_rooms st')
       else c_handle x' = HLive /\ c_room x' = HLive /\ countN c (g_handles st') = 1 /\ countN c (g_rooms st') = 1) /\
  snd (reconnect st fail) = map ESubClosed (filter (is_sub_id st) (m_clients st)).
Proof. exact reconnect_exact. Qed.
Theorem C09J_reconnect_exact_run : forall ops fail,
  let st := run ops in let st' := run (ops ++ [OReconnect fail]) in
  reachable st' = true /\ g_handles st' = 0 :: g_rooms st' /\
  g_rooms st' = filter (recreated fail st) (m_clients st) /\ NoDup (g_rooms st') /\
  (forall c, In c (m_clients st') <-> In c (m_clients st) /\ is_sub_id st c = false).
Proof.
  intros ops fail st st'.
  assert (E : st' = fst (reconnect st fail)).
  { unfold st'. rewrite run_snoc. apply step_st_reconnect. }
  rewrite E. destruct (reconnect_exact st fail (reachable_inv ops)) as (H1 & _ & H3 & H4 & H5 & H6 & _). auto.
Qed.
(* whatever the gateway holds after doReconnect is the MCU's handle or belongs to a client registered after it *)
Theorem C09J_reconnect_nothing_else : forall st fail c, JInv st ->
  let st' := fst (reconnect st fail) in
  (In c (g_handles st') -> c = 0 \/ In c (m_clients st')) /\ (In c (g_rooms st') -> In c (m_clients st')).
Proof. exact reconnect_nothing_else. Qed.

Print Assumptions C09J_reconnect_exact.
Print Assumptions C09J_reconnect_exact_run.
Print Assumptions C09J_reconnect_nothing_else.

(* (2) The trace predicate of the check is a consequence of the model: for EVERY history from init, P_C09J evaluated on
   the model's own observations and digests is true -- all five clauses (a)-(e), with the exemption list and the
   waiver exactly as corr/Run_C09J.v keeps them.  (Proof: proofs/Janus_trace.v; the predicate's state is tied to the
   model's by PInv: everything the predicate counts as closed is an id handed out that is out of mcu.clients; every closed
   object is exempt or has nothing at the gateway; the keys of the registered publishers repeat only waived keys.) *)
From Verif Require Import proofs.Janus_trace.
Theorem C09J_P_on_every_model_trace : forall ops, P_C09J (trace_of ops) = true.
Proof. exact P_on_every_model_trace. Qed.
(* from any state satisfying the invariants, with the predicate in any state consistent with it *)
Theorem C09J_P_from_any_consistent_state : forall ops ps st, JInv st -> PInv ps st ->
  P_from ps (digest_of st) (trace_from st ops) = true.
Proof. exact P_from_model. Qed.
Print Assumptions C09J_P_on_every_model_trace.
Print Assumptions C09J_P_from_any_consistent_state.

(* (4) Nothing outlives its owner at the gateway, for every history.
   C09J_gone_forever: an id handed out that is out of mcu.clients stays out for every continuation, and at the end of the
   continuation nothing of it is at the gateway when nothing of it was there at the start or the continuation contains
   a reconnect.
   C09J_closeall_nothing_outlives: in any history, after OCloseAll owner, for every client the owner had at that point:
   at every later point it is out of mcu.clients and of mcu.publishers; and no handle and no room at the gateway belongs
   to it -- provided the gateway answered when OCloseAll was executed and the client was still open then, or there has
   been a reconnect since.   C09J_close_nothing_outlives: the same for OClose c (nothing refused).
   The proviso "still open then" cannot be dropped (C09J_closeall_while_up_all_clients_refuted): newpub(1,video);
   gwdown; close(1); gwup; closeall(1) -- the gateway answers when closeall(1) runs, and handle 1 and room 1 are still
   there afterwards (the Close met an unreachable gateway, a second Close does nothing); they go with the next
   reconnect or restart (C09J_left_until_forgotten).  P_C09J exempts exactly these (clause (b)). *)
Theorem C09J_gone_forever : forall ops st c, JInv st -> 0 < c < m_next st -> memN c (m_clients st) = false ->
  memN c (m_clients (run_from st ops)) = false /\
  ((memN c (g_handles st) = false /\ memN c (g_rooms st) = false) \/ (exists f, In (OReconnect f) ops) ->
   memN c (g_handles (run_from st ops)) = false /\ memN c (g_rooms (run_from st ops)) = false).
Proof. exact gone_forever. Qed.
Theorem C09J_closeall_nothing_outlives : forall ops1 ow ops2 x,
  let st0 := run ops1 in let st2 := run (ops1 ++ OCloseAll ow :: ops2) in
  In x (m_objs st0) -> c_owner x = ow ->
  memN (c_id x) (m_clients st2) = false /\ (forall k, ~ In (k, c_id x) (m_pubs st2)) /\
  ((reachable st0 = true /\ c_closed x = false) \/ (exists f, In (OReconnect f) ops2) ->
   memN (c_id x) (g_handles st2) = false /\ memN (c_id x) (g_rooms st2) = false).
Proof. exact closeall_nothing_outlives. Qed.
Theorem C09J_close_nothing_outlives : forall ops1 c rd rt ops2,
  let st0 := run ops1 in let st2 := run (ops1 ++ OClose c rd rt :: ops2) in
  get_obj st0 c <> None ->
  memN c (m_clients st2) = false /\ (forall k, ~ In (k, c) (m_pubs st2)) /\
  ((reachable st0 = true /\ rd = false /\ rt = false /\ memN c (m_clients st0) = true) \/ (exists f, In (OReconnect f) ops2) ->
   memN c (g_handles st2) = false /\ memN c (g_rooms st2) = false).
Proof. exact close_nothing_outlives. Qed.
Theorem C09J_closeall_while_up_all_clients_refuted :
  reachable (run leftover_history) = true /\
  (exists x, In x (m_objs (run leftover_history)) /\ c_owner x = 1 /\ c_id x = 1) /\
  let st2 := run (leftover_history ++ [OCloseAll 1]) in
  reachable st2 = true /\ memN 1 (g_handles st2) = true /\ memN 1 (g_rooms st2) = true /\ memN 1 (m_clients st2) = false.
Proof. exact closeall_while_up_all_clients_refuted. Qed.
Print Assumptions C09J_gone_forever.
Print Assumptions C09J_closeall_nothing_outlives.
Print Assumptions C09J_close_nothing_outlives.
Print Assumptions C09J_closeall_while_up_all_clients_refuted.
