(* C08 — Media actions need the matching permission or call membership. *)
From Coq Require Import List NArith Bool.
From Verif Require Import model.Hub proofs.Hub_easy proofs.Hub_wf proofs.Hub_own.
Import ListNotations.
Open Scope N_scope.

(* The decision for an offer, spelled out from the property: screen shares need publish-screen; an
   audio (video) m-line needs publish-media or publish-audio (publish-video). *)
Theorem C08_offer_allowed_iff : forall p stream media,
  offer_allowed p stream media = true <->
  (stream = 2 /\ has_perm p P_SCREEN = true) \/
  (stream <> 2 /\
   (N.testbit media 0 = true -> has_perm p P_MEDIA = true \/ has_perm p P_AUDIO = true) /\
   (N.testbit media 1 = true -> has_perm p P_MEDIA = true \/ has_perm p P_VIDEO = true)).
Proof. exact offer_allowed_iff. Qed.

(* Control messages without the control permission (and not from an internal client) are dropped. *)
Theorem C08_control_gate : forall h c sid s to tag,
  conn_session h c sid s -> allowed_control s = false -> step h (OCtl c to tag) = (h, []).
Proof. exact control_gate. Qed.
(* Transient data writes (kindn 0 = set, 1 = remove; anything else is answered "ignored" whoever asks) without the
   permission are refused and change nothing. *)
Theorem C08_transient_gate : forall h c sid s k kindn key val,
  conn_session h c sid s -> s.(s_room) = Some k -> allowed_transient s = false -> (kindn <? 2) = true ->
  step h (OTransient c kindn key val) = (h, [ToConn c (SError E_not_allowed)]).
Proof. exact transient_gate. Qed.
(* ---- for every history (any limits, gated or not, any ops, step-by-step or quiescent runs) ---- *)

(* A session keeps a publisher only while its current permissions allow it: in every reachable
   state, every publisher of a live non-virtual session passes the model's own offer check against
   the permissions the session has now (as last set by the room reply or a permissions event) and
   the media bits recorded for the publisher. *)
Theorem C08_publishers_allowed_by_current_permissions : forall limits gated ops h,
  h = run (init limits gated) ops \/ h = qrun (init limits gated) ops ->
  forall sid s stream tok,
  get_sess h sid = Some s -> is_virtual s.(s_kind) = false -> In (stream, tok) s.(s_pubs) ->
  offer_allowed s.(s_perms) stream (match aget s.(s_pubmedia) tok with Some m => m | None => 0 end) = true.
Proof. intros limits gated ops h R. exact (hold_reachable h (reachable_intro limits gated ops h R)). Qed.

(* Readable forms: a screen publisher needs publish-screen; a publisher carrying audio (video)
   needs publish-media or publish-audio (publish-video). *)
Theorem C08_screen_publisher_needs_permission : forall limits gated ops h,
  h = run (init limits gated) ops \/ h = qrun (init limits gated) ops ->
  forall sid s tok,
  get_sess h sid = Some s -> is_virtual s.(s_kind) = false -> In (2, tok) s.(s_pubs) ->
  has_perm s.(s_perms) P_SCREEN = true.
Proof. intros limits gated ops h R. exact (screen_publisher_needs_permission h (reachable_intro limits gated ops h R)). Qed.
Theorem C08_audio_publisher_needs_permission : forall limits gated ops h,
  h = run (init limits gated) ops \/ h = qrun (init limits gated) ops ->
  forall sid s stream tok,
  get_sess h sid = Some s -> is_virtual s.(s_kind) = false -> In (stream, tok) s.(s_pubs) -> stream <> 2 ->
  N.testbit (match aget s.(s_pubmedia) tok with Some m => m | None => 0 end) 0 = true ->
  has_perm s.(s_perms) P_MEDIA = true \/ has_perm s.(s_perms) P_AUDIO = true.
Proof. intros limits gated ops h R. exact (audio_publisher_needs_permission h (reachable_intro limits gated ops h R)). Qed.
Theorem C08_video_publisher_needs_permission : forall limits gated ops h,
  h = run (init limits gated) ops \/ h = qrun (init limits gated) ops ->
  forall sid s stream tok,
  get_sess h sid = Some s -> is_virtual s.(s_kind) = false -> In (stream, tok) s.(s_pubs) -> stream <> 2 ->
  N.testbit (match aget s.(s_pubmedia) tok with Some m => m | None => 0 end) 1 = true ->
  has_perm s.(s_perms) P_MEDIA = true \/ has_perm s.(s_perms) P_VIDEO = true.
Proof. intros limits gated ops h R. exact (video_publisher_needs_permission h (reachable_intro limits gated ops h R)). Qed.
(* A session whose backend granted none of publish-audio / -video / -screen / -media has no screen
   publisher and no publisher carrying audio or video. *)
Theorem C08_no_publish_permission_no_media : forall limits gated ops h,
  h = run (init limits gated) ops \/ h = qrun (init limits gated) ops ->
  forall sid s p stream tok,
  get_sess h sid = Some s -> is_virtual s.(s_kind) = false -> s.(s_perms) = Some p ->
  N.testbit p P_AUDIO = false -> N.testbit p P_VIDEO = false -> N.testbit p P_SCREEN = false -> N.testbit p P_MEDIA = false ->
  In (stream, tok) s.(s_pubs) ->
  stream <> 2 /\
  N.testbit (match aget s.(s_pubmedia) tok with Some m => m | None => 0 end) 0 = false /\
  N.testbit (match aget s.(s_pubmedia) tok with Some m => m | None => 0 end) 1 = false.
Proof. intros limits gated ops h R. exact (no_publish_permission_no_media h (reachable_intro limits gated ops h R)). Qed.

(* A publisher is created only with the permission: an offer the permissions do not allow is
   refused and nothing is created (a creation that was allowed when it started is checked again
   when it completes: finish_create, and C09_completion_owned_or_closed). *)
(* media: the m-lines of the offer; a section with port 0 (bundle-only) counts like any other: eff_media *)
Theorem C08_offer_needs_permission : forall h c sid s i stream media,
  offer_allowed s.(s_perms) stream (eff_media media) = false ->
  do_media h c sid s (RSession i) 0 stream media = (h, [ToConn c (SError E_not_allowed)]).
Proof. exact offer_needs_permission. Qed.

(* The revocation (run after a permissions event and after a room reply that sets permissions) closes
   every publisher the permissions no longer allow, in any state ... *)
Theorem C08_revocation_closes : forall h sid s stream tok,
  get_sess h sid = Some s -> In (stream, tok) s.(s_pubs) ->
  offer_allowed s.(s_perms) stream (match aget s.(s_pubmedia) tok with Some m => m | None => 0 end) = false ->
  ~ In tok (h_mcuopen (fst (revoke h sid))).
Proof. exact revoke_closes. Qed.
(* ... and leaves the session with allowed publishers only, whatever it held before. *)
Theorem C08_revocation_establishes : forall h sid s' stream tok,
  get_sess (fst (revoke h sid)) sid = Some s' -> In (stream, tok) s'.(s_pubs) ->
  offer_allowed s'.(s_perms) stream (match aget s'.(s_pubmedia) tok with Some m => m | None => 0 end) = true.
Proof. intros h sid s' stream tok Hs. exact (revoke_establishes h sid s' Hs stream tok). Qed.

(* A request for another session's stream is refused unless both are in the same room and in its
   call (same_call); nothing is created. *)
Theorem C08_request_needs_same_call : forall h c sid s n stream media,
  n <> sid -> same_call h sid s n = false ->
  do_media h c sid s (RSession (IdPub n)) 1 stream media = (h, [ToConn c (SError E_not_allowed)]).
Proof. exact request_needs_same_call. Qed.

Theorem C08_request_needs_same_call_any : forall h c sid s i stream media,
  (match i with IdPub x => N.eqb x sid | _ => false end) = false ->
  same_call h sid s (match i with IdPub x => x | _ => 0 end) = false ->
  do_media h c sid s (RSession i) 1 stream media = (h, [ToConn c (SError E_not_allowed)]).
Proof. exact request_needs_same_call_any. Qed.

(* The statements are not vacuous: a reachable state with an open audio + video publisher (media
   server answering at once, and gated); the room reply granting publish-audio only closes it. *)
Example C08_example_open_publisher :
  ex_view (run (init [0] false) ex_ops) = ([1], [], [(1, [(0, 1)], [], [(1, 3)], None)]) /\
  ex_view (run (init [0] true) (ex_ops ++ [OMcuDone 1 true])) = ([1], [], [(1, [(0, 1)], [], [(1, 3)], None)]).
Proof. split; [exact ex_open_publisher_ungated|exact ex_open_publisher_gated]. Qed.
Example C08_example_revoked_on_join :
  ex_view (run (init [0] false) (ex_ops ++ [OJoin 1 7 0 (RepOk (Some 1) 0)])) = ([], [], [(1, [], [], [(1, 3)], Some 1)]) /\
  In (ToMcu (MClose 1)) (snd (step (run (init [0] false) ex_ops) (OJoin 1 7 0 (RepOk (Some 1) 0)))).
Proof. exact ex_revoked_on_join. Qed.
(* "no publish permission, no publisher at all" is false: an offer without audio and video needs no
   permission (model and clientsession.go alike); C08_no_publish_permission_no_media is what holds. *)
Example C08_no_permission_no_publisher_refuted :
  (let h := run (init [0] false) ex_ops_nomedia in
   match get_sess h 1 with
   | Some s => match s_perms s, s_pubs s with Some 0, _ :: _ => false | _, _ => true end
   | None => true
   end) = false.
Proof. exact no_permission_no_publisher_refuted. Qed.

(* ---- the other kinds that the publish permissions decide (IsAllowedToSend) ---- *)

(* The decision for a message that carries no session description (candidate, answer, endOfCandidates for the
   sender's own stream; sendoffer): the screen stream needs publish-screen, audio / video any of publish-media,
   publish-audio, publish-video. *)
Theorem C08_send_allowed_iff : forall p stream,
  send_allowed p stream = true <->
  (stream = 2 /\ has_perm p P_SCREEN = true) \/
  (stream <> 2 /\ (has_perm p P_MEDIA = true \/ has_perm p P_AUDIO = true \/ has_perm p P_VIDEO = true)).
Proof.
  intros p stream. unfold send_allowed. destruct (N.eqb_spec stream 2) as [->|Hne].
  - split; [intros H; left; split; [reflexivity|exact H]|intros [[_ H]|[Hn _]]; [exact H|now elim Hn]].
  - rewrite !orb_true_iff. split.
    + intros [[H|H]|H]; right; (split; [exact Hne|]); auto.
    + intros [[He _]|[_ [H|[H|H]]]]; [now elim Hne| | |]; auto.
Qed.

(* A candidate (kind 2), an answer (4), an endOfCandidates (7) for the sender's OWN stream without that
   permission is refused and nothing changes. *)
Theorem C08_own_stream_needs_permission : forall h c sid s mk stream media,
  is_cand mk = true -> send_allowed s.(s_perms) stream = false ->
  do_media h c sid s (RSession (IdPub sid)) mk stream media = (h, [ToConn c (SError E_not_allowed)]).
Proof.
  intros h c sid s mk stream media Hc Hs. unfold do_media.
  destruct (N.eqb_spec mk 0) as [->|_]; [vm_compute in Hc; discriminate|].
  destruct (N.eqb_spec mk 1) as [->|_]; [vm_compute in Hc; discriminate|].
  rewrite Hc, N.eqb_refl, Hs. reflexivity.
Qed.
Theorem C08_is_cand_kinds : forall mk, is_cand mk = true <-> mk = 2 \/ mk = 4 \/ mk = 7.
Proof.
  intros mk. unfold is_cand. rewrite !orb_true_iff, !N.eqb_eq. tauto.
Qed.

(* A sendoffer (kind 3: "make that session subscribe to my stream") to another session of the sender's backend,
   or to an id that is no session, without the permission for the stream type is refused; nothing is created and
   nothing changes. *)
Theorem C08_sendoffer_needs_permission : forall h c sid s n t stream media,
  get_sess h n = Some t -> t.(s_backend) = s.(s_backend) -> n <> sid ->
  send_allowed s.(s_perms) stream = false ->
  do_media h c sid s (RSession (IdPub n)) 3 stream media = (h, [ToConn c (SError E_not_allowed)]).
Proof.
  intros h c sid s n t stream media Ht Hb Hn Hs. unfold do_media.
  change (N.eqb 3 0) with false. change (N.eqb 3 1) with false. change (is_cand 3) with false. change (N.eqb 3 3) with true.
  cbv iota. unfold do_sendoffer. rewrite Ht, Hb, N.eqb_refl. cbn [negb].
  destruct (N.eqb_spec n sid) as [E|_]; [contradiction|]. rewrite Hs. reflexivity.
Qed.
Theorem C08_sendoffer_needs_permission_nobody : forall h c sid s i stream media,
  match i with IdPub n => get_sess h n | _ => None end = None ->
  send_allowed s.(s_perms) stream = false ->
  do_media h c sid s (RSession i) 3 stream media = (h, [ToConn c (SError E_not_allowed)]).
Proof.
  intros h c sid s i stream media Hi Hs. unfold do_media.
  change (N.eqb 3 0) with false. change (N.eqb 3 1) with false. change (is_cand 3) with false. change (N.eqb 3 3) with true.
  cbv iota. unfold do_sendoffer. destruct i as [n|n|k|n]; try (rewrite Hs; reflexivity).
  rewrite Hi, Hs. reflexivity.
Qed.
(* Without the permission a sendoffer tells the media server nothing, whoever it names: no subscriber is created
   for anybody. *)
Theorem C08_sendoffer_refused_creates_nothing : forall h c sid s i stream media e,
  send_allowed s.(s_perms) stream = false ->
  ~ In (ToMcu e) (snd (do_media h c sid s (RSession i) 3 stream media)).
Proof.
  intros h c sid s i stream media e Hs. unfold do_media.
  change (N.eqb 3 0) with false. change (N.eqb 3 1) with false. change (is_cand 3) with false. change (N.eqb 3 3) with true.
  cbv iota. unfold do_sendoffer. rewrite Hs. cbn [negb].
  assert (Herr : ~ In (ToMcu e) (snd (h, [ToConn c (SError E_not_allowed)]))).
  { cbn [snd In]. intros [H|[]]. discriminate. }
  destruct i as [n|n|k|n]; try exact Herr.
  destruct (get_sess h n) as [t|]; [|exact Herr].
  destruct (negb (N.eqb (s_backend t) (s_backend s))); [intros []|].
  destruct (N.eqb n sid); [intros []|exact Herr].
Qed.

Print Assumptions C08_offer_allowed_iff.
Print Assumptions C08_control_gate.
Print Assumptions C08_transient_gate.
Print Assumptions C08_publishers_allowed_by_current_permissions.
Print Assumptions C08_screen_publisher_needs_permission.
Print Assumptions C08_audio_publisher_needs_permission.
Print Assumptions C08_video_publisher_needs_permission.
Print Assumptions C08_no_publish_permission_no_media.
Print Assumptions C08_revocation_closes.
Print Assumptions C08_revocation_establishes.
Print Assumptions C08_request_needs_same_call.
Print Assumptions C08_offer_needs_permission.
Print Assumptions C08_request_needs_same_call_any.
Print Assumptions C08_send_allowed_iff.
Print Assumptions C08_own_stream_needs_permission.
Print Assumptions C08_is_cand_kinds.
Print Assumptions C08_sendoffer_needs_permission.
Print Assumptions C08_sendoffer_needs_permission_nobody.
Print Assumptions C08_sendoffer_refused_creates_nothing.
