(* C08 — Media actions need the matching permission or call membership. *)
From Coq Require Import List NArith Bool.
From Verif Require Import model.Hub proofs.Hub_easy.
Import ListNotations.
Open Scope N_scope.

(* The decision for an offer, spelled out from the property: screen shares need publish-screen; an
   audio (video) m-line needs publish-media or publish-audio (publish-video). *)
Theorem C08_offer_allowed_iff : forall p stream media,
  offer_allowed p stream media = true <->
  (stream = 2 /\ has_perm p P_SCREEN = true) \/
  (stream <> 2 /\
   (N.testbit media 0 = true -> has_perm p P_MEDIA = true \/ has_perm p P_AUDIO = true) /\
   (N.testbit media 1 = true -> has_perm p P_MEDIA = true \/ has_perm p P_VIDEO = true)).
Proof. exact offer_allowed_iff. Qed.

(* Control messages without the control permission (and not from an internal client) are dropped. *)
Theorem C08_control_gate : forall h c sid s to tag,
  conn_session h c sid s -> allowed_control s = false -> step h (OCtl c to tag) = (h, []).
Proof. exact control_gate. Qed.
(* Transient data writes without the permission are refused and change nothing. *)
Theorem C08_transient_gate : forall h c sid s k kindn key val,
  conn_session h c sid s -> s.(s_room) = Some k -> allowed_transient s = false ->
  step h (OTransient c kindn key val) = (h, [ToConn c (SError E_not_allowed)]).
Proof. exact transient_gate. Qed.
(* C08_publish_needs_permission / C08_revocation_closes (partial): "a publisher is created only with
   the permission" and "after a permissions update no open publisher lacks its permission" are checked
   on every implementation trace by P_C08 (step_C08) and by the step-by-step comparison with the model's
   offer_allowed / revoke; the history theorems are not proved yet. *)

Print Assumptions C08_offer_allowed_iff.
Print Assumptions C08_control_gate.
Print Assumptions C08_transient_gate.
