(* C13 - Backend configuration after any reload equals a fresh start, and never blocks.
   Only statements here; proofs are in proofs/BackendCfg_proofs.v and
   proofs/BackendLocks_proofs.v.  `up` is the url.Parse oracle: every theorem
   holds for every function from strings to parse results. *)
From Coq Require Import List ZArith NArith Bool String.
From Verif Require Import gen.LockProgs model.BackendCfg model.BackendLocks corr.Run_C13
  proofs.BackendCfg_proofs proofs.BackendCfg_owner proofs.BackendLocks_proofs.
Import ListNotations.
Local Open Scope string_scope.

(* ---- static storage ------------------------------------------------------------------

   Full statement: for every configuration c0 and every chain cs of reloaded
   configurations, every lookup on the reloaded server answers like a server
   freshly started with the last configuration.
   PARTIAL: proved for chains of configurations that use the `backends` list
   (new_style c: allowall is off, and `allowed` is empty when the list is empty).
   What is missing: chains that enter or leave the deprecated modes - refuted for
   the current code by C13_reload_deprecated_mode_refuted (open finding
   C13/static/reload/deprecated-mode; the code logs "reload is not supported"). *)
Theorem C13_reload_eq_fresh_partial : forall up c0 cs,
  Forall new_style (c0 :: cs) ->
  exists st, run_chain up c0 cs = Some st /\ lookup_equiv_static up st (fresh up (last cs c0)).
Proof. exact reload_eq_fresh. Qed.

(* stronger: not only the lookups, the whole table is that of a fresh start *)
Theorem C13_reload_eq_fresh_table_partial : forall up c0 cs,
  Forall new_style (c0 :: cs) ->
  exists st, run_chain up c0 cs = Some st /\ state_eq st (fresh up (last cs c0)).
Proof. exact reload_eq_fresh_state. Qed.

(* a URL the final configuration does not cover is refused after the chain *)
Theorem C13_removed_url_refused_partial : forall up c0 cs probe,
  Forall new_style (c0 :: cs) ->
  lookup_static up (fresh up (last cs c0)) probe = LRes None ->
  exists st, run_chain up c0 cs = Some st /\ lookup_static up st probe = LRes None.
Proof. exact removed_url_refused. Qed.

(* what is accepted after the chain is a backend of the final configuration: built
   from an id of its list and that id's section, for the host of the URL, with an
   allowed scheme and a url that is a prefix of the looked-up URL - also when a "/"
   is appended to it: the prefix ends at a path-segment boundary (fixes/C13/07) *)
Theorem C13_accepted_only_if_configured_partial : forall up c0 cs st probe b,
  Forall new_style (c0 :: cs) -> run_chain up c0 cs = Some st ->
  lookup_static up st probe = LRes (Some b) ->
  exists p, up probe = Some p /\ configured_backend up (last cs c0) (n_host p) b /\
            is_url_allowed b (p_scheme p) = true /\ String.prefix (b_url b) (add_slash (n_str p)) = true /\
            String.prefix (add_slash (b_url b)) (add_slash (n_str p)) = true.
Proof. exact accepted_only_if_configured. Qed.

(* Reloading never panics: every state, every configuration (deprecated modes too), every chain *)
Theorem C13_reload_no_panic : forall up st c, reload up st c <> None.
Proof. exact reload_no_panic. Qed.
Theorem C13_chain_no_panic : forall up c0 cs, run_chain up c0 cs <> None.
Proof. exact run_chain_no_panic. Qed.

(* the property as trace predicate, for every history of starts, reloads and lookups *)
Theorem C13_static_trace_partial : forall up ops,
  Forall new_style (flat_map op_config ops) -> P_C13 (mtrace_static up None ops) = true.
Proof. exact static_trace. Qed.
Theorem C13_static_trace_no_panic : forall up ops st, ~ In VPanic (map snd (mtrace_static up st ops)).
Proof. exact static_trace_no_panic. Qed.

(* ---- etcd storage: every sequence of put / delete events, no hypothesis ----------------- *)
Theorem C13_etcd_eq_fresh : forall up evs,
  lookup_equiv_etcd up (run_etcd up evs) (fresh_etcd up (final_kv evs)).
Proof. exact etcd_eq_fresh_equiv. Qed.
Theorem C13_etcd_eq_fresh_table : forall up evs h,
  es_tab (run_etcd up evs) h = es_tab (fresh_etcd up (final_kv evs)) h.
Proof. exact etcd_eq_fresh_table. Qed.
(* what is accepted is the accepted value of a key etcd still holds *)
Theorem C13_etcd_accepted_only_if_live : forall up evs probe b,
  lookup_etcd up (run_etcd up evs) probe = LRes (Some b) ->
  exists p, up probe = Some p /\ live up evs (b_id b) = Some (n_host p, b) /\
            is_url_allowed b (p_scheme p) = true /\ String.prefix (b_url b) (add_slash (n_str p)) = true /\
            (b_url b = "" \/ String.prefix (add_slash (b_url b)) (add_slash (n_str p)) = true).
Proof. exact etcd_accepted_only_if_live. Qed.
Theorem C13_etcd_deleted_refused : forall up evs k probe b,
  lookup_etcd up (run_etcd up (evs ++ [EDel k])) probe = LRes (Some b) -> b_id b <> k.
Proof. exact etcd_deleted_refused. Qed.
(* no list in the table is empty (precondition of make(.., len(entries)-1) in the removal) *)
Theorem C13_etcd_lists_nonempty : forall up evs h l, es_tab (run_etcd up evs) h = Some l -> l <> [].
Proof. exact etcd_lists_nonempty. Qed.
Theorem C13_etcd_trace : forall up ops, P_C13 (mtrace_etcd up einit [] ops) = true.
Proof. exact etcd_trace. Qed.

(* ---- the lookup of one entry (getBackendLocked, fixes/C13/07) ---------------------------------
   strings.HasPrefix(url, entry.url) &&
     (entry.url[len(entry.url)-1] == '/' || url[len(entry.url)] == '/')
   is the same as: entry.url with a "/" appended unless it ends in one is a prefix of url *)
Theorem C13_lookup_boundary_is_slashed_prefix : forall eu url,
  url_matches true eu url = String.prefix (add_slash eu) url.
Proof. exact url_matches_add_slash. Qed.
(* the index expression url[len(entry.url)] cannot be out of range where Go evaluates it:
   url has the prefix entry.url, ends in "/" (getBackendLocked appends it) and entry.url does not *)
Theorem C13_lookup_boundary_index_in_range : forall eu url,
  String.prefix eu url = true -> ends_with_slash url = true -> ends_with_slash eu = false ->
  String.length eu < String.length url.
Proof. exact boundary_index_in_range. Qed.
(* the repair changes no answer for entries whose URL ends in "/" or is empty (old-style) *)
Theorem C13_lookup_repair_conservative : forall entries sch url,
  (forall e, In e entries -> b_url e = "" \/ ends_with_slash (b_url e) = true) ->
  find_entry entries sch url = find_entry_unrepaired entries sch url.
Proof. exact find_entry_repair_conservative. Qed.

(* ---- second clause of the trace predicate: an accepted URL belongs to its backend ------------
   (corr/Run_C13.v, Section Owner: the configured URL of the backend an answer names,
   slash-terminated, is a prefix of the looked-up URL, slash-terminated - the lookup
   stops at a path-segment boundary; checked on the running and on the fresh answer).

   Static storage: EVERY history of starts, reloads and lookups, every configuration
   (deprecated modes included: their answers name the compat backend, which has no
   URL and is not judged), every url.Parse oracle.  No hypothesis. *)
Theorem C13_static_owner_trace : forall up ops,
  owner_static up [] (mtrace_static up None ops) = true.
Proof. exact owner_static_trace. Qed.

(* Etcd storage: EVERY history of events and lookups, URLs written with or without
   trailing "/".  [oracle_regular up] is an assumption on the url.Parse oracle, not on
   the history (proofs/BackendCfg_owner.v): String() of a URL with a standard port is
   not empty, and parsing a text with "/" appended agrees with parsing the text (needed
   because the etcd storage parses the URL as written and the clause reads it
   slash-terminated).  The harness checks both on every URL it writes to etcd. *)
Theorem C13_etcd_owner_trace : forall up, oracle_regular up -> forall ops,
  owner_etcd up [] (mtrace_etcd up einit [] ops) = true.
Proof. exact owner_etcd_trace. Qed.

(* The lookup as it was before fixes/C13/07 (plain string prefix; former finding
   C13/etcd/url-without-trailing-slash): an etcd value {"url": "https://cloud.example/nextcloud"}
   - the form of the example in server.conf.in - also accepted
   https://cloud.example/nextcloud-test/..., in the running and in the freshly started
   instance alike (P_C13's first clause could not see it); the repaired lookup refuses. *)
Theorem C13_lookup_unrepaired_boundary_refuted : exists up evs probe a,
  oracle_regular up /\
  answer_of (lookup_etcd_unrepaired up (run_etcd up evs) probe) = ASome a /\
  answer_of (lookup_etcd_unrepaired up (fresh_etcd up (final_kv evs)) probe) = ASome a /\
  owner_ok up (kv_urls (final_kv evs)) probe (ASome a) = false /\
  answer_of (lookup_etcd up (run_etcd up evs) probe) = ANone.
Proof.
  exists own_up, own_evs, "https://cloud.example/nextcloud-test/ocs/v2.php", own_k1.
  split; [exact own_up_regular|exact lookup_unrepaired_refuted].
Qed.
(* ... and with the sibling configured under a later key its URLs were answered with the
   first key's secret; the repaired lookup answers each URL with its own key *)
Theorem C13_lookup_unrepaired_sibling_secret_refuted : exists up evs probe a a',
  oracle_regular up /\
  answer_of (lookup_etcd_unrepaired up (run_etcd up evs) probe) = ASome a /\
  owner_ok up (kv_urls (final_kv evs)) probe (ASome a) = false /\
  answer_of (lookup_etcd up (run_etcd up evs) probe) = ASome a' /\
  owner_ok up (kv_urls (final_kv evs)) probe (ASome a') = true.
Proof.
  exists own_up, own_evs2, "https://cloud.example/nextcloud-test/ocs/v2.php", own_k1, own_k2.
  split; [exact own_up_regular|exact lookup_unrepaired_refuted2].
Qed.

(* ---- lookups and reloads running concurrently always complete ------------------------------
   General lemma: threads running non-reentrant lock programs on one RWMutex
   (a pending writer blocks new readers) under ANY schedule: the state reached
   is never a deadlock, a state where no thread can move has all threads done,
   and no schedule takes more than 2 steps per lock operation. *)
Theorem C13_non_reentrant_progs_complete : forall ps, forallb non_reentrant ps = true ->
  forall sched,
    let s := run sched (init ps) in
    (all_done s = true \/ exists tid, tid < List.length ps /\ enabled s tid = true) /\
    deadlocked s = false /\
    ((forall tid, enabled s tid = false) -> all_done s = true) /\
    effective sched (init ps) <= budget ps.
Proof. exact non_reentrant_progs_complete. Qed.

(* Per-run obligation on the lock programs the translator extracted from the
   current source (gen/LockProgs.v): every entry point of both storages and of
   BackendConfiguration is non-reentrant, and the expected entry points are there. *)
Theorem C13_generated_progs_non_reentrant : forallb non_reentrant generated_progs = true.
Proof. vm_compute. reflexivity. Qed.
Theorem C13_generated_entry_points :
  map fst c13_locks_static = ["GetBackend"; "GetBackends"; "GetCompatBackend"; "Reload"; "Close"] /\
  map fst c13_locks_etcd = ["GetBackend"; "GetBackends"; "GetCompatBackend"; "Reload"; "EtcdKeyUpdated"; "EtcdKeyDeleted"] /\
  map fst c13_locks_config_static = ["GetBackend"; "GetBackends"; "GetCompatBackend"; "IsUrlAllowed"; "GetSecret"; "Reload"] /\
  map fst c13_locks_config_etcd = ["GetBackend"; "GetBackends"; "GetCompatBackend"; "IsUrlAllowed"; "GetSecret"; "Reload"] /\
  In ("Reload", [Lock; Unlock]) c13_locks_static /\ In ("GetBackend", [RLock; RUnlock]) c13_locks_config_static /\
  In ("EtcdKeyDeleted", [Lock; Unlock]) c13_locks_etcd /\ In ("GetBackend", [RLock; RUnlock]) c13_locks_config_etcd.
Proof. vm_compute. repeat split; auto 10. Qed.
(* goroutines call the entry points again and again, in any order *)
Theorem C13_call_sequences_non_reentrant : forall calls : list (list (list lockop)),
  (forall cs p, In cs calls -> In p cs -> In p generated_progs) ->
  forallb non_reentrant (map (@List.concat lockop) calls) = true.
Proof. exact (fun calls => call_sequences_non_reentrant generated_progs calls C13_generated_progs_non_reentrant). Qed.

(* ---- refutations: the code as it was (faithful model with Go's slice semantics) ------------ *)
Theorem C13_reload_unrepaired_panics_refuted : exists up c0 c1, run_chain_unrepaired up c0 [c1] = None.
Proof. exact (ex_intro _ wit_up (ex_intro _ wit_abc (ex_intro _ wit_c unrepaired_reload_panics))). Qed.
Theorem C13_reload_unrepaired_order_refuted : exists up c0 c1 st probe,
  new_style c0 /\ new_style c1 /\ run_chain_unrepaired up c0 [c1] = Some st /\
  answer_of (lookup_static up st probe) <> answer_of (lookup_static up (fresh up c1) probe).
Proof.
  destruct unrepaired_reload_order as (st & H1 & H2).
  exists wit_up, wit_B, wit_AB, st, "https://h1.example/a/b/x". repeat split; try discriminate; auto.
Qed.
Theorem C13_reload_unrepaired_empty_list_refuted : exists up c0 c1 st probe,
  new_style c0 /\ new_style c1 /\ run_chain_unrepaired up c0 [c1] = Some st /\
  answer_of (lookup_static up st probe) <> answer_of (lookup_static up (fresh up c1) probe).
Proof.
  destruct unrepaired_reload_empty_list as (st & H1 & H2).
  exists wit_up, wit_a, wit_none, st, "https://h1.example/a/x". repeat split; try discriminate; auto.
Qed.
Theorem C13_etcd_unrepaired_host_change_refuted : exists up evs probe,
  answer_of (lookup_etcd up (run_etcd_unrepaired up evs) probe) <>
  answer_of (lookup_etcd up (fresh_etcd_unrepaired up (final_kv evs)) probe).
Proof. exact unrepaired_etcd_host_change. Qed.
Theorem C13_etcd_unrepaired_invalid_over_valid_refuted : exists up evs probe,
  answer_of (lookup_etcd up (run_etcd_unrepaired up evs) probe) <>
  answer_of (lookup_etcd up (fresh_etcd_unrepaired up (final_kv evs)) probe).
Proof. exact unrepaired_etcd_invalid_over_valid. Qed.
Theorem C13_etcd_unrepaired_order_refuted : exists up evs probe,
  answer_of (lookup_etcd up (run_etcd_unrepaired up evs) probe) <>
  answer_of (lookup_etcd up (fresh_etcd_unrepaired up (final_kv evs)) probe).
Proof. exact unrepaired_etcd_order. Qed.
Theorem C13_reentrant_rlock_can_deadlock : exists sched,
  deadlocked (run sched (init [unrepaired_GetBackend; unrepaired_Reload])) = true.
Proof. exact (ex_intro _ [0; 1] reentrant_deadlock). Qed.

(* ---- refutation for the CURRENT code: the open finding ------------------------------------------ *)
Theorem C13_reload_deprecated_mode_refuted : exists up c0 c1 st probe,
  run_chain up c0 [c1] = Some st /\
  answer_of (lookup_static up st probe) <> answer_of (lookup_static up (fresh up c1) probe).
Proof.
  destruct reload_deprecated_mode as (st & H1 & H2 & _).
  exists wit_up, wit_old, wit_h2, st, "https://h1.example/x". auto.
Qed.

(* ---- non-vacuity ----------------------------------------------------------------------------------- *)
(* a chain that meets new_style: three backends on a host reloaded to one (the
   history that used to panic), then to the empty list, then to two backends
   with overlapping prefixes; afterwards one URL is accepted and one refused *)
Example C13_new_style_nonvacuous :
  Forall new_style [wit_abc; wit_c; wit_none; wit_AB] /\
  exists st, run_chain wit_up wit_abc [wit_c; wit_none; wit_AB] = Some st /\
    answer_of (lookup_static wit_up st "https://h1.example/a/b/x") = ASome (1%N, 1%N, 0%Z, 0%Z, 0%Z, false) /\
    answer_of (lookup_static wit_up st "https://h1.example/x") = ANone.
Proof. split; [exact new_style_witness|exact new_style_witness_answers]. Qed.
(* the model trace of an etcd history contains accepted and refused lookups *)
Example C13_etcd_trace_nonvacuous :
  map snd (mtrace_etcd wit_up einit []
    [OEvent (EPut 1 (wit_e "https://h1.example/a/" 1)); OProbe "https://h1.example/a/x";
     OEvent (EPut 1 (wit_e "https://h2.example/a/" 2)); OProbe "https://h1.example/a/x"; OProbe "https://h2.example/a/x"]) =
  [VOk; VAns (ASome (1%N, 1%N, 0%Z, 0%Z, 0%Z, false)) (ASome (1%N, 1%N, 0%Z, 0%Z, 0%Z, false));
   VOk; VAns ANone ANone; VAns (ASome (1%N, 2%N, 0%Z, 0%Z, 0%Z, false)) (ASome (1%N, 2%N, 0%Z, 0%Z, 0%Z, false))].
Proof. vm_compute. reflexivity. Qed.
(* the second clause on real work: two backends whose paths share a string prefix but not a
   path prefix, listed in both orders; every URL is accepted for its own backend only *)
Example C13_owner_nonvacuous :
  Forall new_style (flat_map op_config seg_ops) /\
  map snd (mtrace_static seg_up None seg_ops) =
    [VOk; VAns (ASome (2%N, 2%N, 0%Z, 0%Z, 0%Z, false)) (ASome (2%N, 2%N, 0%Z, 0%Z, 0%Z, false));
     VAns (ASome (1%N, 1%N, 0%Z, 0%Z, 0%Z, false)) (ASome (1%N, 1%N, 0%Z, 0%Z, 0%Z, false));
     VAns ANone ANone; VOk;
     VAns (ASome (2%N, 2%N, 0%Z, 0%Z, 0%Z, false)) (ASome (2%N, 2%N, 0%Z, 0%Z, 0%Z, false));
     VAns (ASome (1%N, 1%N, 0%Z, 0%Z, 0%Z, false)) (ASome (1%N, 1%N, 0%Z, 0%Z, 0%Z, false))] /\
  owner_static seg_up [] (mtrace_static seg_up None seg_ops) = true.
Proof. exact seg_example. Qed.
(* the etcd theorem on real work: the oracle of the witness meets oracle_regular; a value
   written without trailing slash accepts its own URLs and refuses the sibling's; with the
   sibling configured as well each URL is accepted for its own key (directed cases 900103/900104) *)
Example C13_etcd_owner_nonvacuous :
  oracle_regular own_up /\
  map snd (mtrace_etcd own_up einit [] own_ops) =
    [VOk; VAns (ASome own_k1) (ASome own_k1); VAns ANone ANone] /\
  map snd (mtrace_etcd own_up einit [] own_ops2) =
    [VOk; VOk; VAns (ASome own_k2) (ASome own_k2); VAns (ASome own_k1) (ASome own_k1)] /\
  owner_etcd own_up [] (mtrace_etcd own_up einit [] own_ops) = true /\
  owner_etcd own_up [] (mtrace_etcd own_up einit [] own_ops2) = true.
Proof. split; [exact own_up_regular|exact etcd_owner_witness_traces]. Qed.
(* the lock theorem applies to real work: 3 lookups and 2 reloads complete under this schedule *)
Example C13_locks_nonvacuous :
  all_done (run [0;1;3;2;0;1;3;3;4;2;4;4;2;2] (init [[RLock; RUnlock]; [RLock; RUnlock]; [RLock; RUnlock]; [Lock; Unlock]; [Lock; Unlock]])) = true.
Proof. vm_compute. reflexivity. Qed.

Print Assumptions C13_reload_eq_fresh_partial.
Print Assumptions C13_reload_eq_fresh_table_partial.
Print Assumptions C13_removed_url_refused_partial.
Print Assumptions C13_accepted_only_if_configured_partial.
Print Assumptions C13_reload_no_panic.
Print Assumptions C13_chain_no_panic.
Print Assumptions C13_static_trace_partial.
Print Assumptions C13_static_trace_no_panic.
Print Assumptions C13_etcd_eq_fresh.
Print Assumptions C13_etcd_eq_fresh_table.
Print Assumptions C13_etcd_accepted_only_if_live.
Print Assumptions C13_etcd_deleted_refused.
Print Assumptions C13_etcd_lists_nonempty.
Print Assumptions C13_etcd_trace.
Print Assumptions C13_lookup_boundary_is_slashed_prefix.
Print Assumptions C13_lookup_boundary_index_in_range.
Print Assumptions C13_lookup_repair_conservative.
Print Assumptions C13_static_owner_trace.
Print Assumptions C13_etcd_owner_trace.
Print Assumptions C13_lookup_unrepaired_boundary_refuted.
Print Assumptions C13_lookup_unrepaired_sibling_secret_refuted.
Print Assumptions C13_non_reentrant_progs_complete.
Print Assumptions C13_generated_progs_non_reentrant.
Print Assumptions C13_generated_entry_points.
Print Assumptions C13_call_sequences_non_reentrant.
Print Assumptions C13_reload_unrepaired_panics_refuted.
Print Assumptions C13_reload_unrepaired_order_refuted.
Print Assumptions C13_reload_unrepaired_empty_list_refuted.
Print Assumptions C13_etcd_unrepaired_host_change_refuted.
Print Assumptions C13_etcd_unrepaired_invalid_over_valid_refuted.
Print Assumptions C13_etcd_unrepaired_order_refuted.
Print Assumptions C13_reentrant_rlock_can_deadlock.
Print Assumptions C13_reload_deprecated_mode_refuted.
