From Verif Require Import corr.Run_C13.
